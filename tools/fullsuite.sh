#!/bin/bash
# Runs the repository's whole sandbox test-suite WITH the friendly_traceback stub on the path, so
# that the ~365 engine tests that the pinned baseline cannot load actually execute.  Used only to
# vet "fix:" commits and seeded mutations; it is not part of any registered check.
# usage: fullsuite.sh [repo_dir] ; prints the sorted list of failing test ids
REPO="${1:-/repo}"
cd "$REPO" || exit 2
PYTHONPATH=/verif/shim PYTHONDONTWRITEBYTECODE=1 /venv/bin/python -m pytest -q -p no:cacheprovider \
  --timeout=900 --continue-on-collection-errors -n 12 sandbox/grist 2>&1 \
  | grep -E "^(FAILED|ERROR)|passed|failed" | sed 's/ - .*//' | sort
