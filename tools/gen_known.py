#!/usr/bin/env python3
"""Rewrites the 'fixed' lines of known_findings.json from 'fixed_src', looking up the current
short hash of each "fix:" commit in /repo by its subject (hashes change if history is rebased)."""
import json
import subprocess

P = '/verif/known_findings.json'
k = json.load(open(P))
log = subprocess.check_output(['git', '-C', '/repo', 'log', '--format=%h %s']).decode().splitlines()
out = []
for e in k['fixed_src']:
  hits = [l.split(' ', 1)[0] for l in log if l.split(' ', 1)[1].startswith('fix:')
          and e['subject_contains'] in l]
  assert len(hits) == 1, (e['subject_contains'], hits)
  out.append("fixed: property=%s %s %s" % (e['property'], hits[0], e['what']))
k['fixed'] = out
json.dump(k, open(P, 'w'), indent=1)
print("%d fixed entries, %d known findings" % (len(out), len(k['findings'])))
