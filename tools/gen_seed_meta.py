#!/usr/bin/env python3
"""
Writes seeded/<id>/meta.json for every kept seed from
  - the sub-agent's notes.md (title, what the change needs to manifest, suites it ran),
  - patch.diff (files touched),
  - seeded/results.json: {seed id: {"confirm": {...}, "checks": {Cxx: {"exit":, "n_keys":, "keys": [...]}}}}
    collected from tools/seed_eval.py / tools/seed_confirm.py runs (tools/collect_seed_results.py).
Nothing here is run against /repo; this only records.
"""
import os
import re
import sys
import json
import glob

VERIF = os.path.dirname(os.path.dirname(os.path.abspath(__file__)))
SEEDED = os.path.join(VERIF, 'seeded')


def section(text, pattern, limit=900):
  """Text of the first paragraph/section whose heading or lead-in matches pattern."""
  lines = text.splitlines()
  for i, l in enumerate(lines):
    if re.search(pattern, l, flags=re.I):
      out = [l.strip('#* ').strip()]
      for m in lines[i + 1:]:
        if re.match(r'^(#+ |\*\*[A-Z]|Demo|## |Test suites|Tests|Clause)', m.strip()) and len(out) > 1:
          break
        out.append(m.rstrip())
      s = '\n'.join(x for x in out if x.strip())
      return s[:limit] + ('...' if len(s) > limit else '')
  return None


def main():
  res_path = os.path.join(SEEDED, 'results.json')
  results = json.load(open(res_path)) if os.path.exists(res_path) else {}
  bpath = os.path.join(SEEDED, 'baseline_results.json')
  baseline = json.load(open(bpath)) if os.path.exists(bpath) else {}
  n = 0
  for d in sorted(glob.glob(os.path.join(SEEDED, 'C*-*'))):
    sid = os.path.basename(d)
    prop = sid.split('-')[0]
    notes = open(os.path.join(d, 'notes.md')).read() if os.path.exists(os.path.join(d, 'notes.md')) else ''
    patch = open(os.path.join(d, 'patch.diff')).read()
    files = sorted(set(re.findall(r'^\+\+\+ b/(\S+)', patch, flags=re.M)))
    title = next((l.strip('# ').strip() for l in notes.splitlines() if l.strip()), sid)
    demo = [f for f in sorted(os.listdir(d)) if f.endswith('.py')]
    suites = [l.strip(' *-') for l in notes.splitlines()
              if re.search(r'\b(158 passed|515 passed|8 failed)', l)][:4]
    r = results.get(sid, {})
    checks = r.get('checks', {})
    caught_by = sorted(c for c, v in checks.items() if v.get('exit') == 1)
    missed_by = sorted(c for c, v in checks.items() if v.get('exit') == 0)
    meta = {
        'seed': sid,
        'breaks_property': prop,
        'title': title,
        'files_changed': files,
        'needs_to_manifest': section(notes, r'need(ed|s)?\b.*manifest|what is needed|needed to manifest|manifest'),
        'clause_broken': section(notes, r'clause', 500),
        'demonstration': demo,
        'demonstration_confirmed': r.get('confirm'),
        'repository_tests_with_the_change': suites or ['see notes.md'],
        'pinned_baseline_rerun_here': baseline.get(sid, {'summary': 'not run'}),
        'what_was_run': {
            'confirm': 'tools/seed_confirm.py seeded/%s [--suite]: demo exits 0 on a scratch worktree of /repo HEAD, '
                       'non-zero after `git apply --3way patch.diff`; --suite also runs the pinned 158-test '
                       'baseline and tools/fullsuite.sh on the patched worktree' % sid,
            'checks': 'tools/seed_eval.py seeded/%s/patch.diff <checks> (quick tier, VERIF_REPO=scratch worktree)' % sid,
            'baseline': 'tools/seed_baseline.py: the pinned test command on a scratch worktree with the patch '
                        'applied (all 158 baseline tests must still pass)',
        },
        'checks_run': {c: {'exit': v.get('exit'), 'violations': v.get('n_keys'),
                           'first_keys': v.get('keys', [])[:3]} for c, v in sorted(checks.items())},
        'caught_by': caught_by,
        'not_caught_by': missed_by,
    }
    json.dump(meta, open(os.path.join(d, 'meta.json'), 'w'), indent=1, sort_keys=True)
    n += 1
  print("wrote %d meta.json" % n)


if __name__ == '__main__':
  main()
