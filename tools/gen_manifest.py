#!/usr/bin/env python3
"""Generates /verif/MANIFEST.json from the table below (kept here so it is easy to keep valid)."""
import json
import os

VERIF = os.path.dirname(os.path.dirname(os.path.abspath(__file__)))

HIST_NOTE = ("Trusted: CPython, the harness and its reference models (/verif/mc), the "
             "friendly_traceback stub (error-message text only). Bounded: histories up to the stated "
             "depth over the world alphabets; values outside the alphabets, deeper histories and "
             "Node-side behaviour are not covered.")
ENUM_NOTE = ("Trusted: CPython and the small reference oracle in the property module. Exhaustive only "
             "over the stated finite input space; inputs outside it are not covered.")

# id -> (category, technique, text, design_ref, note)
CHECKS = {
    'C01': ('model_checking', 'explicit-state history exploration of the real engine; undo differential',
            'All histories of user-action bundles up to depth 2 (quick) / 3 (thorough) over the '
            'worlds\' alphabets are executed on the real engine; after each bundle the returned undo '
            'actions must restore the exact prior dump, and at maximal depth the whole history is '
            'undone in reverse back to the base document.', '§2 C01', HIST_NOTE),
    'C02': ('model_checking', 'explicit-state history exploration; independent doc-action interpreter',
            'Stored actions of every bundle of every history are replayed into an independent '
            'interpreter and compared with the engine after every step (origin I from InitNewDoc, '
            'origin L from the reloaded base).', '§2 C02', HIST_NOTE),
    'C03': ('model_checking', 'explicit-state history exploration; undo-then-redo differential',
            'For every bundle of every history: undo, then ApplyDocActions(stored) must reproduce the '
            'post-bundle dump exactly.', '§2 C03', HIST_NOTE),
    'C05': ('model_checking', 'explicit-state history exploration; fresh-engine recomputation differential',
            'After every bundle of every history a fresh engine loaded from metadata + data columns '
            'must compute the same value for every formula cell; no state merging.', '§2 C05', HIST_NOTE),
    'C07': ('model_checking', 'explicit-state history exploration; marshal storage round trip',
            'Every reached state is saved and reopened through the marshal/DB decoding path; '
            'Calculate must emit nothing and the data must be identical.', '§2 C07', HIST_NOTE),
}

def H(pid, text, tech='explicit-state history exploration of the real engine', ref=None):
  CHECKS[pid] = ('model_checking', tech, text, ref or ('§2 ' + pid), HIST_NOTE)


def E(pid, text, tech='exhaustive enumeration of a finite input space vs reference oracle', ref=None,
      cat='exploration'):
  CHECKS[pid] = (cat, tech, text, ref or ('§2 ' + pid), ENUM_NOTE)


H('C08', 'All histories of schema-affecting bundles (incl. failing ones): after each bundle, successful '
         'or rolled back, an independently built schema from the metadata rows must equal '
         'engine.schema and no column record may lack a table record.')
H('C09', 'All histories of table/column/view/section/field/summary actions: after each successful '
         'bundle every reference in the metadata tables must resolve, helper columns must be in use, '
         'and each user table has exactly one record with a raw section; world W_views adds widgets '
         'linked across tables, saved filters, field rules and display helpers and what orphans them.')
H('C10', 'All histories whose last bundle makes rows disappear: no Ref/RefList data cell of any user '
         'or metadata table may still hold a removed id; RefLists keep the other ids in order.')
H('C11', 'All histories over the two-way reference world: every reverse-linked column pair is '
         'symmetric after each successful bundle (a cell naming a missing row counts as asymmetric); rejected '
         'bundles leave the dump unchanged; histories continue past rejected bundles.')
H('C12', 'All histories over the summary world: each summary table is compared with a reference '
         'group-by of its source after every successful bundle.')
H('C13', 'All histories over the lookup world: 21 lookup specs x lookupRecords/lookupOne compared with '
         'a naive filter + documented sort after every bundle; plus the lookup life-cycle world W_look2 '
         '(one referring row; sort column removed/restored, order_by switched and back, later columns and '
         'tables, errored key cells, undo as a step) against its own reference.')
H('C31', 'All histories of record-edit bundles: direct flags parallel stored actions; formula '
         'results, summary row maintenance and empty-column conversions must be non-direct, the '
         'requested edits direct.')
E('C34', 'Every bundled zone x every transition instant x probe offsets: timestamp round trip, '
         'date round trip (UTC and in-zone), and local ambiguous/skipped times get an adjacent offset; '
         'reference reads the raw tz table.')
E('C35', 'Intervals x slot lists x starts x counts x ends vs a brute-force occurrence generator; '
         'malformed strings must raise ValueError.')
E('C36', 'Every indentation sequence of length <= 5/6 over 4 levels x every removal subset: valid '
         'tree, never deeper, only violating pages changed; plus, through the engine, 4 pages in all 24 '
         'page orders x every valid tree x every removal set (BulkRemoveRecord on _grist_Pages).')
E('C38', 'Complete entry-by-entry differential of the single configuration: schema.ts vs generator '
         'output/schema.py and gristTypes.ts defaults vs usertypes defaults.',
  tech='complete differential over one configuration (degenerate space)', cat='other')

H('C15', 'All histories over the trigger world (every trigger formula counts its own recalculations): '
         'three-valued reference model MUST/MUST-NOT/explicit per (row, trigger column, bundle); undo then '
         'redo of every bundle leaves every trigger cell at its recorded value.')
E('C22', '19 type objects x a catalogue of 352 adversarial values (plus list/tuple wrappings; thorough: '
         'all two-step chains): convert never raises, result is right-type / same error / alt-text, '
         'and converting again is the identity.')
E('C32', 'Grids (all small grids; tall grids of 99..102/150 rows with one deviating row at every position '
         'class, incl. wider rows after the header sample) x dialects x header flag, written with '
         'csv.writer and read by import_csv.parse_file; strict equality with the expected table.')
E('C33', 'Every JSON value of depth <= 2 (+ a restricted depth-3 family) x include/exclude filters; an '
         'inverse mapping rebuilt from the produced tables must reproduce the input.')
E('C40', 'Every expression of depth <= 2/3 of the supported grammar (rendered by an own renderer) plus 41 '
         'unsupported constructs x 12 contexts: strict-JSON tree, equal to the spec tree, interpreter of '
         'node semantics agrees with Python eval in 3 environments; unsupported -> SyntaxError.')
E('C41', 'Tables of <= 3 rows x 2 Any columns over hashable and unhashable values x 1607 queries x '
         'formulas/private flags on a live engine; rows and column kinds vs an independent model.')

E('C20', 'relabeling.prepare_inserts on every sorted list of <= 4 positions x every batch of <= 3 '
         'requests over an adversarial float alphabet, plus insertion chains (60/400 steps) and insertion '
         'trees from adjacent-float clusters, and every alignment of the left neighbour in a block of 16 '
         'floats; engine part in the same check: history explorer (incl. world W_pos: inserts and moves '
         'into adjacent floats behind a RenameTable, origins L and I) with monitors for distinct '
         'positions, preserved order of rows not placed, and placement of added/moved rows.')
E('C21', 'pick_col_ident/pick_table_ident/pick_col_ident_list on every string of length <= 3/4 over 9 '
         'characters, exotic Unicode, all keywords, adaptive avoid-set trees and lists of <= 3 names; engine '
         'part: histories of depth 2 over world W_names (adversarial names through AddTable/RenameTable/'
         'AddColumn/RenameColumn/bulk metadata renames, summary tables with coinciding encoded names).')
E('C24', 'Catalogue of 132 adversarial values x container wrappers x 4 routes driven through the real '
         'main.run(Sandbox) transport (plus typed formula columns read through an Any column): every reply '
         'frame is DATA and unmarshals, encode(decode(x)) == x.')
E('C25', 'Starting versions 0..47 x 3 document worlds x single-cell deviations (pairs in thorough) of '
         'every Text cell migrations parse; actions applied by the independent interpreter must reach '
         'the current schema.')
E('C37', 'Texts of length <= 4/5 over {a,b,newline} x all non-overlapping patch sets x 5 builder '
         'compositions x every output sub-range, vs an independent forward-map reference.')

CHECKS['C04'] = ('fault_enumeration', 'fault enumeration: every crossing of every seam of every (state, bundle)',
  'For every (state, bundle) of five worlds: natural failures plus one injected exception at every '
  'crossing of 5 seams (doc-action entry/return, rebuild_usercode, apply_auto_removes, '
  'flush_calc_changes); after a raised bundle the dump, schema, a following Calculate and three '
  'follow-up bundles must be exactly those of an engine that never saw the failure.', '§2 C04', HIST_NOTE)
E('C26', 'All bundles of <= 2/3 actions over a temp-id alphabet (adds with ids None/-1/-2, updates, removes, '
         'Ref/RefList values with known and unknown negative ids) on two tables referencing each other, '
         'from 2 base states, plus a state with a two-way linked Ref column (all bundles of <= 3 actions), '
         'vs a reference resolution of temporary ids; unknown ids must leave no trace.')
E('C27', 'AddRecord/BulkAddRecord/ReplaceTableData x every id list of length <= 2/3 over {None,-1,-2,0,1,2,5,'
         '10^6,10^6+1,True} x 5 table states; returned ids == new rows, distinct, fresh; invalid requests '
         'rejected with the dump unchanged.')
E('C28', 'Table contents x require x col_values x options x bulk length <= 2 for BulkAddOrUpdateRecord and '
         'AddOrUpdateRecord vs a reference upsert written from the docstring.')
E('C39', 'Choice/ChoiceList contents x saved filters x rename maps (swap, chain, merge, identity, unused, '
         "''->z): simultaneous substitution on cells and that column's filters, nothing else changes.")

H('C06', 'For every (state, bundle) and for the full recalculation of every base document and of all '
         'cyclic 2-/3-column documents: the run is repeated under every schedule that deviates from '
         'the default work-list order at one call of _make_sorted_work_items (all permutations of the '
         'dirty nodes up to 4/6 per class, lookups kept first); dump and multiset of stored actions '
         'must be identical, no schedule may raise; when only the dependency graph differs, every '
         'follow-up bundle is chained behind both runs and compared.',
  tech='stateless schedule enumeration (CHESS-style, deviation-bounded) of the engine work list')
H('C18', 'Every dependency graph over 3 (quick) / 4 (thorough) formula columns x {in-row, through a '
         'self-reference to the other row}: terminates, cells on a cycle hold CircularRefError, cells '
         'not involved get the value of an independent evaluator; after initial calculation, after an '
         'edit and after a from-scratch reload.',
  tech='exhaustive enumeration of all dependency graphs on the real engine; graph-theoretic oracle')

H('C29', 'Every state up to depth 1/2 of three worlds (lookups, summary tables with side-effecting '
         'helper formulas, trigger formulas) x every read-only API call with its argument menu: the '
         'dump is unchanged after each call and a following Calculate emits nothing.')
H('C30', 'All histories up to the depth executed in 4/16 separate processes with different '
         'PYTHONHASHSEED (and different exploration order): SHA-256 of every reply and of the final '
         'dump must agree across processes.',
  tech='explicit-state history exploration repeated in separate processes (hash seed / process-history differential)')

H('C23', 'Every ordered pair of 12 column types x a column of 15/25 stored values of the source type x '
         '{ModifyColumn, metadata UpdateRecord}: each new cell equals the conversion by a separately '
         'constructed column of the new type; nothing else changes but dependent formulas (compared '
         'with a fresh recomputation); an engine replaying only the stored actions reports the same data.',
  tech='exhaustive enumeration of type pairs x stored-value menus on the real engine')

E('C17', 'Predicate formulas from a grammar (63 contexts x 12/62 atoms, two- and three-hole contexts, broken '
         'texts) stored as ACL rules, dropdown conditions and trigger conditions (text and config) x 16/35 '
         'rename cases: the new parsed tree equals the old tree with exactly the context\'s references '
         'renamed, stored parsed form consistent, other text and unparsable formulas untouched.')

E('C14', 'Every table of <= 3/4 rows over sort values {1,2,None,\'a\',1.5} x groups {x,y}, in two states '
         '(after adding, after reversing manualSort): find.lt/le/gt/ge/eq for 11 value probes (+ tuple and '
         'prefix probes) and PREVIOUS/NEXT/RANK for 6 order specs on every row vs a linear scan of the '
         'documented order.')
E('C19', '486 grammar texts in 16 kinds + every string of length <= 3/4 over 10 characters as the formula '
         'of one column (alone, and 16 per document): the bundle succeeds, other columns keep their '
         'values, valid texts equal an independent tokenize/AST reference, invalid ones error in every row.')

H('C16', 'A document with 103 formula columns drawn from a template grammar of the supported reference '
         'forms (and look-alikes that must not change) x 22 renamed entities x 5/8 rename paths x 5-20 '
         'targets (thorough: pairs of renames, renames after formula edits): all values unchanged, every '
         'formula text equals its template rendered with the new ids byte for byte, fresh recompute agrees.',
  tech='exhaustive enumeration of rename cases over a formula-template grammar on the real engine')

PLANNED = {}


def main():
  props = [json.loads(l) for l in open(os.path.join(VERIF, 'properties.jsonl'))]
  checks = []
  na = []
  extra = {}
  extra_path = os.path.join(VERIF, 'tools', 'manifest_table.json')
  if os.path.exists(extra_path):
    extra = json.load(open(extra_path))
  table = dict(CHECKS)
  for k, v in extra.get('checks', {}).items():
    table[k] = tuple(v)
  for p in props:
    pid = p['id']
    if pid in table and os.path.exists(os.path.join(VERIF, 'mc', 'props', pid + '.py')):
      cat, tech, text, ref, note = table[pid]
      checks.append({
          'property_id': pid,
          'quick_cmd': './check %s --tier quick' % pid,
          'thorough_cmd': './check %s --tier thorough' % pid,
          'evidence_file': '/verif/evidence/%s.json' % pid,
          'replay_cmd_template': './check %s --replay {path}' % pid,
          'engine': 'mc',
          'level_claimed': {'category': cat, 'text': text, 'design_ref': 'DESIGN.md ' + ref},
          'level_note': note,
          'technique': tech,
      })
    else:
      reason = extra.get('not_applicable', {}).get(
          pid, 'check not built yet (planned bounded-exhaustive exploration, DESIGN.md §2 %s); '
               'not claimed until it exists' % pid)
      na.append({'property_id': pid, 'reason': reason})
  manifest = {
      'version': 1,
      'setup_cmd': './tools/setup.sh',
      'hooks': {
          'guard': 'GRIST_CORE_VERIF',
          'enable': 'GRIST_CORE_VERIF=1 is exported by ./check; no hook code exists in /repo (every '
                    'seam is wrapped from the harness), so there is nothing to build',
          'baseline_off_cmd': 'cd /repo && env -u GRIST_CORE_VERIF /venv/bin/python -m pytest -ra -q '
                              '-p no:cacheprovider --timeout=900 --continue-on-collection-errors',
          'source_commits': [],
          'add_only': True,
      },
      'engines': [{
          'name': 'mc',
          'path': '/verif/mc',
          'serves_properties': [c['property_id'] for c in checks],
          'kind_free_text': 'hand-written explicit-state / bounded-exhaustive explorer driving the '
                            'real Python engine imported from /repo/sandbox/grist',
      }],
      'checks': checks,
      'not_applicable': na,
      'notes': 'All checks import the engine from /repo/sandbox/grist at run time (no build step). '
               'Genuine defects found are either fixed in /repo ("fix:" commits) or listed in '
               '/verif/known_findings.json.',
  }
  with open(os.path.join(VERIF, 'MANIFEST.json'), 'w') as f:
    json.dump(manifest, f, indent=1)
  print("checks=%d not_applicable=%d" % (len(checks), len(na)))


if __name__ == '__main__':
  main()
