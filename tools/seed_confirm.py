#!/usr/bin/env python3
"""
Confirm a seeded change delivered by a sub-agent (patch.diff + demo) in a scratch worktree:
  tools/seed_confirm.py <dir with patch.diff and demo.py|test_demo.py> [--suite]
1. demo on the clean worktree must pass (exit 0); 2. patch applies; 3. demo with the patch must fail;
4. (--suite) the full sandbox suite with the stub has the same failures as the unmodified tree and
the pinned baseline's 158 tests still pass.  Prints a JSON summary; removes the worktree.
"""
import os
import sys
import json
import glob
import shutil
import subprocess
import tempfile

BASE_FAIL = '/tmp/full_base.txt'


def run(cmd, cwd, env=None, timeout=3000):
  r = subprocess.run(cmd, cwd=cwd, env=env, stdout=subprocess.PIPE, stderr=subprocess.STDOUT,
                     universal_newlines=True, timeout=timeout)
  return r.returncode, r.stdout


def demo_cmd(d, wt):
  for name in ('demo.py', 'test_demo.py'):
    p = os.path.join(d, name)
    if os.path.exists(p):
      dst = os.path.join(wt, 'sandbox', 'grist', '_seed_' + name)
      shutil.copy(p, dst)
      for extra in glob.glob(os.path.join(d, '*.py')):      # helper modules of the demo
        if os.path.basename(extra) not in ('demo.py', 'test_demo.py'):
          shutil.copy(extra, os.path.join(wt, 'sandbox', 'grist', os.path.basename(extra)))
      if name.startswith('test_'):
        return ['/venv/bin/python', '-m', 'pytest', '-q', '-p', 'no:cacheprovider', '-x', dst], dst
      return ['/venv/bin/python', dst], dst
  raise SystemExit("no demo in %s" % d)


def main():
  d = os.path.abspath(sys.argv[1])
  suite = '--suite' in sys.argv
  base = tempfile.mkdtemp(prefix='seedconf_')
  wt = os.path.join(base, 'wt')
  out = {'dir': d}
  try:
    subprocess.check_call(['git', '-C', '/repo', 'worktree', 'add', '--detach', '-q', wt],
                          stdout=subprocess.DEVNULL, stderr=subprocess.DEVNULL)
    env = dict(os.environ, PYTHONPATH='/tmp/ftshim', PYTHONDONTWRITEBYTECODE='1', PYTHONHASHSEED='0')
    cmd, dst = demo_cmd(d, wt)
    cwd = os.path.join(wt, 'sandbox', 'grist')
    rc0, o0 = run(cmd, cwd, env)
    out['demo_clean_exit'] = rc0
    rc = subprocess.call(['git', '-C', wt, 'apply', '--3way', os.path.join(d, 'patch.diff')],
                         stdout=subprocess.DEVNULL, stderr=subprocess.DEVNULL)
    out['patch_applies'] = (rc == 0)
    rc1, o1 = run(cmd, cwd, env)
    out['demo_patched_exit'] = rc1
    out['demo_patched_tail'] = o1[-400:]
    if rc0 != 0:
      out['demo_clean_tail'] = o0[-600:]
    os.unlink(dst)
    if suite:
      rcs, os_ = run(['/verif/tools/fullsuite.sh', wt], wt)
      lines = sorted(l for l in os_.splitlines() if l.startswith(('FAILED', 'ERROR')))
      basel = sorted(l for l in open(BASE_FAIL).read().splitlines() if l.startswith(('FAILED', 'ERROR')))
      out['suite_same_failures_as_base'] = (lines == basel)
      out['suite_summary'] = [l for l in os_.splitlines() if 'passed' in l][-1:]
      if lines != basel:
        out['suite_diff'] = sorted(set(lines) ^ set(basel))[:10]
      rcb, ob = run(['/venv/bin/python', '-m', 'pytest', '-q', '-p', 'no:cacheprovider',
                     '--timeout=900', '--continue-on-collection-errors'], wt,
                    dict(os.environ, PYTHONDONTWRITEBYTECODE='1'))
      out['baseline_summary'] = [l for l in ob.splitlines() if ' passed' in l][-1:]
    print(json.dumps(out, indent=1))
  finally:
    subprocess.call(['git', '-C', '/repo', 'worktree', 'remove', '--force', wt],
                    stdout=subprocess.DEVNULL, stderr=subprocess.DEVNULL)
    shutil.rmtree(base, ignore_errors=True)


if __name__ == '__main__':
  main()
