#!/usr/bin/env python3
"""
Evaluate checks against a seeded mutation WITHOUT touching /repo:
  tools/seed_eval.py <patch.diff> <Cxx> [<Cyy> ...] [--tier quick|thorough]
Creates a scratch worktree of /repo HEAD under /tmp, applies the patch there, runs the checks with
VERIF_REPO pointing at it (evidence/replays redirected to the scratch dir), prints one line per
check with the exit code and the violation keys, and removes the worktree.
"""
import os
import re
import sys
import json
import shutil
import subprocess
import tempfile

VERIF = os.path.dirname(os.path.dirname(os.path.abspath(__file__)))


def main():
  args = sys.argv[1:]
  tier = 'quick'
  if '--tier' in args:
    i = args.index('--tier')
    tier = args[i + 1]
    del args[i:i + 2]
  patch, props = os.path.abspath(args[0]), args[1:]
  base = tempfile.mkdtemp(prefix='seedeval_')
  wt = os.path.join(base, 'wt')
  out = os.path.join(base, 'out')
  os.makedirs(out)
  try:
    subprocess.check_call(['git', '-C', '/repo', 'worktree', 'add', '--detach', '-q', wt])
    subprocess.check_call(['git', '-C', wt, 'apply', '--3way', patch],
                          stdout=subprocess.DEVNULL, stderr=subprocess.DEVNULL)
    env = dict(os.environ, VERIF_REPO=wt, VERIF_OUT_DIR=out)
    results = {}
    for p in props:
      r = subprocess.run([os.path.join(VERIF, 'check'), p, '--tier', tier], cwd=VERIF, env=env,
                         stdout=subprocess.PIPE, stderr=subprocess.STDOUT, universal_newlines=True)
      keys = re.findall(r'^\s+key=(\S.*)$', r.stdout, flags=re.M)
      known = len(re.findall(r'^KNOWN-FINDING', r.stdout, flags=re.M))
      results[p] = {'exit': r.returncode, 'keys': keys[:8], 'n_keys': len(keys), 'known': known}
      print("%s exit=%d violations=%d known=%d %s" % (p, r.returncode, len(keys), known, keys[:4]))
      if r.returncode not in (0, 1):
        print(r.stdout[-1500:])
    print(json.dumps(results))
  finally:
    subprocess.call(['git', '-C', '/repo', 'worktree', 'remove', '--force', wt])
    shutil.rmtree(base, ignore_errors=True)


if __name__ == '__main__':
  main()
