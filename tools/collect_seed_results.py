#!/usr/bin/env python3
"""
Collects seed evaluation logs (output of tools/seed_confirm.py / tools/seed_eval.py batches) into
seeded/results.json.  Usage: collect_seed_results.py <log> [<log> ...]  (later logs override
earlier ones per (seed, check)).
"""
import os
import re
import sys
import ast
import json

VERIF = os.path.dirname(os.path.dirname(os.path.abspath(__file__)))


def main():
  path = os.path.join(VERIF, 'seeded', 'results.json')
  res = json.load(open(path)) if os.path.exists(path) else {}
  for log in sys.argv[1:]:
    cur = None
    for line in open(log, errors='replace'):
      m = re.match(r'^=== \S*/(C\d+)[/-](?:out/)?(\d+)\s*$', line) or re.match(r'^=== \S*seed(C\d+)/out/(\d+)', line)
      if m:
        cur = '%s-%s' % (m.group(1), m.group(2))
        res.setdefault(cur, {'checks': {}})
        continue
      if cur is None:
        continue
      m = re.match(r'^confirm (?:clean=)?(\S+) (?:applies=)?(\S+) (?:patched=)?(\S+)', line)
      if m:
        res[cur]['confirm'] = {'demo_exit_clean': m.group(1), 'patch_applies': m.group(2),
                               'demo_exit_patched': m.group(3)}
        continue
      m = re.match(r'^(C\d+) exit=(\d+) violations=(\d+) known=(\d+) (\[.*\])\s*$', line)
      if m:
        try:
          keys = ast.literal_eval(m.group(5))
        except Exception:    # pylint: disable=broad-except
          keys = []
        res[cur]['checks'][m.group(1)] = {'exit': int(m.group(2)), 'n_keys': int(m.group(3)),
                                          'known': int(m.group(4)), 'keys': keys, 'log': os.path.basename(os.path.dirname(log)) or log}
  json.dump(res, open(path, 'w'), indent=1, sort_keys=True)
  print("seeds: %d" % len(res))


if __name__ == '__main__':
  main()
