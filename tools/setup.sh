#!/bin/bash
# Run once after a fresh restore, offline.  Nothing is built: the checks import the engine from
# /repo/sandbox/grist at run time.  This only verifies that the harness can load it.
cd "$(dirname "$0")/.." || exit 2
mkdir -p evidence replays
export PYTHONHASHSEED=0 PYTHONDONTWRITEBYTECODE=1
/venv/bin/python -B - <<'PY'
import sys
sys.path.insert(0, '.')
from mc import harness as H
d = H.Doc.new()
d.apply([["AddTable", "T", [{"id": "a", "type": "Int"}, {"id": "f", "isFormula": True, "formula": "$a+1", "type": "Any"}]]])
d.apply([["AddRecord", "T", None, {"a": 1}]])
c1 = d.canon()
d2 = H.Doc.load(d.snapshot())
assert d2.canon() == c1, "self-test: reload differs"
print("setup ok: engine loads from", H.GRIST)
PY
