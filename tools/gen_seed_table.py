#!/usr/bin/env python3
"""Rewrites the seed table of DESIGN.md (between the SEED-TABLE markers) and seeded/README.md from
seeded/*/meta.json."""
import os
import re
import glob
import json

VERIF = os.path.dirname(os.path.dirname(os.path.abspath(__file__)))


def main():
  rows = []
  for f in sorted(glob.glob(os.path.join(VERIF, 'seeded', 'C*-*', 'meta.json'))):
    m = json.load(open(f))
    title = re.sub(r'^(#\s*)?(Seeded defect|Extra \(bonus\) seeded defect|C\d+ seeded defect|Defect)?\s*[#\d/:\-\s\w()]*?(--|—|-|:)\s*', '',
                   m['title'], count=1) if len(m['title']) > 90 else m['title']
    title = m['title'].lstrip('# ').strip()
    title = re.sub(r'\s+', ' ', title)[:110]
    conf = m.get('demonstration_confirmed') or {}
    ok = (str(conf.get('demo_exit_clean')) == '0' and str(conf.get('demo_exit_patched')) not in ('0', 'None'))
    b = m.get('pinned_baseline_rerun_here') or {}
    bl = ('%s pass' % b['passed'] if b.get('passed') is not None and not b.get('baseline_tests_failed')
          else (b.get('summary') or '?'))
    rows.append((m['seed'], ', '.join(os.path.basename(x) for x in m['files_changed']), title,
                 'yes' if ok else '?', bl, ', '.join(m['caught_by']) or '-',
                 ', '.join(m['not_caught_by']) or '-'))
  lines = ['| seed | file(s) changed | what (from the seeder\'s notes) | demo confirmed | pinned baseline with the change | caught by | run, silent |',
           '|---|---|---|---|---|---|---|']
  for r in rows:
    lines.append('| ' + ' | '.join(x.replace('|', '/') for x in r) + ' |')
  table = '\n'.join(lines)
  open(os.path.join(VERIF, 'seeded', 'README.md'), 'w').write(
      "# Seeded property-breaking changes\n\nEach directory: patch.diff (against /repo HEAD at the time), the "
      "seeder's demonstration, notes.md, meta.json.\nNothing here is applied to /repo; tools/seed_eval.py "
      "applies a patch in a scratch worktree.\n\n" + table + '\n')
  p = os.path.join(VERIF, 'DESIGN.md')
  s = open(p).read()
  a, b = '<!-- SEED-TABLE-BEGIN -->', '<!-- SEED-TABLE-END -->'
  if a in s:
    s = s[:s.index(a) + len(a)] + '\n' + table + '\n' + s[s.index(b):]
    open(p, 'w').write(s)
  caught_own = sum(1 for r in rows if r[0].split('-')[0] in r[5].split(', '))
  print("%d seeds, %d caught by the check of their own property, %d caught by some check" % (
      len(rows), caught_own, sum(1 for r in rows if r[5] != '-')))


if __name__ == '__main__':
  main()
