#!/usr/bin/env python3
"""
Runs the repository's pinned test command (the 158-test baseline; friendly_traceback NOT on the
path, exactly as /root/.vp/BASELINE.json runs it) on a scratch worktree with each seeded patch
applied, 4 seeds at a time, and writes seeded/baseline_results.json:
  {seed: {"summary": "... passed ...", "passed": N, "baseline_tests_failed": [...]}}
A seed is realistic only if all baseline tests still pass with it.
"""
import os
import re
import sys
import json
import glob
import shutil
import tempfile
import subprocess
from concurrent.futures import ThreadPoolExecutor

VERIF = os.path.dirname(os.path.dirname(os.path.abspath(__file__)))
STABLE = set(json.load(open('/root/.vp/BASELINE.json'))['stable_pass'])


def one(d):
  sid = os.path.basename(d)
  base = tempfile.mkdtemp(prefix='seedbase_')
  wt = os.path.join(base, 'wt')
  try:
    subprocess.check_call(['git', '-C', '/repo', 'worktree', 'add', '--detach', '-q', wt],
                          stdout=subprocess.DEVNULL, stderr=subprocess.DEVNULL)
    if d != 'CLEAN':
      rc = subprocess.call(['git', '-C', wt, 'apply', '--3way', os.path.join(d, 'patch.diff')],
                           stdout=subprocess.DEVNULL, stderr=subprocess.DEVNULL)
      if rc != 0:
        return sid, {'summary': 'patch does not apply'}
    xml = os.path.join(base, 'junit.xml')
    r = subprocess.run(['/venv/bin/python', '-m', 'pytest', '-q', '-p', 'no:cacheprovider', '--timeout=900',
                        '--continue-on-collection-errors', '--junitxml=' + xml], cwd=wt,
                       env=dict(os.environ, PYTHONDONTWRITEBYTECODE='1'),
                       stdout=subprocess.PIPE, stderr=subprocess.STDOUT, universal_newlines=True)
    summ = [l for l in r.stdout.splitlines() if ' passed' in l][-1:]
    passed = set()
    import xml.etree.ElementTree as ET
    for tc in ET.parse(xml).getroot().iter('testcase'):
      if not list(tc):
        passed.add('%s::%s' % (tc.get('classname'), tc.get('name')))
    missing = sorted(STABLE - passed)
    return sid, {'summary': summ[0].strip('= ') if summ else r.stdout[-200:], 'passed': len(passed),
                 'baseline_tests_failed': missing[:10]}
  finally:
    subprocess.call(['git', '-C', '/repo', 'worktree', 'remove', '--force', wt],
                    stdout=subprocess.DEVNULL, stderr=subprocess.DEVNULL)
    shutil.rmtree(base, ignore_errors=True)


def main():
  dirs = sorted(glob.glob(os.path.join(VERIF, 'seeded', 'C*-*')))
  if len(sys.argv) > 1:
    dirs = [d for d in dirs if os.path.basename(d) in sys.argv[1:]]
  out_path = os.path.join(VERIF, 'seeded', 'baseline_results.json')
  out = json.load(open(out_path)) if os.path.exists(out_path) else {}
  with ThreadPoolExecutor(4) as ex:
    for sid, res in ex.map(one, ['CLEAN'] + dirs):
      out[sid] = res
      print(sid, res.get('summary'), res.get('baseline_tests_failed'))
      sys.stdout.flush()
      json.dump(out, open(out_path, 'w'), indent=1, sort_keys=True)


if __name__ == '__main__':
  main()
