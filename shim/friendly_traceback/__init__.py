"""Minimal stand-in for the `friendly_traceback` package, which /venv lacks.

Only what sandbox/grist/codebuilder.py needs to *load the engine* is provided:
`friendly_traceback.source_cache.cache.add(filename, source)`.  There is deliberately no
`friendly_traceback.core`, so friendly_errors.friendly_message() takes its own except-path and
returns "" (only error-message *text* is affected).  This directory is put on sys.path only inside
/verif harness processes; the repository's baseline test command never sees it.
"""
