"""
Harness: owns every source of nondeterminism around the real Grist data engine and exposes the
small API the explorers use (new_doc / apply / dump / canon / snapshot / load / reopen /
fresh_recompute).  The engine is imported straight from $VERIF_REPO/sandbox/grist (default
/repo), so every run sees the current working tree.
"""
import os
import sys
import json
import math
import marshal
import logging
import hashlib

VERIF = os.path.dirname(os.path.dirname(os.path.abspath(__file__)))
REPO = os.environ.get('VERIF_REPO', '/repo')
GRIST = os.path.join(REPO, 'sandbox', 'grist')

sys.dont_write_bytecode = True
for p in (GRIST, os.path.join(VERIF, 'shim')):
  if p not in sys.path:
    sys.path.insert(0, p)

os.environ.setdefault('GRIST_CORE_VERIF', '1')
logging.disable(logging.CRITICAL)

# pylint: disable=wrong-import-position
import sandbox as _sandbox_mod          # noqa: E402
import actions                          # noqa: E402
import engine as engine_mod             # noqa: E402
import docmodel as docmodel_mod         # noqa: E402
import useractions                      # noqa: E402
import objtypes                         # noqa: E402
import main as main_mod                 # noqa: E402  (table_data_from_db)
logging.disable(logging.CRITICAL)       # main.py calls basicConfig(INFO)


class NoNodeError(Exception):
  """Raised instead of talking to Node (there is no Node in the harness)."""


def _no_sandbox(*_a, **_k):
  raise NoNodeError("code path needs the Node side (call_external)")


_sandbox_mod.get_default_sandbox = _no_sandbox
_sandbox_mod.call_external = _no_sandbox
_sandbox_mod.default_sandbox = None


def check_hashseed():
  if os.environ.get('PYTHONHASHSEED') is None:
    raise RuntimeError("PYTHONHASHSEED must be pinned (use ./check, which re-execs)")


# ----------------------------------------------------------------------------------------------
# Value canonicalisation
# ----------------------------------------------------------------------------------------------

def norm(v):
  """
  Canonical, JSON-able form of an *encoded* cell value.  ints and floats of equal value are
  identified (Node/JSON cannot tell them apart), bools stay distinct, NaN/inf are spelled out.
  """
  if v is None or isinstance(v, str):
    return v
  if isinstance(v, bool):
    return {'b': v}
  if isinstance(v, int):
    return v
  if isinstance(v, float):
    if math.isnan(v):
      return {'f': 'nan'}
    if math.isinf(v):
      return {'f': 'inf' if v > 0 else '-inf'}
    if v == int(v) and abs(v) < 2 ** 53:
      return int(v)
    return {'f': repr(v)}
  if isinstance(v, (list, tuple)):
    return [norm(x) for x in v]
  if isinstance(v, dict):
    return {'d': sorted((str(k), norm(x)) for k, x in v.items())}
  if isinstance(v, bytes):
    return {'y': v.hex()}
  return {'?': repr(v)}


def enc(value):
  return objtypes.encode_object(value)


# ----------------------------------------------------------------------------------------------
# Doc: one live engine
# ----------------------------------------------------------------------------------------------

class Doc(object):
  """A live engine plus the bookkeeping the harness needs."""

  def __init__(self, eng):
    self.eng = eng

  # -- construction ---------------------------------------------------------------------------
  @classmethod
  def new(cls):
    eng = engine_mod.Engine()
    eng.load_empty()
    d = cls(eng)
    d.init_group = d.apply([["InitNewDoc"]])
    return d

  @classmethod
  def load(cls, snap, calculate=True):
    """
    Load from a snapshot (dict table_id -> encoded TableData repr) through the public
    load_meta_tables / load_table path followed by the Calculate user action.
    """
    eng = engine_mod.Engine()
    d = cls(eng)

    def td(tid):
      rep = json.loads(snap[tid]) if isinstance(snap[tid], str) else snap[tid]
      return actions.TableData(tid, list(rep[2]), actions.decode_bulk_values(rep[3]))
    eng.load_meta_tables(td('_grist_Tables'), td('_grist_Tables_column'))
    for tid in sorted(snap):
      if tid in ('_grist_Tables', '_grist_Tables_column'):
        continue
      if tid in eng.tables:
        eng.load_table(td(tid))
    if calculate:
      d.load_group = d.apply([["Calculate"]])
    return d

  # -- actions --------------------------------------------------------------------------------
  def apply(self, bundle, user=None):
    """
    Apply a bundle given as JSON text or as a JSON-able list.  The bundle is always re-parsed from
    text, because user actions mutate their arguments.
    """
    text = bundle if isinstance(bundle, str) else json.dumps(bundle)
    uas = [useractions.from_repr(u) for u in json.loads(text)]
    return self.eng.apply_user_actions(uas, user)

  def try_apply(self, bundle, user=None):
    """Returns (group, None) or (None, exception)."""
    try:
      return self.apply(bundle, user), None
    except Exception as e:     # pylint: disable=broad-except
      return None, e

  # -- observation ----------------------------------------------------------------------------
  def table_ids(self):
    return sorted(self.eng.tables)

  def fetch(self, table_id, formulas=True):
    """Encoded TableData repr: ['TableData', table_id, row_ids, {col: [encoded values]}]"""
    return actions.get_action_repr(self.eng.fetch_table(table_id, formulas=formulas))

  def dump(self, formulas=True):
    """{table_id: {row_id: {col_id: normalised encoded value}}} for every table."""
    out = {}
    for tid in self.table_ids():
      rep = self.fetch(tid, formulas)
      rows = {}
      for i, r in enumerate(rep[2]):
        rows[r] = {c: norm(vals[i]) for c, vals in rep[3].items()}
      out[tid] = {'cols': sorted(rep[3]), 'rows': rows}
    return out

  def canon(self, formulas=True):
    return canon_of_dump(self.dump(formulas))

  def snapshot(self, formulas=True):
    """Raw encoded reprs (JSON text per table) good for Doc.load."""
    return {tid: json.dumps(self.fetch(tid, formulas)) for tid in self.table_ids()}

  def user_tables(self):
    return [t for t in self.table_ids() if not t.startswith('_grist_')]

  # -- derived engines ------------------------------------------------------------------------
  def fresh_recompute(self):
    """New engine from metadata + data columns only (no stored formula results), Calculate."""
    saved = docmodel_mod.global_docmodel
    try:
      snap = {tid: self.fetch(tid, formulas=(tid.startswith('_grist_')))
              for tid in self.table_ids()}
      # Metadata tables have private formula columns only (not fetched); their visible columns
      # are data.  User tables: data columns only.
      return Doc.load(snap)
    finally:
      docmodel_mod.global_docmodel = saved

  def reopen(self):
    """
    Emulates Node's storage round trip: fetch_table replies -> non-primitive values marshalled to
    bytes as DocStorage does -> one marshalled dict per table -> main.table_data_from_db ->
    load_meta_tables / load_table -> Calculate.  Returns (doc, calculate_group).
    """
    saved = docmodel_mod.global_docmodel
    try:
      blobs = {}
      for tid in self.table_ids():
        rep = self.fetch(tid, formulas=True)
        cols = {b'id': list(rep[2])}
        for c, vals in rep[3].items():
          cols[c.encode('utf8')] = [_to_db_value(v) for v in vals]
        blobs[tid] = marshal.dumps(cols)
      eng = engine_mod.Engine()
      d = Doc(eng)
      eng.load_meta_tables(
          main_mod.table_data_from_db('_grist_Tables', blobs['_grist_Tables']),
          main_mod.table_data_from_db('_grist_Tables_column', blobs['_grist_Tables_column']))
      for tid in sorted(blobs):
        if tid in ('_grist_Tables', '_grist_Tables_column') or tid not in eng.tables:
          continue
        eng.load_table(main_mod.table_data_from_db(tid, blobs[tid]))
      g = d.apply([["Calculate"]])
      return d, g
    finally:
      docmodel_mod.global_docmodel = saved


def _to_db_value(v):
  """DocStorage stores non-primitive encoded values as marshalled blobs; bools as 0/1 ints are a
  Node-side typing matter that the property excludes, so bools are kept."""
  if isinstance(v, (list, tuple, dict)):
    return marshal.dumps(v)
  return v


def canon_of_dump(dump):
  text = json.dumps(dump, sort_keys=True, separators=(',', ':'))
  return hashlib.sha256(text.encode('utf8')).hexdigest()[:20]


def diff_dumps(a, b, limit=8):
  """Human-readable list of differences between two dumps."""
  out = []
  for tid in sorted(set(a) | set(b)):
    if tid not in a:
      out.append("table %s only in second" % tid)
      continue
    if tid not in b:
      out.append("table %s only in first" % tid)
      continue
    ta, tb = a[tid], b[tid]
    if ta['cols'] != tb['cols']:
      out.append("%s: columns %s vs %s" % (
          tid, sorted(set(ta['cols']) - set(tb['cols'])), sorted(set(tb['cols']) - set(ta['cols']))))
    ra, rb = ta['rows'], tb['rows']
    if set(ra) != set(rb):
      out.append("%s: row ids %s vs %s" % (tid, sorted(set(ra) - set(rb)), sorted(set(rb) - set(ra))))
    for r in sorted(set(ra) & set(rb)):
      for c in sorted(set(ra[r]) & set(rb[r])):
        if ra[r][c] != rb[r][c]:
          out.append("%s[%s].%s: %s vs %s" % (tid, r, c, json.dumps(ra[r][c])[:120],
                                              json.dumps(rb[r][c])[:120]))
          if len(out) >= limit:
            return out
    if len(out) >= limit:
      return out
  return out


def group_repr(g):
  """JSON-able repr of an ActionGroup with normalised values."""
  r = g.get_repr()
  return {
      'stored': norm(r['stored']), 'undo': norm(r['undo']), 'direct': list(r['direct']),
      'retValues': norm(actions.encode_objects(r['retValues'])), 'calc': norm(r['calc']),
  }


def stored_reprs(g):
  return [actions.get_action_repr(a) for a in g.stored]


def undo_reprs(g):
  return [actions.get_action_repr(a) for a in g.undo]


def exc_text(e):
  return "%s: %s" % (type(e).__name__, str(e)[:300])
