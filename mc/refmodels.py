"""
Boring reference models, independent of the repo's own helper code (table_data_set.py,
schema.build_schema are NOT used: a change that breaks them must not make these oracles wrong).
"""
import re
from mc.harness import norm

INF = {'f': 'inf'}

# Static copy of usertypes._type_defaults (normalised form).  C38 separately checks that the
# Python table agrees with Node's; this copy is what Node would fill in for omitted cells.
TYPE_DEFAULTS = {
    'Any': None, 'Attachments': None, 'Blob': None, 'Bool': {'b': False}, 'Choice': '',
    'ChoiceList': None, 'Date': None, 'DateTime': None, 'Id': 0, 'Int': 0,
    'ManualSortPos': INF, 'Numeric': 0, 'PositionNumber': INF, 'Ref': 0, 'RefList': None,
    'Text': '',
}


def pure_type(t):
  return (t or 'Any').split(':')[0]


def type_default(t):
  return TYPE_DEFAULTS.get(pure_type(t))


class InterpError(Exception):
  pass


class RefInterp(object):
  """
  Independent doc-action interpreter: the way Node applies stored actions to SQLite/clients.
  State: tables[table_id] = {'cols': {col_id: type}, 'rows': {row_id: {col_id: value}}}
  Values are kept in harness-normalised encoded form.
  """

  def __init__(self):
    self.tables = {}

  @classmethod
  def from_dump(cls, dump, col_types):
    """dump: harness dump; col_types: {table_id: {col_id: type}} (from metadata/schema)."""
    it = cls()
    for tid, t in dump.items():
      cols = {c: col_types.get(tid, {}).get(c, 'Any') for c in t['cols']}
      it.tables[tid] = {'cols': cols, 'rows': {r: dict(v) for r, v in t['rows'].items()}}
    return it

  def apply_all(self, action_reprs):
    for a in action_reprs:
      self.apply(a)

  def apply(self, a):
    name = a[0]
    fn = getattr(self, '_' + name, None)
    if fn is None:
      raise InterpError("unknown doc action %s" % name)
    fn(*a[1:])

  def _t(self, tid):
    if tid not in self.tables:
      raise InterpError("no table %s" % tid)
    return self.tables[tid]

  # records
  def _AddRecord(self, tid, rid, cols):
    self._BulkAddRecord(tid, [rid], {k: [v] for k, v in cols.items()})

  def _BulkAddRecord(self, tid, rids, cols):
    t = self._t(tid)
    for c in cols:
      if c not in t['cols']:
        raise InterpError("BulkAddRecord %s: unknown column %s" % (tid, c))
    for i, r in enumerate(rids):
      if not isinstance(r, int) or isinstance(r, bool) or r <= 0:
        raise InterpError("BulkAddRecord %s: bad row id %r" % (tid, r))
      if r in t['rows']:
        raise InterpError("BulkAddRecord %s: row %s exists" % (tid, r))
      row = {c: type_default(ty) for c, ty in t['cols'].items()}
      for c, vals in cols.items():
        row[c] = norm(vals[i])
      t['rows'][r] = row

  def _RemoveRecord(self, tid, rid):
    self._BulkRemoveRecord(tid, [rid])

  def _BulkRemoveRecord(self, tid, rids):
    t = self._t(tid)
    for r in rids:
      t['rows'].pop(r, None)

  def _UpdateRecord(self, tid, rid, cols):
    self._BulkUpdateRecord(tid, [rid], {k: [v] for k, v in cols.items()})

  def _BulkUpdateRecord(self, tid, rids, cols):
    t = self._t(tid)
    for c in cols:
      if c not in t['cols']:
        raise InterpError("BulkUpdateRecord %s: unknown column %s" % (tid, c))
    for i, r in enumerate(rids):
      if r not in t['rows']:
        raise InterpError("BulkUpdateRecord %s: no row %s" % (tid, r))
      for c, vals in cols.items():
        t['rows'][r][c] = norm(vals[i])

  def _ReplaceTableData(self, tid, rids, cols):
    t = self._t(tid)
    t['rows'] = {}
    self._BulkAddRecord(tid, rids, cols)

  # columns
  def _AddColumn(self, tid, cid, info):
    t = self._t(tid)
    if cid in t['cols']:
      raise InterpError("AddColumn %s.%s exists" % (tid, cid))
    ty = info.get('type', 'Any')
    t['cols'][cid] = ty
    d = type_default(ty)
    for row in t['rows'].values():
      row[cid] = d

  def _RemoveColumn(self, tid, cid):
    t = self._t(tid)
    if cid not in t['cols']:
      raise InterpError("RemoveColumn %s.%s missing" % (tid, cid))
    del t['cols'][cid]
    for row in t['rows'].values():
      row.pop(cid, None)

  def _RenameColumn(self, tid, old, new):
    t = self._t(tid)
    if old not in t['cols'] or new in t['cols']:
      raise InterpError("RenameColumn %s.%s->%s invalid" % (tid, old, new))
    t['cols'] = {(new if c == old else c): ty for c, ty in t['cols'].items()}
    for row in t['rows'].values():
      row[new] = row.pop(old)

  def _ModifyColumn(self, tid, cid, info):
    t = self._t(tid)
    if cid not in t['cols']:
      raise InterpError("ModifyColumn %s.%s missing" % (tid, cid))
    if 'type' in info:
      t['cols'][cid] = info['type']

  # tables
  def _AddTable(self, tid, columns):
    if tid in self.tables:
      raise InterpError("AddTable %s exists" % tid)
    self.tables[tid] = {'cols': {c['id']: c.get('type', 'Any') for c in columns}, 'rows': {}}

  def _RemoveTable(self, tid):
    self._t(tid)
    del self.tables[tid]

  def _RenameTable(self, old, new):
    if old not in self.tables or new in self.tables:
      raise InterpError("RenameTable %s->%s invalid" % (old, new))
    self.tables[new] = self.tables.pop(old)

  def compare_with_dump(self, dump, limit=6):
    """Compare with an engine dump on every column the engine reports. Returns list of diffs."""
    out = []
    et, it = set(dump), set(self.tables)
    if et != it:
      out.append("table sets differ: engine-only %s, interp-only %s" % (sorted(et - it), sorted(it - et)))
    for tid in sorted(et & it):
      e, t = dump[tid], self.tables[tid]
      ecols = set(e['cols'])
      icols = set(c for c in t['cols'] if not c.startswith('#'))
      if ecols != icols:
        out.append("%s: columns engine-only %s, interp-only %s" % (
            tid, sorted(ecols - icols), sorted(icols - ecols)))
      if set(e['rows']) != set(t['rows']):
        out.append("%s: rows engine-only %s, interp-only %s" % (
            tid, sorted(set(e['rows']) - set(t['rows'])), sorted(set(t['rows']) - set(e['rows']))))
      for r in sorted(set(e['rows']) & set(t['rows'])):
        for c in sorted(ecols & icols):
          ev, iv = e['rows'][r].get(c), t['rows'][r].get(c)
          if ev != iv:
            out.append("%s[%s].%s: engine %r, interp %r" % (tid, r, c, ev, iv))
            if len(out) >= limit:
              return out
    return out


def col_types_from_dump(dump):
  """{table_id: {col_id: type}} from the _grist_Tables/_grist_Tables_column rows of a dump."""
  tables = {r: row['tableId'] for r, row in dump['_grist_Tables']['rows'].items()}
  out = {}
  for row in dump['_grist_Tables_column']['rows'].values():
    tid = tables.get(row['parentId'])
    if tid is not None:
      out.setdefault(tid, {})[row['colId']] = row['type']
  return out


def ref_schema(dump):
  """
  Independent builder of {tableId: {colId: (type, isFormula, formula, reverseColId)}} from the
  metadata rows of a dump (user tables only).
  """
  tables = {r: row['tableId'] for r, row in dump['_grist_Tables']['rows'].items()}
  cols = dump['_grist_Tables_column']['rows']
  colid = {r: row['colId'] for r, row in cols.items()}
  out = {tid: {} for tid in tables.values()}
  orphan = []
  for r, row in cols.items():
    tid = tables.get(row['parentId'])
    if tid is None:
      orphan.append(r)
      continue
    rev = row.get('reverseCol') or 0
    out[tid][row['colId']] = (row['type'], bool(_unb(row['isFormula'])), row['formula'],
                              colid.get(rev) if rev else None)
  return out, orphan


def _unb(v):
  return v['b'] if isinstance(v, dict) and 'b' in v else v


def engine_schema(eng):
  out = {}
  for tid, t in eng.schema.items():
    if tid.startswith('_grist_'):
      continue
    out[tid] = {cid: (c.type, bool(c.isFormula), c.formula, c.reverseColId or None)
                for cid, c in t.columns.items()}
  return out


_NUM = re.compile(r'\d+')


def strip_numbers(label):
  return _NUM.sub('#', label)
