"""Shared oracles used as monitors by several properties."""
import json

from mc import harness as H
from mc.explore import Monitor
from mc import refmodels as R


def first_diff_loc(diffs):
  """Stable location token from the first diff line ('Table[3].col: ...' -> 'Table.col')."""
  if not diffs:
    return '?'
  d = diffs[0]
  head = d.split(':', 1)[0]
  head = R.strip_numbers(head.replace('[', '<').replace(']', '>'))
  return head.replace('<#>', '')


def vkey(prop, kind, ctx, diffs=None, extra=None):
  parts = [prop, kind, ctx.world.name, R.strip_numbers(ctx.label)]
  if diffs is not None:
    parts.append(first_diff_loc(diffs))
  if extra:
    parts.append(extra)
  return '/'.join(parts)


class UndoRedo(Monitor):
  """
  C01: undo of the last bundle restores the pre-state; at maximal depth the whole history is
  undone bundle by bundle back to the base.  C03: redo (ApplyDocActions of stored) after the
  undo reproduces the post-state.  `report` selects which of the two raises violations.
  """
  destructive = True

  def __init__(self, report=('C01', 'C03'), whole_history_depth=None):
    self.report = report
    self.name = 'undo-redo'
    self.whole_history_depth = whole_history_depth

  def pre(self, ctx):
    pass

  def check(self, ctx):
    if ctx.exc is not None:
      return
    doc = ctx.doc
    post = ctx.post_dump
    stored = H.stored_reprs(ctx.group)
    undo = H.undo_reprs(ctx.group)
    g, e = doc.try_apply([["ApplyUndoActions", undo]])
    if e is not None:
      if 'C01' in self.report:
        yield (vkey('C01', 'undo-raised', ctx, extra=type(e).__name__),
               "ApplyUndoActions raised %s after bundle %s" % (H.exc_text(e), ctx.label))
      return
    after_undo = doc.dump()
    if after_undo != ctx.pre_dump:
      if 'C01' in self.report:
        diffs = H.diff_dumps(ctx.pre_dump, after_undo)
        yield (vkey('C01', 'undo-mismatch', ctx, diffs),
               "undo of %r did not restore the prior document (expected vs after undo): %s" % (
                   ctx.label, '; '.join(diffs)), {'diffs': diffs})
      return
    g2, e2 = doc.try_apply([["ApplyDocActions", stored]])
    if e2 is not None:
      if 'C03' in self.report:
        yield (vkey('C03', 'redo-raised', ctx, extra=type(e2).__name__),
               "ApplyDocActions(stored) raised %s after undo of %s" % (H.exc_text(e2), ctx.label))
      return
    after_redo = doc.dump()
    if after_redo != post:
      if 'C03' in self.report:
        diffs = H.diff_dumps(post, after_redo)
        yield (vkey('C03', 'redo-mismatch', ctx, diffs),
               "redo of %r after undo differs from the post-bundle state (expected vs redo): %s" % (
                   ctx.label, '; '.join(diffs)), {'diffs': diffs})
      return
    # Whole-history undo (C01 second sentence): only at maximal depth leaves.
    if ('C01' in self.report and self.whole_history_depth
        and len(ctx.hist) + 1 >= self.whole_history_depth and ctx.hist):
      d2, log2 = build_with_undo(ctx)
      ok = True
      for (label, undo_reprs) in reversed(log2):
        g3, e3 = d2.try_apply([["ApplyUndoActions", undo_reprs]])
        if e3 is not None:
          yield (vkey('C01', 'history-undo-raised', ctx, extra=type(e3).__name__),
                 "undoing the history in reverse raised %s at bundle %r" % (H.exc_text(e3), label))
          ok = False
          break
      if ok:
        final = d2.dump()
        base = ctx.base['dump_L'] if ctx.origin == 'L' else ctx.base['dump']
        if final != base:
          diffs = H.diff_dumps(base, final)
          yield (vkey('C01', 'history-undo-mismatch', ctx, diffs),
                 "undoing the whole history in reverse did not return to the start: %s" % (
                     '; '.join(diffs)), {'diffs': diffs})


def build_with_undo(ctx):
  """Rebuilds the history on a fresh doc collecting undo lists: returns (doc, [(label, undo)])."""
  from mc.explore import build
  doc, _log = build(ctx.world, ctx.origin, [])
  out = []
  for (label, b) in list(ctx.hist) + [(ctx.label, ctx.bundle)]:
    g, e = doc.try_apply(b)
    if g is not None:
      out.append((label, H.undo_reprs(g)))
  return doc, out


class Interp(Monitor):
  """C02: stored actions replayed into the independent interpreter reproduce the engine state."""
  name = 'ref-interp'

  def check(self, ctx):
    if ctx.origin == 'I':
      it = R.RefInterp()
      # load_empty() pre-creates the metadata tables that InitNewDoc's stored AddTable actions
      # describe, so the interpreter starts empty and InitNewDoc builds everything.
    else:
      base = ctx.base['dump_L']
      it = R.RefInterp.from_dump(base, _types_for(base))
    try:
      for stored in ctx.log:
        it.apply_all(stored)
    except R.InterpError as e:
      yield (vkey('C02', 'interp-rejects', ctx, extra=str(e).split(':')[0][:60]),
             "independent interpreter cannot apply the stored actions of history ending in %r: %s"
             % (ctx.label, e))
      return
    diffs = it.compare_with_dump(ctx.post_dump)
    if diffs:
      yield (vkey('C02', 'delta-mismatch', ctx, diffs),
             "engine state differs from replay of stored actions after %r: %s" % (
                 ctx.label, '; '.join(diffs)), {'diffs': diffs})
    if ctx.group is not None and len(ctx.group.stored) != len(ctx.group.direct):
      yield (vkey('C02', 'direct-length', ctx), "len(stored) != len(direct)")


def _types_for(dump):
  types = R.col_types_from_dump(dump)
  # metadata tables: types are irrelevant unless rows get added with omitted cells; take them from
  # the engine's own schema module lazily.
  import schema as schema_mod
  for a in schema_mod.schema_create_actions():
    types[a.table_id] = {c['id']: c['type'] for c in a.columns}
  return types


class FreshRecompute(Monitor):
  """C05: every formula column equals what a fresh engine computes from metadata + data."""
  name = 'fresh-recompute'

  def __init__(self, prop='C05'):
    self.prop = prop

  def check(self, ctx):
    if ctx.exc is not None:
      return
    try:
      fresh = ctx.doc.fresh_recompute()
    except Exception as e:    # pylint: disable=broad-except
      yield (vkey(self.prop, 'fresh-load-raised', ctx, extra=type(e).__name__),
             "fresh engine failed to load the document after %r: %s" % (ctx.label, H.exc_text(e)))
      return
    fd = fresh.dump()
    if fd != ctx.post_dump:
      diffs = H.diff_dumps(ctx.post_dump, fd)
      yield (vkey(self.prop, 'stale-formula', ctx, diffs),
             "incremental state differs from from-scratch recomputation after %r (live vs fresh): %s"
             % (ctx.label, '; '.join(diffs)), {'diffs': diffs})


class Reopen(Monitor):
  """C07: storage round trip + Calculate emits nothing and reports the same data."""
  name = 'reopen'

  def check(self, ctx):
    if ctx.exc is not None:
      return
    try:
      d2, g = ctx.doc.reopen()
    except Exception as e:    # pylint: disable=broad-except
      yield (vkey('C07', 'reopen-raised', ctx, extra=type(e).__name__),
             "reopening the saved document failed after %r: %s" % (ctx.label, H.exc_text(e)))
      return
    stored = H.stored_reprs(g)
    if stored:
      loc = '%s.%s' % (stored[0][1], ','.join(sorted(stored[0][3])) if len(stored[0]) > 3
                       and isinstance(stored[0][3], dict) else '')
      yield (vkey('C07', 'calculate-emits', ctx, extra=R.strip_numbers(loc)),
             "Calculate after reopening emitted stored actions after %r: %s" % (
                 ctx.label, json.dumps(H.norm(stored))[:400]))
      return
    dd = d2.dump()
    if dd != ctx.post_dump:
      diffs = H.diff_dumps(ctx.post_dump, dd)
      yield (vkey('C07', 'reopen-differs', ctx, diffs),
             "reopened document reports different data after %r: %s" % (ctx.label, '; '.join(diffs)),
             {'diffs': diffs})


class SchemaMatch(Monitor):
  """C08: engine.schema == schema described by the metadata, after success and after rollback."""
  name = 'schema-match'

  def check(self, ctx):
    dump = ctx.post_dump
    ref, orphan = R.ref_schema(dump)
    eng = R.engine_schema(ctx.doc.eng)
    kind = 'after-rollback' if ctx.exc is not None else 'after-success'
    if orphan:
      yield (vkey('C08', 'orphan-column/' + kind, ctx),
             "column records %s belong to no table record after %r" % (orphan, ctx.label))
    if ref != eng:
      diffs = []
      for t in sorted(set(ref) | set(eng)):
        if t not in ref or t not in eng:
          diffs.append("table %s: %s" % (t, 'engine-only' if t not in ref else 'metadata-only'))
          continue
        for c in sorted(set(ref[t]) | set(eng[t])):
          if ref[t].get(c) != eng[t].get(c):
            diffs.append("%s.%s: metadata %r engine %r" % (t, c, ref[t].get(c), eng[t].get(c)))
      yield (vkey('C08', 'schema-mismatch/' + kind, ctx, extra=R.strip_numbers(diffs[0].split(':')[0])),
             "engine schema differs from metadata after %r (%s): %s" % (
                 ctx.label, kind, '; '.join(diffs[:5])))
