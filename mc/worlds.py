"""
Drivers: tiny base documents built so that things collide, plus state-dependent action alphabets.
Alphabets are data (ordered simplest first); value domains are deliberately small.
"""
from mc.explore import World


def rows(doc, table_id, limit=None):
  t = doc.eng.tables.get(table_id)
  if t is None:
    return []
  r = sorted(t.row_ids)
  return r[:limit] if limit else r


def has_col(doc, table_id, col_id):
  t = doc.eng.tables.get(table_id)
  return t is not None and t.has_column(col_id)


def col_ref(doc, table_id, col_id):
  rec = doc.eng.docmodel.columns.lookupOne(tableId=table_id, colId=col_id)
  return rec.id if rec else 0


def table_ref(doc, table_id):
  rec = doc.eng.docmodel.tables.lookupOne(tableId=table_id)
  return rec.id if rec else 0


# --------------------------------------------------------------------------------------------
# W_rec: record edits on People/Teams with refs, reflists, lookups, PREVIOUS
# --------------------------------------------------------------------------------------------

REC_SETUP = [
    [["AddTable", "Teams", [{"id": "title", "type": "Text"}]]],
    [["AddTable", "People", [
        {"id": "name", "type": "Text"},
        {"id": "age", "type": "Int"},
        {"id": "boss", "type": "Ref:People"},
        {"id": "tags", "type": "ChoiceList"},
        {"id": "team", "type": "Ref:Teams"},
        {"id": "f_age2", "type": "Any", "isFormula": True, "formula": "$age * 2"},
        {"id": "f_boss", "type": "Any", "isFormula": True, "formula": "$boss.name"},
        {"id": "f_cnt", "type": "Any", "isFormula": True,
         "formula": "len(People.lookupRecords(team=$team))"},
        {"id": "f_prev", "type": "Any", "isFormula": True,
         "formula": "PREVIOUS(rec, group_by=\"team\", order_by=\"age\").name"},
    ]]],
    [["AddColumn", "Teams", "members", {"type": "RefList:People", "isFormula": False}],
     ["AddColumn", "Teams", "f_n", {"type": "Any", "isFormula": True, "formula": "len($members)"}],
     ["AddColumn", "Teams", "f_names", {"type": "Any", "isFormula": True,
                                       "formula": "sorted($members.name)"}],
     ["AddColumn", "Teams", "f_look", {"type": "Any", "isFormula": True,
                                      "formula": "People.lookupRecords(team=$id, order_by=\"-age\").name"}]],
    [["BulkAddRecord", "Teams", [None, None], {"title": ["red", "blue"]}],
     ["BulkAddRecord", "People", [None, None, None], {
         "name": ["ann", "bob", "cy"], "age": [30, 20, 20], "boss": [0, 1, 1],
         "tags": [["L", "a"], None, ["L", "a", "b"]], "team": [1, 1, 2]}],
     ["BulkUpdateRecord", "Teams", [1, 2], {"members": [["L", 1, 2], ["L", 3]]}]],
]


class WRec(World):
  name = 'W_rec'
  setup = REC_SETUP

  def __init__(self, reduced=False):
    self.reduced = reduced

  def alphabet(self, doc):
    P = rows(doc, 'People')
    T = rows(doc, 'Teams')
    out = []
    A = out.append
    A(("add P full", [["AddRecord", "People", None, {"name": "dee", "age": 25, "team": 1, "boss": 1}]]))
    A(("add P empty", [["AddRecord", "People", None, {}]]))
    if not self.reduced:
      A(("add P id9", [["AddRecord", "People", 9, {"name": "nine", "age": 20, "team": 2}]]))
    for r in P[:3]:
      A(("upd P%d age=7" % r, [["UpdateRecord", "People", r, {"age": 7}]]))
    for r in P[:2]:
      A(("upd P%d age=alt" % r, [["UpdateRecord", "People", r, {"age": "old"}]]))
      A(("upd P%d team=2" % r, [["UpdateRecord", "People", r, {"team": 2}]]))
    for r in P[1:3]:
      A(("upd P%d team=0" % r, [["UpdateRecord", "People", r, {"team": 0}]]))
      A(("upd P%d boss=%d" % (r, r), [["UpdateRecord", "People", r, {"boss": r}]]))
    for r in P[:1]:
      A(("upd P%d name" % r, [["UpdateRecord", "People", r, {"name": "zed"}]]))
      if not self.reduced:
        A(("upd P%d tags dup" % r, [["UpdateRecord", "People", r, {"tags": ["L", "b", "b"]}]]))
        A(("upd P%d age=None" % r, [["UpdateRecord", "People", r, {"age": None}]]))
    for r in P[:3]:
      A(("rem P%d" % r, [["RemoveRecord", "People", r]]))
    if len(P) >= 2:
      A(("bulkupd P ages", [["BulkUpdateRecord", "People", P[:2], {"age": [20, 20]}]]))
      if not self.reduced:
        A(("bulkrem P", [["BulkRemoveRecord", "People", P[:2]]]))
    for t in T[:2]:
      A(("upd T%d members" % t, [["UpdateRecord", "Teams", t, {"members": ["L"] + P[-2:]}]]))
      A(("rem T%d" % t, [["RemoveRecord", "Teams", t]]))
    for t in T[:1]:
      A(("upd T%d members None" % t, [["UpdateRecord", "Teams", t, {"members": None}]]))
      if not self.reduced:
        A(("upd T%d title" % t, [["UpdateRecord", "Teams", t, {"title": "green"}]]))
        A(("upd T%d members dup" % t, [["UpdateRecord", "Teams", t, {"members": ["L"] + P[:1] + P[:1]}]]))
    A(("add T", [["AddRecord", "Teams", None, {"title": "new", "members": ["L"] + P[:1]}]]))
    if not self.reduced:
      A(("bulkadd P2", [["BulkAddRecord", "People", [None, None],
                         {"name": ["e1", "e2"], "age": [20, 40], "team": [1, 1]}]]))
      A(("replace P", [["ReplaceTableData", "People", [1, 4],
                        {"name": ["r1", "r4"], "age": [1, 4], "team": [2, 2], "boss": [4, 0]}]]))
      A(("tmpid add+ref", [["AddRecord", "People", -1, {"name": "tmp", "age": 20, "team": 1}],
                           ["UpdateRecord", "Teams", T[0] if T else 1, {"members": ["L", -1]}]]))
      A(("add+rem same", [["AddRecord", "People", -1, {"name": "gone", "team": 1}],
                          ["RemoveRecord", "People", -1]]))
      # natural failures
      A(("FAIL upd formula col", [["UpdateRecord", "People", P[0] if P else 1, {"f_age2": 5}]]))
      A(("FAIL second action", [["UpdateRecord", "People", P[0] if P else 1, {"age": 99}],
                                ["UpdateRecord", "People", 77, {"age": 1}]]))
      A(("FAIL unknown col", [["AddRecord", "People", None, {"nope": 1}]]))
    return out


# --------------------------------------------------------------------------------------------
# W_schema: W_rec + schema edits
# --------------------------------------------------------------------------------------------

class WSchema(World):
  name = 'W_schema'
  setup = REC_SETUP

  def __init__(self, reduced=False, renames=True):
    self.reduced = reduced
    self.renames = renames

  def alphabet(self, doc):
    out = []
    A = out.append
    hp = lambda c: has_col(doc, 'People', c)
    ht = lambda c: has_col(doc, 'Teams', c)
    people = 'People' in doc.eng.tables
    teams = 'Teams' in doc.eng.tables
    P = rows(doc, 'People')
    if people:
      A(("addcol P data", [["AddColumn", "People", "extra", {"type": "Int", "isFormula": False}]]))
      A(("addcol P formula", [["AddColumn", "People", "f_new", {
          "type": "Any", "isFormula": True, "formula": "$name.upper() if $name else $id"}]]))
      A(("addcol P empty", [["AddColumn", "People", None, {}]]))
      if hp('age'):
        A(("modcol P.age Text", [["ModifyColumn", "People", "age", {"type": "Text"}]]))
        A(("modcol P.age Numeric", [["ModifyColumn", "People", "age", {"type": "Numeric"}]]))
        A(("modcol P.age formula", [["ModifyColumn", "People", "age", {
            "isFormula": True, "formula": "len($name)"}]]))
        A(("remcol P.age", [["RemoveColumn", "People", "age"]]))
        if self.renames:
          A(("rencol P.age->years", [["RenameColumn", "People", "age", "years"]]))
      if hp('f_age2'):
        A(("modcol P.f_age2 formula", [["ModifyColumn", "People", "f_age2", {"formula": "$age + 1"}]]))
        A(("modcol P.f_age2 todata", [["ModifyColumn", "People", "f_age2", {"isFormula": False}]]))
        A(("remcol P.f_age2", [["RemoveColumn", "People", "f_age2"]]))
      if hp('team'):
        A(("remcol P.team", [["RemoveColumn", "People", "team"]]))
        A(("modcol P.team Int", [["ModifyColumn", "People", "team", {"type": "Int"}]]))
        if self.renames:
          A(("rencol P.team->grp", [["RenameColumn", "People", "team", "grp"]]))
      if hp('boss'):
        A(("modcol P.boss RefList", [["ModifyColumn", "People", "boss", {"type": "RefList:People"}]]))
        A(("remcol P.boss", [["RemoveColumn", "People", "boss"]]))
      if hp('name'):
        if self.renames:
          A(("rencol P.name sanitize", [["RenameColumn", "People", "name", "full name!"]]))
          A(("rencol P.name collide", [["RenameColumn", "People", "name", "AGE"]]))
        A(("remcol P.name", [["RemoveColumn", "People", "name"]]))
        cr = col_ref(doc, 'People', 'name')
        A(("meta label P.name", [["UpdateRecord", "_grist_Tables_column", cr, {"label": "Nom"}]]))
        if hp('boss'):
          A(("setdisplay P.boss", [["SetDisplayFormula", "People", None,
                                    col_ref(doc, 'People', 'boss'), "$boss.name"]]))
      if hp('tags'):
        A(("modcol P.tags Text", [["ModifyColumn", "People", "tags", {"type": "Text"}]]))
      A(("addrule P", [["AddEmptyRule", "People", 0, col_ref(doc, 'People', 'name') if hp('name') else 0]]))
      if self.renames:
        A(("rentable P->Folk", [["RenameTable", "People", "Folk"]]))
      A(("remtable P", [["RemoveTable", "People"]]))
      if not self.reduced:
        A(("duptable P", [["DuplicateTable", "People", "PeopleCopy", True]]))
    if teams:
      if ht('members'):
        A(("remcol T.members", [["RemoveColumn", "Teams", "members"]]))
        A(("modcol T.members Ref", [["ModifyColumn", "Teams", "members", {"type": "Ref:People"}]]))
      if ht('f_look'):
        A(("modcol T.f_look formula", [["ModifyColumn", "Teams", "f_look", {
            "formula": "People.lookupOne(team=$id).name"}]]))
      A(("remtable T", [["RemoveTable", "Teams"]]))
      if self.renames:
        A(("rentable T->Squads", [["RenameTable", "Teams", "Squads"]]))
    A(("addtable", [["AddTable", "Extra", [{"id": "a", "type": "Int"},
                                           {"id": "p", "type": "Ref:People" if people else "Int"}]]]))
    A(("addemptytable", [["AddEmptyTable", None]]))
    # metadata removals
    sec = rows(doc, '_grist_Views_section')
    views = rows(doc, '_grist_Views')
    pages = rows(doc, '_grist_Pages')
    fields = rows(doc, '_grist_Views_section_field')
    if views:
      A(("rem view %d" % views[0], [["RemoveRecord", "_grist_Views", views[0]]]))
    if pages:
      A(("rem page %d" % pages[-1], [["RemoveRecord", "_grist_Pages", pages[-1]]]))
    if not self.reduced:
      for s in sec[:1]:
        A(("rem section %d" % s, [["RemoveRecord", "_grist_Views_section", s]]))
      for f in fields[:1]:
        A(("rem field %d" % f, [["RemoveRecord", "_grist_Views_section_field", f]]))
    # a couple of record edits so that schema edits interleave with data edits
    if people and P and hp('age'):
      A(("upd P age", [["UpdateRecord", "People", P[0], {"age": 21}]]))
    if people and len(P) > 1:
      A(("rem P", [["RemoveRecord", "People", P[1]]]))
    # multi-action bundle: rename + removal + formula change
    if people and hp('age') and hp('name') and hp('f_age2') and self.renames and not self.reduced:
      A(("bundle ren+rem+mod", [["RenameColumn", "People", "age", "yrs"],
                                ["RemoveColumn", "People", "name"],
                                ["ModifyColumn", "People", "f_age2", {"formula": "$yrs * 3"}]]))
    # natural failures
    if people and not self.reduced:
      A(("FAIL remcol missing", [["RemoveColumn", "People", "nope"]]))
      A(("FAIL add then bad", [["AddColumn", "People", "tmpc", {"type": "Int", "isFormula": False}],
                               ["RemoveColumn", "People", "nope"]]))
    return out


# --------------------------------------------------------------------------------------------
# World sets per property family
# --------------------------------------------------------------------------------------------

def history_worlds(tier):
  """Worlds for the document-wide differential oracles (C01, C02, C03, C07)."""
  return [WRec(), WSchema()]


def formula_worlds(tier):
  return [WRec(), WSchema()]


def depths(tier):
  if tier == 'quick':
    return {'W_rec': 2, 'W_schema': 2}
  return {'W_rec': 3, 'W_schema': 3}
