"""
Drivers: tiny base documents built so that things collide, plus state-dependent action alphabets.
Alphabets are data (ordered simplest first); value domains are deliberately small.
"""
from mc.explore import World


def rows(doc, table_id, limit=None):
  t = doc.eng.tables.get(table_id)
  if t is None:
    return []
  r = sorted(t.row_ids)
  return r[:limit] if limit else r


def has_col(doc, table_id, col_id):
  t = doc.eng.tables.get(table_id)
  return t is not None and t.has_column(col_id)


def col_ref(doc, table_id, col_id):
  rec = doc.eng.docmodel.columns.lookupOne(tableId=table_id, colId=col_id)
  return rec.id if rec else 0


def _wire(v):
  """A stored Ref/RefList cell as an action value."""
  if isinstance(v, (list, tuple)):
    return ['L'] + list(v)
  return v


def table_ref(doc, table_id):
  rec = doc.eng.docmodel.tables.lookupOne(tableId=table_id)
  return rec.id if rec else 0


# --------------------------------------------------------------------------------------------
# W_rec: record edits on People/Teams with refs, reflists, lookups, PREVIOUS
# --------------------------------------------------------------------------------------------

REC_SETUP = [
    [["AddTable", "Teams", [{"id": "title", "type": "Text"}]]],
    [["AddTable", "People", [
        {"id": "name", "type": "Text"},
        {"id": "age", "type": "Int"},
        {"id": "boss", "type": "Ref:People"},
        {"id": "tags", "type": "ChoiceList"},
        {"id": "team", "type": "Ref:Teams"},
        {"id": "f_age2", "type": "Any", "isFormula": True, "formula": "$age * 2"},
        {"id": "f_boss", "type": "Any", "isFormula": True, "formula": "$boss.name"},
        {"id": "f_cnt", "type": "Any", "isFormula": True,
         "formula": "len(People.lookupRecords(team=$team))"},
        {"id": "f_prev", "type": "Any", "isFormula": True,
         "formula": "PREVIOUS(rec, group_by=\"team\", order_by=\"age\").name"},
        # reads a formula column that sorts AFTER it, and only in some rows (evaluation of f_aa is
        # suspended by an OrderError and resumed)
        {"id": "f_aa", "type": "Any", "isFormula": True,
         "formula": "$f_age2 if $age > 20 else $age"},
        # empty columns (isFormula with no formula): entering data converts them to data columns
        {"id": "e_text", "type": "Text", "isFormula": True, "formula": ""},
        {"id": "e_any", "type": "Any", "isFormula": True, "formula": ""},
    ]]],
    [["AddColumn", "Teams", "members", {"type": "RefList:People", "isFormula": False}],
     ["AddColumn", "Teams", "f_n", {"type": "Any", "isFormula": True, "formula": "len($members)"}],
     ["AddColumn", "Teams", "f_names", {"type": "Any", "isFormula": True,
                                       "formula": "sorted($members.name)"}],
     ["AddColumn", "Teams", "f_look", {"type": "Any", "isFormula": True,
                                      "formula": "People.lookupRecords(team=$id, order_by=\"-age\").name"}],
     # RecordSet -> RefList column -> field (composed relations across two hops)
     ["AddColumn", "People", "f_tm", {"type": "Any", "isFormula": True,
                                     "formula": "sorted(Teams.lookupRecords(title=$team.title).members.name)"}],
     # People sorts before Teams: f_tm2 is dirty for its own reason ($age) while the lookup it
     # reads through f_tm gets a new match in the same bundle (lookups must be brought up first)
     ["AddColumn", "People", "f_tm2", {"type": "Any", "isFormula": True,
                                      "formula": "len($f_tm) * 100 + ($age if isinstance($age, int) else 0)"}],
     # the whole ChoiceList cell used as a (hashable) lookup key
     ["AddColumn", "People", "f_tags", {"type": "Any", "isFormula": True,
                                       "formula": "len(People.lookupRecords(tags=$tags))"}]],
    [["BulkAddRecord", "Teams", [None, None], {"title": ["red", "blue"]}],
     ["BulkAddRecord", "People", [None, None, None], {
         "name": ["ann", "bob", "cy"], "age": [30, 20, 20], "boss": [0, 1, 1],
         "tags": [["L", "a"], None, ["L", "a", "b"]], "team": [1, 1, 2]}],
     ["BulkUpdateRecord", "Teams", [1, 2], {"members": [["L", 1, 2, 1], ["L", 3]]}]],
]


class WRec(World):
  name = 'W_rec'
  setup = REC_SETUP

  def __init__(self, reduced=False):
    self.reduced = reduced

  def alphabet(self, doc):
    P = rows(doc, 'People')
    T = rows(doc, 'Teams')
    out = []
    A = out.append
    A(("add P full", [["AddRecord", "People", None, {"name": "dee", "age": 25, "team": 1, "boss": 1}]]))
    A(("add P empty", [["AddRecord", "People", None, {}]]))
    if not self.reduced:
      A(("add P id9", [["AddRecord", "People", 9, {"name": "nine", "age": 20, "team": 2}]]))
    for r in P[:3]:
      A(("upd P%d age=7" % r, [["UpdateRecord", "People", r, {"age": 7}]]))
    for r in P[:2]:
      A(("upd P%d age=alt" % r, [["UpdateRecord", "People", r, {"age": "old"}]]))
      A(("upd P%d team=2" % r, [["UpdateRecord", "People", r, {"team": 2}]]))
    for r in P[1:3]:
      A(("upd P%d team=0" % r, [["UpdateRecord", "People", r, {"team": 0}]]))
      A(("upd P%d boss=%d" % (r, r), [["UpdateRecord", "People", r, {"boss": r}]]))
    for r in P[:1]:
      A(("upd P%d name" % r, [["UpdateRecord", "People", r, {"name": "zed"}]]))
      A(("upd P%d defaults" % r, [["UpdateRecord", "People", r, {"name": "", "age": 0, "team": 0}]]))
      if has_col(doc, 'People', 'e_text'):
        A(("upd P%d e_text" % r, [["UpdateRecord", "People", r, {"e_text": "hello"}]]))
        A(("upd P%d e_any" % r, [["UpdateRecord", "People", r, {"e_any": 5}]]))
      if not self.reduced:
        A(("upd P%d tags dup" % r, [["UpdateRecord", "People", r, {"tags": ["L", "b", "b"]}]]))
        A(("upd P%d age=None" % r, [["UpdateRecord", "People", r, {"age": None}]]))
    for r in P[:3]:
      A(("rem P%d" % r, [["RemoveRecord", "People", r]]))
    if len(P) >= 2:
      A(("bulkupd P ages", [["BulkUpdateRecord", "People", P[:2], {"age": [20, 20]}]]))
      if not self.reduced:
        A(("bulkrem P", [["BulkRemoveRecord", "People", P[:2]]]))
        if has_col(doc, 'People', 'boss') and has_col(doc, 'Teams', 'members'):
          # reference DATA columns that carry a default (trigger) formula are still cleaned when
          # their target row goes
          A(("default formulas on P.boss/T.members + rem P%d" % P[0], [
              ["ModifyColumn", "People", "boss", {"formula": "None", "recalcWhen": 0}],
              ["ModifyColumn", "Teams", "members", {"formula": "None", "recalcWhen": 0}],
              ["RemoveRecord", "People", P[0]]]))
    for t in T[:2]:
      A(("upd T%d members" % t, [["UpdateRecord", "Teams", t, {"members": ["L"] + P[-2:]}]]))
      A(("rem T%d" % t, [["RemoveRecord", "Teams", t]]))
    for t in T[:1]:
      A(("upd T%d members None" % t, [["UpdateRecord", "Teams", t, {"members": None}]]))
      # drops one of two mentions of the same row (the row stays referenced)
      A(("upd T%d members drop dup" % t, [["UpdateRecord", "Teams", t, {"members": ["L"] + P[1:2] + P[:1]}]]))
      if not self.reduced:
        A(("upd T%d title" % t, [["UpdateRecord", "Teams", t, {"title": "green"}]]))
        A(("upd T%d members dup" % t, [["UpdateRecord", "Teams", t, {"members": ["L"] + P[:1] + P[:1]}]]))
    A(("add T", [["AddRecord", "Teams", None, {"title": "new", "members": ["L"] + P[:1]}]]))
    if not self.reduced:
      A(("bulkadd P2", [["BulkAddRecord", "People", [None, None],
                         {"name": ["e1", "e2"], "age": [20, 40], "team": [1, 1]}]]))
      A(("replace P", [["ReplaceTableData", "People", [1, 4],
                        {"name": ["r1", "r4"], "age": [1, 4], "team": [2, 2], "boss": [4, 0]}]]))
      A(("tmpid add+ref", [["AddRecord", "People", -1, {"name": "tmp", "age": 20, "team": 1}],
                           ["UpdateRecord", "Teams", T[0] if T else 1, {"members": ["L", -1]}]]))
      A(("add+rem same", [["AddRecord", "People", -1, {"name": "gone", "team": 1}],
                          ["RemoveRecord", "People", -1]]))
      # a row added with a temporary id, referenced through it, and removed through it again
      A(("tmpid add+ref+rem", [["AddRecord", "People", -1, {"name": "tmp", "age": 20, "team": 1}],
                               ["UpdateRecord", "Teams", T[0] if T else 1, {"members": ["L", -1]}],
                               ["UpdateRecord", "People", P[0] if P else 1, {"boss": -1}],
                               ["RemoveRecord", "People", -1]]))
      # a lookup gets a new match while a formula that reads it (in a table that sorts first) is
      # dirty for another reason
      if len(T) >= 2 and P:
        A(("upd P age + T title", [["UpdateRecord", "People", P[0], {"age": 8}],
                                   ["UpdateRecord", "Teams", T[1], {"title": "red"}]]))
      # natural failures
      A(("FAIL upd formula col", [["UpdateRecord", "People", P[0] if P else 1, {"f_age2": 5}]]))
      A(("FAIL second action", [["UpdateRecord", "People", P[0] if P else 1, {"age": 99}],
                                ["UpdateRecord", "People", 77, {"age": 1}]]))
      A(("FAIL unknown col", [["AddRecord", "People", None, {"nope": 1}]]))
      A(("FAIL docaction upd 2nd col unknown", [["ApplyDocActions", [
          ["UpdateRecord", "People", P[0] if P else 1, {"age": 5, "nosuch": 1}]]]]))
      A(("FAIL docaction add 2nd col unknown", [["ApplyDocActions", [
          ["AddRecord", "People", 17, {"age": 5, "nosuch": 1}]]]]))
    return out


# --------------------------------------------------------------------------------------------
# W_schema: W_rec + schema edits
# --------------------------------------------------------------------------------------------

class WSchema(World):
  name = 'W_schema'
  setup = REC_SETUP

  def __init__(self, reduced=False, renames=True, calc_failure=False):
    self.reduced = reduced
    self.renames = renames
    self.calc_failure = calc_failure     # adds a bundle that raises in the calc phase (C04 only)

  def alphabet(self, doc):
    out = []
    A = out.append
    hp = lambda c: has_col(doc, 'People', c)
    ht = lambda c: has_col(doc, 'Teams', c)
    people = 'People' in doc.eng.tables
    teams = 'Teams' in doc.eng.tables
    P = rows(doc, 'People')
    if people:
      A(("addcol P data", [["AddColumn", "People", "extra", {"type": "Int", "isFormula": False}]]))
      A(("addcol P formula", [["AddColumn", "People", "f_new", {
          "type": "Any", "isFormula": True, "formula": "$name.upper() if $name else $id"}]]))
      A(("addcol P empty", [["AddColumn", "People", None, {}]]))
      if hp('age'):
        A(("modcol P.age Text", [["ModifyColumn", "People", "age", {"type": "Text"}]]))
        A(("modcol P.age Numeric", [["ModifyColumn", "People", "age", {"type": "Numeric"}]]))
        A(("modcol P.age formula", [["ModifyColumn", "People", "age", {
            "isFormula": True, "formula": "len($name)"}]]))
        A(("remcol P.age", [["RemoveColumn", "People", "age"]]))
        if self.renames:
          A(("rencol P.age->years", [["RenameColumn", "People", "age", "years"]]))
      if hp('f_age2'):
        A(("modcol P.f_age2 formula", [["ModifyColumn", "People", "f_age2", {"formula": "$age + 1"}]]))
        A(("modcol P.f_age2 todata", [["ModifyColumn", "People", "f_age2", {"isFormula": False}]]))
        A(("remcol P.f_age2", [["RemoveColumn", "People", "f_age2"]]))
      if hp('team'):
        A(("remcol P.team", [["RemoveColumn", "People", "team"]]))
        A(("modcol P.team Int", [["ModifyColumn", "People", "team", {"type": "Int"}]]))
        if self.renames:
          A(("rencol P.team->grp", [["RenameColumn", "People", "team", "grp"]]))
      if hp('boss'):
        A(("modcol P.boss RefList", [["ModifyColumn", "People", "boss", {"type": "RefList:People"}]]))
        A(("remcol P.boss", [["RemoveColumn", "People", "boss"]]))
      if hp('name'):
        if self.renames:
          A(("rencol P.name sanitize", [["RenameColumn", "People", "name", "full name!"]]))
          A(("rencol P.name collide", [["RenameColumn", "People", "name", "AGE"]]))
        A(("remcol P.name", [["RemoveColumn", "People", "name"]]))
        cr = col_ref(doc, 'People', 'name')
        A(("meta label P.name", [["UpdateRecord", "_grist_Tables_column", cr, {"label": "Nom"}]]))
        if hp('boss'):
          A(("setdisplay P.boss", [["SetDisplayFormula", "People", None,
                                    col_ref(doc, 'People', 'boss'), "$boss.name"]]))
      if hp('tags'):
        A(("modcol P.tags Text", [["ModifyColumn", "People", "tags", {"type": "Text"}]]))
      A(("addrule P", [["AddEmptyRule", "People", 0, col_ref(doc, 'People', 'name') if hp('name') else 0]]))
      A(("addrowrule P", [["AddEmptyRule", "People", 0, 0]]))
      raw = doc.eng.docmodel.tables.lookupOne(tableId='People').rawViewSectionRef
      if raw and raw.rules:
        A(("clear row rules P", [["UpdateRecord", "_grist_Views_section", raw.id, {"rules": None}]]))
      if self.renames:
        A(("rentable P->Folk", [["RenameTable", "People", "Folk"]]))
      A(("remtable P", [["RemoveTable", "People"]]))
      if not self.reduced:
        A(("duptable P", [["DuplicateTable", "People", "PeopleCopy", True]]))
    if teams:
      if ht('members'):
        A(("remcol T.members", [["RemoveColumn", "Teams", "members"]]))
        A(("modcol T.members Ref", [["ModifyColumn", "Teams", "members", {"type": "Ref:People"}]]))
      if ht('f_look'):
        A(("modcol T.f_look formula", [["ModifyColumn", "Teams", "f_look", {
            "formula": "People.lookupOne(team=$id).name"}]]))
      A(("remtable T", [["RemoveTable", "Teams"]]))
      if self.renames:
        A(("rentable T->Squads", [["RenameTable", "Teams", "Squads"]]))
    A(("addtable", [["AddTable", "Extra", [{"id": "a", "type": "Int"},
                                           {"id": "p", "type": "Ref:People" if people else "Int"}]]]))
    A(("addemptytable", [["AddEmptyTable", None]]))
    # metadata removals
    sec = rows(doc, '_grist_Views_section')
    views = rows(doc, '_grist_Views')
    pages = rows(doc, '_grist_Pages')
    fields = rows(doc, '_grist_Views_section_field')
    if views:
      A(("rem view %d" % views[0], [["RemoveRecord", "_grist_Views", views[0]]]))
    if pages:
      A(("rem page %d" % pages[-1], [["RemoveRecord", "_grist_Pages", pages[-1]]]))
    if not self.reduced:
      for s in sec[:1]:
        A(("rem section %d" % s, [["RemoveRecord", "_grist_Views_section", s]]))
      for f in fields[:1]:
        A(("rem field %d" % f, [["RemoveRecord", "_grist_Views_section_field", f]]))
    # a couple of record edits so that schema edits interleave with data edits
    if people and P and hp('age'):
      A(("upd P age", [["UpdateRecord", "People", P[0], {"age": 21}]]))
    if people and len(P) > 1:
      A(("rem P", [["RemoveRecord", "People", P[1]]]))
    # multi-action bundle: rename + removal + formula change
    if people and hp('age') and hp('name') and hp('f_age2') and self.renames and not self.reduced:
      A(("bundle ren+rem+mod", [["RenameColumn", "People", "age", "yrs"],
                                ["RemoveColumn", "People", "name"],
                                ["ModifyColumn", "People", "f_age2", {"formula": "$yrs * 3"}]]))
    # natural failures
    if people and self.calc_failure and hp('age'):
      # docmodel.add takes the list as per-record bulk values; the TypeError comes from
      # _maybe_update_trigger_dependencies, i.e. after the user-action loop
      A(("FAIL addcol recalcDeps list", [["AddColumn", "People", "t_x", {
          "type": "Int", "isFormula": False, "formula": "1", "recalcWhen": 0,
          "recalcDeps": ["L", col_ref(doc, 'People', 'age')]}]]))
    if people and not self.reduced:
      # the second schema doc action of ONE user action fails (in rebuild_usercode: keyword)
      # (preceded by a record edit, which must be reverted too)
      A(("FAIL docactions addcol then addcol keyword", [
          ["UpdateRecord", "People", P[0] if P else 1, {"name": "changed"}],
          ["ApplyDocActions", [
              ["AddColumn", "People", "zz", {"type": "Int", "isFormula": False, "formula": ""}],
              ["AddColumn", "People", "class", {"type": "Int", "isFormula": False, "formula": ""}]]]]))
      if hp('f_age2'):
        # a successful user-level schema change followed by a schema doc action that fails
        A(("FAIL remcol then addcol bad type", [["RemoveColumn", "People", "f_age2"],
                                                ["AddColumn", "People", "cbad", {"type": "BAD", "isFormula": False}]]))
      A(("FAIL remcol missing", [["RemoveColumn", "People", "nope"]]))
      A(("FAIL add then bad", [["AddColumn", "People", "tmpc", {"type": "Int", "isFormula": False}],
                               ["RemoveColumn", "People", "nope"]]))
    return out


# --------------------------------------------------------------------------------------------
# W_sum: summary tables by (), (k), (kl), (k, rl)
# --------------------------------------------------------------------------------------------

def _sum_sections(doc):
  tref = table_ref(doc, 'Src')
  k, kl, rl = (col_ref(doc, 'Src', c) for c in ('k', 'kl', 'rl'))
  return [
      ["CreateViewSection", tref, 0, "record", [], None],
      ["CreateViewSection", tref, 0, "record", [k], None],
      ["CreateViewSection", tref, 0, "record", [kl], None],
      ["CreateViewSection", tref, 0, "record", [k, rl], None],
  ]


def _sum_of_sum(doc):
  # a summary OF a summary table: removals there are caused by auto-removals one level below
  tref = table_ref(doc, 'Src_summary_k_rl')
  k = col_ref(doc, 'Src_summary_k_rl', 'k')
  rl = col_ref(doc, 'Src_summary_k_rl', 'rl')
  # two second-level summaries sharing the group-by column k: their helper columns both hang off
  # Src_summary_k_rl.k, so a new first-level group dirties both in one pass
  return [["CreateViewSection", tref, 0, "record", [k], None],
          ["CreateViewSection", tref, 0, "record", [k, rl], None]]


def _sum_ref_display(doc):
  # A Ref into a summary table shown through a display helper column: removing the summary
  # table's last widget auto-removes the table (round 1), which clears the display column of the
  # referring column, whose helper must then be auto-removed too (round 2).
  return [["AddColumn", "Other", "sref", {"type": "Ref:Src_summary_k", "isFormula": False}]]


def _sum_ref_display2(doc):
  return [["SetDisplayFormula", "Other", None, col_ref(doc, 'Other', 'sref'), "$sref.count"],
          ["UpdateRecord", "Other", 1, {"sref": 1}]]


SUM_SETUP = [
    [["AddTable", "Other", [{"id": "label", "type": "Text"}]]],
    [["AddTable", "Src", [
        {"id": "k", "type": "Choice"},
        {"id": "kl", "type": "ChoiceList"},
        {"id": "r", "type": "Ref:Other"},
        {"id": "rl", "type": "RefList:Other"},
        {"id": "n", "type": "Int"},
    ]]],
    [["BulkAddRecord", "Other", [None, None], {"label": ["o1", "o2"]}],
     ["BulkAddRecord", "Src", [None, None, None], {
         "k": ["a", "a", "b"], "kl": [["L", "x", "y"], ["L", "x"], None],
         "r": [1, 2, 0], "rl": [["L", 1, 2], None, ["L", 2]], "n": [1, 2, 3]}]],
    _sum_sections,
    _sum_ref_display,
    _sum_ref_display2,
]


def summary_tables(doc):
  """[(summary table id, section refs, [source col refs])] for current summary tables."""
  out = []
  dm = doc.eng.docmodel
  for t in dm.tables.all:
    if t.summarySourceTable:
      secs = [s.id for s in t.viewSections if not s.isRaw and not s.isRecordCard]
      src = [c.summarySourceCol.id for c in t.columns if c.summarySourceCol]
      out.append((t.tableId, secs, sorted(src)))
  return sorted(out)


class WSum(World):
  name = 'W_sum'
  setup = SUM_SETUP

  def __init__(self, reduced=False):
    self.reduced = reduced

  def alphabet(self, doc):
    out = []
    A = out.append
    S = rows(doc, 'Src')
    O = rows(doc, 'Other')
    hs = lambda c: has_col(doc, 'Src', c)
    if 'Src' in doc.eng.tables:
      for r in S[:2]:
        if hs('k'):
          A(("upd S%d k=b" % r, [["UpdateRecord", "Src", r, {"k": "b"}]]))
          A(("upd S%d k=c" % r, [["UpdateRecord", "Src", r, {"k": "c"}]]))
        if hs('kl'):
          A(("upd S%d kl=[y]" % r, [["UpdateRecord", "Src", r, {"kl": ["L", "y"]}]]))
          A(("upd S%d kl=None" % r, [["UpdateRecord", "Src", r, {"kl": None}]]))
        if hs('rl'):
          A(("upd S%d rl=[2]" % r, [["UpdateRecord", "Src", r, {"rl": ["L", 2]}]]))
      for r in S[-1:]:
        if hs('kl'):
          A(("upd S%d kl=alt" % r, [["UpdateRecord", "Src", r, {"kl": "zz"}]]))
          A(("upd S%d kl=[x,x]" % r, [["UpdateRecord", "Src", r, {"kl": ["L", "x", "x"]}]]))
          # a NEW key repeated inside one cell (must give one summary row, not two)
          A(("upd S%d kl=[w,w]" % r, [["UpdateRecord", "Src", r, {"kl": ["L", "w", "w"]}]]))
        if hs('rl'):
          A(("upd S%d rl=None" % r, [["UpdateRecord", "Src", r, {"rl": None}]]))
          A(("upd S%d rl=[1,1]" % r, [["UpdateRecord", "Src", r, {"rl": ["L", 1, 1]}]]))
        if hs('n'):
          A(("upd S%d n" % r, [["UpdateRecord", "Src", r, {"n": 10}]]))
        # the last source row moves to the front of the view order: groups stay in row id order
        A(("upd S%d manualSort first" % r, [["UpdateRecord", "Src", r, {"manualSort": 0.5}]]))
      if hs('k') and S and 'Src_summary_k' in doc.eng.tables:
        # summary tables take formula columns only: a data column with a (trigger) formula must be
        # refused like a plain data column (it would be taken for a group-by column)
        for cid in ('trig', 'n'):
          A(("FAIL addcol trigger %s into summary + upd" % cid, [
              ["AddColumn", "Src_summary_k", cid, {"type": "Int", "isFormula": False, "formula": "1",
                                                   "recalcWhen": 0}],
              ["UpdateRecord", "Src", S[0], {"k": "c", "n": 77} if hs('n') else {"k": "c"}]]))
      vals = {}
      if hs('k'):
        vals['k'] = 'c'
      if hs('kl'):
        vals['kl'] = ['L', 'y', 'z']
      if hs('rl'):
        vals['rl'] = ['L', 1]
      A(("add S", [["AddRecord", "Src", None, vals]]))
      A(("add S empty", [["AddRecord", "Src", None, {}]]))
      for r in S[:3]:
        A(("rem S%d" % r, [["RemoveRecord", "Src", r]]))
      if len(S) >= 2:
        A(("bulkrem S", [["BulkRemoveRecord", "Src", S[:2]]]))
        if hs('k'):
          A(("bulkupd S k", [["BulkUpdateRecord", "Src", S[:2], {"k": ["b", "c"]}]]))
      # schema edits on group-by sources
      if hs('k'):
        A(("rencol S.k->kind", [["RenameColumn", "Src", "k", "kind"]]))
        A(("modcol S.k Text", [["ModifyColumn", "Src", "k", {"type": "Text"}]]))
        A(("remcol S.k", [["RemoveColumn", "Src", "k"]]))
      if hs('kl'):
        A(("modcol S.kl Choice", [["ModifyColumn", "Src", "kl", {"type": "Choice"}]]))
        A(("remcol S.kl", [["RemoveColumn", "Src", "kl"]]))
      if hs('rl'):
        A(("modcol S.rl Ref", [["ModifyColumn", "Src", "rl", {"type": "Ref:Other"}]]))
      if hs('n') and not self.reduced:
        A(("remcol S.n", [["RemoveColumn", "Src", "n"]]))
      if not self.reduced:
        A(("rentable Src->Source", [["RenameTable", "Src", "Source"]]))
      # regrouping of every summary section to a few other group-by sets
      sums = summary_tables(doc)
      colsets = []
      refs = {c: col_ref(doc, 'Src', c) for c in ('k', 'kl', 'r', 'rl') if hs(c)}
      for names in ([], ['k'], ['kl'], ['k', 'rl'], ['r'], ['k', 'kl']):
        if all(n in refs for n in names):
          colsets.append(sorted(refs[n] for n in names))
      for (tid, secs, src) in sums:
        for s in secs[:1]:
          for cs in colsets:
            if cs != src:
              A(("regroup %s -> %s" % (tid, cs), [["UpdateSummaryViewSection", s, cs]]))
          A(("detach %s" % tid, [["DetachSummaryViewSection", s]]))
          if not self.reduced:
            A(("rem section of %s" % tid, [["RemoveRecord", "_grist_Views_section", s]]))
        if not self.reduced and has_col(doc, tid, 'count'):
          A(("addcol %s formula" % tid, [["AddColumn", tid, "tot", {
              "isFormula": True, "type": "Any", "formula": "len($group)"}]]))
      if sums and S and hs('n'):
        # source edit + the summary table losing its last widget in ONE bundle
        for (tid, secs, src) in sums[1:3]:
          if secs:
            A(("upd S n + rem section of %s" % tid, [["UpdateRecord", "Src", S[0], {"n": 100}],
                                                      ["RemoveRecord", "_grist_Views_section", secs[0]]]))
      if sums and not self.reduced:
        tid = sums[-1][0]
        gcols = [c for c in ('k', 'kind', 'kl', 'rl') if has_col(doc, tid, c)]
        rr = rows(doc, tid)
        if gcols and rr:
          A(("FAIL upd groupby in %s" % tid, [["UpdateRecord", tid, rr[0], {gcols[0]: "q"}]]))
          A(("FAIL rem summary row %s" % tid, [["RemoveRecord", tid, rr[0]]]))
    for o in O[:2]:
      A(("rem O%d" % o, [["RemoveRecord", "Other", o]]))
    if 'Other' in doc.eng.tables and not self.reduced:
      A(("remtable Other", [["RemoveTable", "Other"]]))
    if 'Src' in doc.eng.tables and not self.reduced:
      A(("remtable Src", [["RemoveTable", "Src"]]))
    return out


class WSumSum(World):
  """
  Summary OF a summary table (Src -> Src_summary_k_rl -> ..._summary_k): removals in the second
  level are caused by auto-removals in the first.  Record edits only, plus one rename of the
  group-by source, after which exploration stops: the rename does not cascade to second-level
  summaries on the pinned tree (a recorded finding), and everything after it would repeat it.
  """
  name = 'W_sumsum'
  setup = SUM_SETUP[:3] + [_sum_sections, _sum_of_sum]

  def alphabet(self, doc):
    out = []
    A = out.append
    if not has_col(doc, 'Src', 'k'):
      return out
    S = rows(doc, 'Src')
    for r in S[:3]:
      A(("upd S%d k=b" % r, [["UpdateRecord", "Src", r, {"k": "b"}]]))
      A(("upd S%d k=c" % r, [["UpdateRecord", "Src", r, {"k": "c"}]]))
      A(("upd S%d rl=[2]" % r, [["UpdateRecord", "Src", r, {"rl": ["L", 2]}]]))
      A(("upd S%d rl=None" % r, [["UpdateRecord", "Src", r, {"rl": None}]]))
      A(("rem S%d" % r, [["RemoveRecord", "Src", r]]))
    if len(S) >= 2:
      A(("bulkupd S k", [["BulkUpdateRecord", "Src", S[:2], {"k": ["b", "c"]}]]))
      A(("bulkrem S", [["BulkRemoveRecord", "Src", S[:2]]]))
    A(("add S", [["AddRecord", "Src", None, {"k": "c", "rl": ["L", 1]}]]))
    A(("rencol S.k->kind", [["RenameColumn", "Src", "k", "kind"]]))
    return out


# --------------------------------------------------------------------------------------------
# W_2way: two-way references A<->B
# --------------------------------------------------------------------------------------------

def _twoway_links(doc):
  return [["AddReverseColumn", "A", "x"], ["AddReverseColumn", "A", "y"], ["AddReverseColumn", "A", "z"]]


def _twoway_rename(doc):
  # AddReverseColumn names the new columns itself; give them stable ids xs / ys / zb.
  out = []
  dm = doc.eng.docmodel
  for src, new in (('x', 'xs'), ('y', 'ys'), ('z', 'zb')):
    c = dm.columns.lookupOne(tableId='A', colId=src)
    out.append(["RenameColumn", "B", c.reverseCol.colId, new])
  return out


TWOWAY_SETUP = [
    [["AddTable", "B", [{"id": "bn", "type": "Text"}]]],
    [["AddTable", "A", [{"id": "an", "type": "Text"},
                        {"id": "x", "type": "Ref:B"},
                        {"id": "y", "type": "RefList:B"},
                        {"id": "z", "type": "Ref:B"}]]],
    [["BulkAddRecord", "B", [None, None, None], {"bn": ["b1", "b2", "b3"]}],
     ["BulkAddRecord", "A", [None, None, None], {
         "an": ["a1", "a2", "a3"], "x": [1, 1, 2], "y": [["L", 1, 2], ["L", 2], None],
         "z": [1, 2, 0]}]],
    _twoway_links,
    _twoway_rename,
    [["ModifyColumn", "B", "zb", {"type": "Ref:A"}]],
]


class W2Way(World):
  name = 'W_2way'
  setup = TWOWAY_SETUP

  def __init__(self, reduced=False):
    self.reduced = reduced

  def alphabet(self, doc):
    out = []
    A_ = out.append
    RA = rows(doc, 'A')
    RB = rows(doc, 'B')
    ha = lambda c: has_col(doc, 'A', c)
    hb = lambda c: has_col(doc, 'B', c)
    if 'A' in doc.eng.tables and 'B' in doc.eng.tables:
      for r in RA[:2]:
        if ha('x'):
          A_(("upd A%d x=3" % r, [["UpdateRecord", "A", r, {"x": 3}]]))
          A_(("upd A%d x=0" % r, [["UpdateRecord", "A", r, {"x": 0}]]))
        if ha('y'):
          A_(("upd A%d y=[3,1]" % r, [["UpdateRecord", "A", r, {"y": ["L", 3, 1]}]]))
          A_(("upd A%d y=None" % r, [["UpdateRecord", "A", r, {"y": None}]]))
        if ha('z'):
          A_(("upd A%d z=3" % r, [["UpdateRecord", "A", r, {"z": 3}]]))
          A_(("upd A%d z=2 (maybe taken)" % r, [["UpdateRecord", "A", r, {"z": 2}]]))
      for r in RB[:2]:
        if hb('xs'):
          A_(("upd B%d xs=[3]" % r, [["UpdateRecord", "B", r, {"xs": ["L", 3]}]]))
          A_(("upd B%d xs=[1,2,3]" % r, [["UpdateRecord", "B", r, {"xs": ["L", 1, 2, 3]}]]))
          A_(("upd B%d xs=None" % r, [["UpdateRecord", "B", r, {"xs": None}]]))
        if hb('ys'):
          A_(("upd B%d ys=[3,1]" % r, [["UpdateRecord", "B", r, {"ys": ["L", 3, 1]}]]))
        if hb('zb'):
          A_(("upd B%d zb=3" % r, [["UpdateRecord", "B", r, {"zb": 3}]]))
          A_(("upd B%d zb=0" % r, [["UpdateRecord", "B", r, {"zb": 0}]]))
      if len(RA) >= 2 and ha('x'):
        A_(("bulkupd A x same target", [["BulkUpdateRecord", "A", RA[:2], {"x": [3, 3]}]]))
      if len(RB) >= 2 and hb('xs'):
        A_(("bulkupd B xs dup target", [["BulkUpdateRecord", "B", RB[:2], {"xs": [["L", 1], ["L", 1]]}]]))
      if len(RA) >= 2 and ha('z'):
        A_(("bulkupd A z same target", [["BulkUpdateRecord", "A", RA[:2], {"z": [3, 3]}]]))
      # two rows exchange their cells in ONE bulk action: every target loses as many sources as
      # it gains (the reverse cells keep their length but not their content)
      for (tid, rr, cid) in (('A', RA[-2:], 'x'), ('A', RA[:2], 'y'), ('B', RB[:2], 'xs')):
        if len(rr) == 2 and has_col(doc, tid, cid):
          col = doc.eng.tables[tid].get_column(cid)
          v0, v1 = [_wire(col.raw_get(r)) for r in rr]
          if v0 != v1:
            A_(("bulkupd %s %s swap" % (tid, cid), [["BulkUpdateRecord", tid, list(rr), {cid: [v1, v0]}]]))
      for r in RA[:2]:
        A_(("rem A%d" % r, [["RemoveRecord", "A", r]]))
      for r in RB[:2]:
        A_(("rem B%d" % r, [["RemoveRecord", "B", r]]))
      vals = {}
      if ha('x'):
        vals['x'] = 2
      if ha('y'):
        vals['y'] = ['L', 1]
      A_(("add A", [["AddRecord", "A", None, vals]]))
      bvals = {}
      if hb('xs'):
        bvals['xs'] = ['L', 1]
      if hb('zb'):
        bvals['zb'] = 3
      A_(("add B", [["AddRecord", "B", None, bvals]]))
      if ha('x'):
        A_(("tmpid add A x2 + rem first", [["AddRecord", "A", -1, {"x": 1}], ["AddRecord", "A", -2, {"x": 1}],
                                           ["RemoveRecord", "A", -1]]))
      # type switches
      if ha('x'):
        A_(("modcol A.x RefList", [["ModifyColumn", "A", "x", {"type": "RefList:B"}]]))
        A_(("remcol A.x", [["RemoveColumn", "A", "x"]]))
        A_(("unlink A.x", [["UpdateRecord", "_grist_Tables_column", col_ref(doc, 'A', 'x'),
                            {"reverseCol": 0}]]))
        A_(("FAIL modcol A.x Int", [["ModifyColumn", "A", "x", {"type": "Int"}]]))
      if hb('xs'):
        A_(("modcol B.xs Ref", [["ModifyColumn", "B", "xs", {"type": "Ref:A"}]]))
        A_(("remcol B.xs", [["RemoveColumn", "B", "xs"]]))
        A_(("FAIL remcol B.xs then missing", [["RemoveColumn", "B", "xs"], ["RemoveColumn", "A", "nosuch"]]))
      if ha('y'):
        A_(("modcol A.y Ref", [["ModifyColumn", "A", "y", {"type": "Ref:B"}]]))
      if hb('ys') and not self.reduced:
        A_(("remcol B.ys", [["RemoveColumn", "B", "ys"]]))
      if hb('zb'):
        A_(("modcol B.zb RefList", [["ModifyColumn", "B", "zb", {"type": "RefList:A"}]]))
      if ha('x'):
        dm = doc.eng.docmodel
        c = dm.columns.lookupOne(tableId='A', colId='x')
        if not c.reverseCol:
          A_(("link A.x", [["AddReverseColumn", "A", "x"]]))
      if not self.reduced:
        A_(("rentable B->Bee", [["RenameTable", "B", "Bee"]]))
        if ha('x'):
          A_(("rencol A.x->ex", [["RenameColumn", "A", "x", "ex"]]))
    if 'B' in doc.eng.tables and not self.reduced:
      A_(("remtable B", [["RemoveTable", "B"]]))
    if 'A' in doc.eng.tables and not self.reduced:
      A_(("remtable A", [["RemoveTable", "A"]]))
    return out


# --------------------------------------------------------------------------------------------
# W_trig: trigger formulas that count their own recalculations
# --------------------------------------------------------------------------------------------

TRIG_F = "(value or 0) + 1"


def _trig_cols(doc):
  # recalcDeps is set by a metadata update afterwards (as the tests and the client do): a list
  # given inside AddColumn's col_info is taken as per-record bulk values by docmodel.add.
  def col(cid, when):
    return ["AddColumn", "T", cid, {"type": "Int", "isFormula": False, "formula": TRIG_F,
                                    "recalcWhen": when}]
  err = ["AddColumn", "T", "t_err", {"type": "Int", "isFormula": False, "recalcWhen": 0,
                                     "formula": "(value or 0) + 1 if $a != 2 else 1/0"}]
  g = ["AddColumn", "T", "g", {"type": "Any", "isFormula": True, "formula": "$t_err"}]
  # a formula (sorting before the trigger columns) that reads trigger cells
  h = ["AddColumn", "T", "h", {"type": "Any", "isFormula": True, "formula": "$t_def * 10 + $t_self"}]
  # a trigger formula that reads a formula cell of ANOTHER row and then a plain cell of its own
  # row (not among its recalcDeps): not a counting formula, so C15's model leaves it alone
  peer = ["AddColumn", "T", "t_peer", {"type": "Int", "isFormula": False, "recalcWhen": 0,
                                       "formula": "($peer.c or 0) + ($b or 0)"}]
  # a formula with a side effect that is never in place: recalcWhen=NEVER, so only a read-only
  # call (get_formula_error on the cell) ever evaluates it, and must undo the added Dict row
  side = ["AddColumn", "T", "t_side", {"type": "Ref:Dict", "isFormula": False, "recalcWhen": 1,
                                       "formula": "Dict.lookupOrAddDerived(k=$a)"}]
  return [col("t_def", 0), col("t_never", 1), col("t_manual", 2), col("t_onc", 0), col("t_new", 0),
          col("t_self", 0), err, g, h, peer, side]


def _trig_deps(doc):
  a, c, s = (col_ref(doc, 'T', x) for x in ('a', 'c', 't_self'))
  upd = lambda cid, deps: ["UpdateRecord", "_grist_Tables_column", col_ref(doc, 'T', cid),
                           {"recalcDeps": ["L"] + deps}]
  return [upd("t_def", [a]), upd("t_onc", [c]), upd("t_self", [s, a]), upd("t_err", [a]),
          upd("t_peer", [a])]


TRIG_SETUP = [
    [["AddTable", "T", [{"id": "a", "type": "Int"}, {"id": "b", "type": "Int"},
                        {"id": "c", "type": "Any", "isFormula": True, "formula": "$a + 1"},
                        {"id": "peer", "type": "Ref:T"}]],
     ["AddTable", "Dict", [{"id": "k", "type": "Int"}]]],
    _trig_cols,
    _trig_deps,
    [["BulkAddRecord", "T", [None, None], {"a": [1, 2], "b": [10, 20], "peer": [2, 1]}]],
]


class WTrig(World):
  name = 'W_trig'
  setup = TRIG_SETUP

  def __init__(self, reduced=False):
    self.reduced = reduced

  def alphabet(self, doc):
    out = []
    A = out.append
    R = rows(doc, 'T')
    ht = lambda c: has_col(doc, 'T', c)
    if 'T' not in doc.eng.tables:
      return out
    A(("add T a=5", [["AddRecord", "T", None, {"a": 5}]]))
    A(("add T empty", [["AddRecord", "T", None, {}]]))
    if ht('t_def'):
      A(("add T a=5 t_def=50", [["AddRecord", "T", None, {"a": 5, "t_def": 50}]]))
      A(("add T t_never=7 t_manual=8", [["AddRecord", "T", None, {"t_never": 7, "t_manual": 8}]]))
    for r in R[:2]:
      if ht('a'):
        A(("upd T%d a=9" % r, [["UpdateRecord", "T", r, {"a": 9}]]))
        A(("upd T%d a=same" % r, [["UpdateRecord", "T", r, {
            "a": doc.eng.tables['T'].get_column('a').raw_get(r)}]]))
      A(("upd T%d b=99" % r, [["UpdateRecord", "T", r, {"b": 99}]]))
    for r in R[:1]:
      if ht('t_def') and ht('a'):
        A(("upd T%d a=9 t_def=70" % r, [["UpdateRecord", "T", r, {"a": 9, "t_def": 70}]]))
        A(("upd T%d t_def=70" % r, [["UpdateRecord", "T", r, {"t_def": 70}]]))
        # a trigger cell holding the type default is omitted from the undo of a row removal
        A(("upd T%d t_def=0" % r, [["UpdateRecord", "T", r, {"t_def": 0}]]))
      if ht('t_onc'):
        A(("upd T%d t_onc=0" % r, [["UpdateRecord", "T", r, {"t_onc": 0}]]))
      if ht('t_self'):
        A(("upd T%d t_self=40" % r, [["UpdateRecord", "T", r, {"t_self": 40}]]))
      if ht('t_manual'):
        A(("upd T%d t_manual=30" % r, [["UpdateRecord", "T", r, {"t_manual": 30}]]))
      if ht('t_never'):
        A(("upd T%d t_never=30" % r, [["UpdateRecord", "T", r, {"t_never": 30}]]))
    if len(R) >= 2 and ht('a'):
      A(("bulkupd T a mix", [["BulkUpdateRecord", "T", R[:2], {
          "a": [doc.eng.tables['T'].get_column('a').raw_get(R[0]), 77]}]]))
      A(("two actions a then b", [["UpdateRecord", "T", R[0], {"a": 33}],
                                  ["UpdateRecord", "T", R[0], {"b": 34}]]))
      if ht('g') and ht('t_err'):
        # trigger cells change in several rows, a formula->data conversion forces the
        # recalculation in mid-bundle, then only some of those rows are removed
        A(("bulkupd a + g todata + rem", [["BulkUpdateRecord", "T", R[:2], {"a": [5, 6]}],
                                          ["ModifyColumn", "T", "g", {"isFormula": False}],
                                          ["RemoveRecord", "T", R[0]]]))
    if R and ht('a') and ht('b'):
      # a row id present before and after the replacement: its trigger cells are computed anew
      A(("replace T keeping id", [["ReplaceTableData", "T", [R[0], 7], {"a": [4, 5], "b": [1, 2]}]]))
    for r in R[:1]:
      A(("rem T%d" % r, [["RemoveRecord", "T", r]]))
      if ht('a'):
        A(("FAIL upd a then bad row", [["UpdateRecord", "T", r, {"a": 9}],
                                       ["UpdateRecord", "T", 99, {"a": 1}]]))
    if not self.reduced:
      if ht('a'):
        A(("rencol T.a->aa", [["RenameColumn", "T", "a", "aa"]]))
        A(("modcol T.a Numeric", [["ModifyColumn", "T", "a", {"type": "Numeric"}]]))
        A(("modcol T.a Text", [["ModifyColumn", "T", "a", {"type": "Text"}]]))
      if ht('t_def'):
        cr = col_ref(doc, 'T', 't_def')
        A(("t_def recalcWhen=NEVER", [["UpdateRecord", "_grist_Tables_column", cr, {"recalcWhen": 1}]]))
        A(("t_def recalcWhen=MANUAL", [["UpdateRecord", "_grist_Tables_column", cr, {"recalcWhen": 2}]]))
        if ht('b'):
          A(("t_def deps=[b]", [["UpdateRecord", "_grist_Tables_column", cr, {
              "recalcDeps": ["L", col_ref(doc, 'T', 'b')]}]]))
      if ht('c'):
        A(("modcol T.c formula", [["ModifyColumn", "T", "c", {"formula": "$a + 2"}]]))
      if ht('b'):
        # (more undo actions than stored actions: the removed values and the column)
        A(("remcol T.b", [["RemoveColumn", "T", "b"]]))
    return out


# --------------------------------------------------------------------------------------------
# W_pos: row positions in a crowded float neighbourhood, after a table rename and a move
# --------------------------------------------------------------------------------------------

def _up(x, n=1):
  import struct
  bits = struct.unpack('<q', struct.pack('<d', x))[0]
  return struct.unpack('<d', struct.pack('<q', bits + n))[0]


POS_CLUSTER = [1.0, _up(1.0), _up(1.0, 2), _up(1.0, 3), 2.0]

POS_SETUP = [
    [["AddTable", "T0", [{"id": "a", "type": "Int"}, {"id": "p", "type": "PositionNumber"}]]],
    [["BulkAddRecord", "T0", [None] * 5, {"a": [1, 2, 3, 4, 5], "p": [1.0, 2.0, 3.0, 4.0, 5.0]}]],
    # the column objects are replaced (RenameTable), then one row moves (not an append): the state
    # every history starts from already has a rename and a move behind it; row order 1,2,5,3,4
    [["RenameTable", "T0", "T"]],
    [["UpdateRecord", "T", 5, {"manualSort": 3.0, "p": 3.0}]],
    # doc actions store positions as given: the first four rows in adjacent floats, so that every
    # insert or move into the cluster needs existing rows relabelled (a relabelling spreads the
    # rows out, so the cluster is set last)
    [["ApplyDocActions", [["BulkUpdateRecord", "T", [1, 2, 5, 3, 4], {
        "manualSort": POS_CLUSTER, "p": POS_CLUSTER}]]]],
]


class WPos(World):
  name = 'W_pos'
  setup = POS_SETUP

  def __init__(self, reduced=False):
    self.reduced = reduced

  def alphabet(self, doc):
    out = []
    A = out.append
    tid = 'T' if 'T' in doc.eng.tables else ('T2' if 'T2' in doc.eng.tables else None)
    if tid is None:
      return out
    t = doc.eng.tables[tid]
    for cid in ('manualSort', 'p', 'q'):
      if not t.has_column(cid):
        continue
      col = t.get_column(cid)
      order = sorted(t.row_ids, key=col.raw_get)
      pos = {r: col.raw_get(r) for r in order}
      head = order[:4]
      for k, srow in enumerate(head):
        vals = {cid: pos[srow]}
        A(("%s: ins before rank%d" % (cid, k), [["AddRecord", tid, None, vals]]))
      for k, srow in enumerate(head[1:3], 1):
        A(("%s: ins2 before rank%d" % (cid, k), [["BulkAddRecord", tid, [None, None],
                                                    {cid: [pos[srow], pos[srow]]}]]))
      if len(head) >= 3:
        A(("%s: ins2 spread" % cid, [["BulkAddRecord", tid, [None, None],
                                      {cid: [pos[head[2]], pos[head[0]]]}]]))
      pairs = [(i, j) for i in range(len(head)) for j in range(len(head)) if i != j]
      if self.reduced:
        pairs = [(0, 2), (0, 3), (3, 0), (2, 1), (1, 3)]
      for (i, j) in pairs:
        if i < len(head) and j < len(head):
          A(("%s: move rank%d before rank%d" % (cid, i, j),
             [["UpdateRecord", tid, head[i], {cid: pos[head[j]]}]]))
      if len(head) >= 3:
        A(("%s: move rank0,rank1 before rank2" % cid,
           [["BulkUpdateRecord", tid, [head[0], head[1]], {cid: [pos[head[2]], pos[head[2]]]}]]))
        A(("%s: move rank0 to end" % cid, [["UpdateRecord", tid, head[0], {cid: None}]]))
    A(("append", [["AddRecord", tid, None, {"a": 9}]]))
    R = sorted(t.row_ids)
    if R:
      A(("rem first", [["RemoveRecord", tid, R[0]]]))
    A(("rentable", [["RenameTable", tid, 'T2' if tid == 'T' else 'T']]))
    if t.has_column('p'):
      A(("rencol p->q", [["RenameColumn", tid, "p", "q"]]))
    return out


# --------------------------------------------------------------------------------------------
# W_names: table / column / summary-table ids chosen by the engine (avoid sets in useractions)
# --------------------------------------------------------------------------------------------

def _names_sections(doc):
  tref = table_ref(doc, 'Orders')
  a, b, ab = (col_ref(doc, 'Orders', c) for c in ('A', 'B', 'A_B'))
  # group-by [A, B] and [A_B] both encode to Orders_summary_A_B: the second gets a suffix
  return [["CreateViewSection", tref, 0, "record", [a, b], None],
          ["CreateViewSection", tref, 0, "record", [ab], None],
          ["CreateViewSection", tref, 0, "record", [a], None]]


NAMES_SETUP = [
    [["AddTable", "Orders", [{"id": "A", "type": "Text"}, {"id": "B", "type": "Text"},
                             {"id": "A_B", "type": "Text"}, {"id": "n", "type": "Int"}]]],
    [["AddTable", "Other", [{"id": "x", "type": "Text"}]]],
    [["BulkAddRecord", "Orders", [None, None], {"A": ["p", "q"], "B": ["r", "r"], "A_B": ["s", "t"]}]],
    _names_sections,
]

TABLE_NAMES = ["Sales", "orders", "ORDERS", "Other", "other", "Orders_summary_A", "Sales_summary_A_B",
               "class", "true", "None", "_x", "1abc", "a b", "\u00dcber", "", "Orders_summary_A_B2"]
COL_NAMES = ["A", "a", "B", "class", "True", "_x", "1x", "id", "manualSort", "group", "count",
             "A_B", "a b", "", "\u00e9t\u00e9"]


class WNames(World):
  name = 'W_names'
  setup = NAMES_SETUP

  def alphabet(self, doc):
    out = []
    A = out.append
    dm = doc.eng.docmodel
    user = [t.tableId for t in dm.tables.all if not t.summarySourceTable]
    src = next((t for t in sorted(user) if t not in ('Other',) and
                any(s.summarySourceTable and s.summarySourceTable.tableId == t for s in dm.tables.all)),
               None)
    for nm in TABLE_NAMES:
      if src:
        A(("rentable src->%r" % nm, [["RenameTable", src, nm]]))
      A(("addtable %r" % nm, [["AddTable", nm, [{"id": "v", "type": "Int"}]]]))
    A(("addemptytable None", [["AddEmptyTable", None]]))
    A(("addtable x2 same name", [["AddTable", "Twin", [{"id": "v", "type": "Int"}]],
                                 ["AddTable", "twin", [{"id": "v", "type": "Int"}]]]))
    if src:
      if 'Other' in user:
        A(("rentable both", [["RenameTable", "Other", "Tmp"], ["RenameTable", src, "Other"]]))
        A(("bulk rename tables swap-ish", [["BulkUpdateRecord", "_grist_Tables",
                                            [table_ref(doc, src), table_ref(doc, "Other")],
                                            {"tableId": ["Zed", "Zed_summary_A"]}]]))
      for nm in COL_NAMES:
        A(("addcol %r" % nm, [["AddColumn", src, nm, {"type": "Text"}]]))
        if has_col(doc, src, 'B'):
          A(("rencol B->%r" % nm, [["RenameColumn", src, "B", nm]]))
      A(("addcol None", [["AddColumn", src, None, {"type": "Text"}]]))
      A(("addcol x2 same", [["AddColumn", src, "Dup", {"type": "Text"}],
                            ["AddColumn", src, "dup", {"type": "Text"}]]))
      A(("addtable cols collide", [["AddTable", "Wide", [{"id": "c", "type": "Int"}, {"id": "C", "type": "Int"},
                                                        {"id": "class", "type": "Int"}, {"id": None, "type": "Int"},
                                                        {"id": "id", "type": "Int"}]]]))
      if has_col(doc, src, 'A') and has_col(doc, src, 'B'):
        a, b = col_ref(doc, src, 'A'), col_ref(doc, src, 'B')
        A(("bulk rename cols", [["BulkUpdateRecord", "_grist_Tables_column", [a, b],
                                 {"colId": ["Z", "z"]}]]))
        A(("rencol A->A_B (summary names meet)", [["RenameColumn", src, "A", "A_B2"]]))
    return out


# --------------------------------------------------------------------------------------------
# W_look: lookups with every key/order spec as formula columns
# --------------------------------------------------------------------------------------------

def _spec(name, keys, order_by='__absent__', sort_by=None):
  """keys: list of (L column, Q column, mode) with mode in eq / contains / contains_empty."""
  args = []
  for (lc, qc, mode) in keys:
    if mode == 'eq':
      args.append("%s=$%s" % (lc, qc))
    elif mode == 'const_none':
      args.append("%s=None" % lc)
    elif mode == 'list_of':
      args.append("%s=list($%s)" % (lc, qc))
    elif mode == 'contains':
      args.append("%s=CONTAINS($%s)" % (lc, qc))
    else:
      args.append("%s=CONTAINS($%s, match_empty=\"\")" % (lc, qc))
  if order_by != '__absent__':
    args.append("order_by=%r" % (order_by,))
  if sort_by is not None:
    args.append("sort_by=%r" % (sort_by,))
  return {'name': name, 'keys': keys, 'order_by': order_by, 'sort_by': sort_by,
          'args': ", ".join(args)}


LOOK_SPECS = [
    _spec("k_text", [("key", "q", "eq")]),
    _spec("k_text_s1", [("key", "q", "eq")], order_by="s1"),
    _spec("k_text_ds1", [("key", "q", "eq")], order_by="-s1"),
    _spec("k_text_s2ds1", [("key", "q", "eq")], order_by=("s2", "-s1")),
    _spec("k_text_none", [("key", "q", "eq")], order_by=None),
    _spec("k_text_id", [("key", "q", "eq")], order_by="id"),
    _spec("k_text_s1id", [("key", "q", "eq")], order_by=("s1", "id")),
    _spec("k_text_sort_s1", [("key", "q", "eq")], sort_by="s1"),
    _spec("k_text_sort_ds2", [("key", "q", "eq")], sort_by="-s2"),
    _spec("k_two", [("key", "q", "eq"), ("s1", "qi", "eq")]),
    _spec("k_ref", [("ref", "qi", "eq")]),
    _spec("k_ref_ds2", [("ref", "qi", "eq")], order_by="-s2"),
    _spec("k_cont", [("lst", "q", "contains")]),
    _spec("k_cont_s1", [("lst", "q", "contains")], order_by="s1"),
    _spec("k_cont_empty", [("lst", "q", "contains_empty")]),
    _spec("k_cont_key", [("lst", "q", "contains"), ("s1", "qi", "eq")], order_by="-s2"),
    _spec("k_any", [("anyk", "q", "eq")]),
    _spec("k_bool_none", [("flag", None, "const_none")]),
    _spec("k_list_key", [("lst", "ql", "list_of")]),
    _spec("k_all_ds1", [], order_by="-s1"),
    _spec("k_all_none", [], order_by=None),
]

LOOK_SETUP = [
    [["AddTable", "L", [{"id": "key", "type": "Text"}, {"id": "lst", "type": "ChoiceList"},
                        {"id": "ref", "type": "Ref:L"}, {"id": "s1", "type": "Int"},
                        {"id": "s2", "type": "Text"}, {"id": "anyk", "type": "Any", "isFormula": False},
                        {"id": "flag", "type": "Bool"}]]],
    [["AddTable", "Q", [{"id": "q", "type": "Text"}, {"id": "qi", "type": "Int"},
                        {"id": "ql", "type": "ChoiceList"}] +
      [{"id": "r_" + sp['name'], "type": "Any", "isFormula": True,
        "formula": "list(L.lookupRecords(%s).id)" % sp['args']} for sp in LOOK_SPECS] +
      [{"id": "o_" + sp['name'], "type": "Any", "isFormula": True,
        "formula": "L.lookupOne(%s).id" % sp['args']} for sp in LOOK_SPECS]]],
    [["BulkAddRecord", "L", [None, None, None, None], {
        "key": ["a", "b", "a", ""], "lst": [["L", "a", "b"], ["L", "a"], None, ["L", "b", "b"]],
        "ref": [2, 2, 0, 1], "s1": [2, 1, 2, 1], "s2": ["x", "y", "x", "w"],
        "anyk": ["a", "b", 5, None], "flag": [True, False, False, True]}],
     ["BulkAddRecord", "Q", [None, None, None], {"q": ["a", "b", ""], "qi": [2, 1, 0],
                                                 "ql": [["L", "a", "b"], ["L", "a"], None]}]],
]


class WLook(World):
  name = 'W_look'
  setup = LOOK_SETUP

  def __init__(self, reduced=False):
    self.reduced = reduced

  def alphabet(self, doc):
    out = []
    A = out.append
    RL = rows(doc, 'L')
    RQ = rows(doc, 'Q')
    for r in RL[:2]:
      A(("upd L%d key=b" % r, [["UpdateRecord", "L", r, {"key": "b"}]]))
      A(("upd L%d s1=0" % r, [["UpdateRecord", "L", r, {"s1": 0}]]))
      A(("upd L%d s1=2" % r, [["UpdateRecord", "L", r, {"s1": 2}]]))
      A(("upd L%d lst=[b]" % r, [["UpdateRecord", "L", r, {"lst": ["L", "b"]}]]))
      A(("upd L%d lst=None" % r, [["UpdateRecord", "L", r, {"lst": None}]]))
      A(("upd L%d ref=1" % r, [["UpdateRecord", "L", r, {"ref": 1}]]))
    for r in RL[:1]:
      # an indexed cell changes from a hashable value to a list (and back)
      A(("upd L%d anyk=list" % r, [["UpdateRecord", "L", r, {"anyk": ["L", 1, 2]}]]))
      A(("upd L%d anyk=b" % r, [["UpdateRecord", "L", r, {"anyk": "b"}]]))
      A(("upd L%d flag" % r, [["UpdateRecord", "L", r, {"flag": False}]]))
    for r in RL[-1:]:
      A(("upd L%d key=a" % r, [["UpdateRecord", "L", r, {"key": "a"}]]))
      A(("upd L%d s2=zz" % r, [["UpdateRecord", "L", r, {"s2": "zz"}]]))
      # (alt text whose characters are themselves keys: a text cell must not be indexed by them)
      A(("upd L%d lst=alt" % r, [["UpdateRecord", "L", r, {"lst": "ab"}]]))
      A(("upd L%d manualSort first" % r, [["UpdateRecord", "L", r, {"manualSort": 0.5}]]))
      A(("upd L%d key+s1" % r, [["UpdateRecord", "L", r, {"key": "a", "s1": 0}]]))
    A(("add L", [["AddRecord", "L", None, {"key": "a", "lst": ["L", "a"], "ref": 2, "s1": 1, "s2": "x"}]]))
    A(("add L empty", [["AddRecord", "L", None, {}]]))
    if not self.reduced:
      A(("add L at front", [["AddRecord", "L", None, {"key": "a", "s1": 2, "s2": "x", "manualSort": 0.25}]]))
    for r in RL[:3]:
      A(("rem L%d" % r, [["RemoveRecord", "L", r]]))
    if len(RL) >= 2:
      A(("bulkupd L keys swap", [["BulkUpdateRecord", "L", RL[:2], {"key": ["b", "a"], "s1": [1, 2]}]]))
    for r in RQ[:1]:
      A(("upd Q%d q=b" % r, [["UpdateRecord", "Q", r, {"q": "b"}]]))
      A(("upd Q%d qi=1" % r, [["UpdateRecord", "Q", r, {"qi": 1}]]))
      A(("upd Q%d q=None" % r, [["UpdateRecord", "Q", r, {"q": None}]]))
    A(("add Q", [["AddRecord", "Q", None, {"q": "a", "qi": 1}]]))
    return out


# --------------------------------------------------------------------------------------------
# W_look2: life cycle of lookups (one referring row; sort columns removed / restored; order_by
# switched and switched back; a column that appears later; undo as a step of the history)
# --------------------------------------------------------------------------------------------

def _look2_formulas(ob):
  return {
      "ids": 'list(L.lookupRecords(key=$x, order_by="%s").id)' % ob,
      "first": 'L.lookupOne(key=$x, order_by="%s").id' % ob,
      "hist": 'L.lookupRecords(key=$x, order_by="%s")' % ob,
  }


LOOK2_SETUP = [
    [["AddTable", "L", [{"id": "key", "type": "Text"}, {"id": "s1", "type": "Int"},
                        {"id": "s2", "type": "Int"}, {"id": "tags", "type": "ChoiceList"},
                        {"id": "amt", "type": "Int"},
                        # a formula key column whose cell is an error when s2 is 0
                        {"id": "kk", "type": "Any", "isFormula": True, "formula": "6 // $s2"}]]],
    [["BulkAddRecord", "L", [None] * 4, {"key": ["a", "b", "a", "a"], "s1": [2, 1, 1, 3],
                                         "s2": [1, 2, 3, 0], "amt": [10, 20, 30, 40],
                                         "tags": [["L", "a"], ["L", "b"], None, ["L", "a", "b"]]}]],
    # ONE referring row: its cells are the ones whose evaluation creates each lookup index
    [["AddTable", "D", [
        {"id": "x", "type": "Text"}, {"id": "lim", "type": "Int"},
        {"id": "cnt", "type": "Any", "isFormula": True, "formula": "len(L.lookupRecords(key=$x))"},
        {"id": "ids", "type": "Any", "isFormula": True, "formula": _look2_formulas("s1")["ids"]},
        {"id": "first", "type": "Any", "isFormula": True, "formula": _look2_formulas("s1")["first"]},
        {"id": "hist", "type": "RefList:L", "isFormula": True, "formula": _look2_formulas("s1")["hist"]},
        {"id": "cur", "type": "Any", "isFormula": True, "formula": "$hist.find.le($lim).amt"},
        {"id": "zz", "type": "Any", "isFormula": True, "formula": "list(L.lookupRecords(key=$x).zz)"},
        {"id": "has", "type": "Any", "isFormula": True,
         "formula": "len(L.lookupRecords(tags=CONTAINS($x)))"},
        {"id": "byk", "type": "Any", "isFormula": True, "formula": "list(L.lookupRecords(kk=$lim).id)"},
        # names a table that does not exist yet
        {"id": "lat", "type": "Any", "isFormula": True, "formula": "len(Later.lookupRecords(y=$lim))"},
    ]]],
    [["AddRecord", "D", None, {"x": "a", "lim": 2}]],
]


class WLook2(World):
  name = 'W_look2'
  setup = LOOK2_SETUP

  def alphabet(self, doc):
    out = []
    A = out.append
    if 'L' not in doc.eng.tables or 'D' not in doc.eng.tables:
      return out
    RL = rows(doc, 'L')
    hl = lambda c: has_col(doc, 'L', c)
    if RL:
      r1 = RL[0]
      A(("upd L first key=b", [["UpdateRecord", "L", r1, {"key": "b"}]]))
      A(("upd L first tags=[b]", [["UpdateRecord", "L", r1, {"tags": ["L", "b"]}]]))
      if hl('s1'):
        A(("upd L first s1=5", [["UpdateRecord", "L", r1, {"s1": 5}]]))
      A(("rem L first", [["RemoveRecord", "L", r1]]))
    if len(RL) >= 3:
      r3 = RL[2]
      A(("upd L third key=a/b", [["UpdateRecord", "L", RL[1], {"key": "a"}]]))
      if hl('s1'):
        A(("upd L third s1=0", [["UpdateRecord", "L", r3, {"s1": 0}]]))
      if hl('s2'):
        A(("upd L third s2=9", [["UpdateRecord", "L", r3, {"s2": 9}]]))
      A(("upd L third amt=7", [["UpdateRecord", "L", r3, {"amt": 7}]]))
    add = {"key": "a", "s2": 5, "amt": 50}
    if hl('s1'):
      add["s1"] = 0
    A(("add L key=a", [["AddRecord", "L", None, add]]))
    if hl('s1'):
      A(("remcol L.s1", [["RemoveColumn", "L", "s1"]]))
    else:
      A(("addcol L.s1 + fill", [["AddColumn", "L", "s1", {"type": "Int", "isFormula": False}],
                                ["BulkUpdateRecord", "L", RL, {"s1": [(r * 2) % 3 for r in RL]}]]))
    if not hl('zz'):
      A(("addcol L.zz + fill", [["AddColumn", "L", "zz", {"type": "Int", "isFormula": False}],
                                ["BulkUpdateRecord", "L", RL, {"zz": [r * 11 for r in RL]}]]))
    rec = doc.eng.docmodel.columns.lookupOne(tableId='D', colId='ids')
    cur = 's2' if rec and 'order_by="s2"' in rec.formula else 's1'
    nxt = 's1' if cur == 's2' else 's2'
    f = _look2_formulas(nxt)
    A(("order_by -> other column", [["ModifyColumn", "D", c, {"formula": f[c]}] for c in ("ids", "first", "hist")]))
    trec = doc.eng.docmodel.columns.lookupOne(tableId='L', colId='tags')
    if trec:
      A(("modcol L.tags Text/ChoiceList", [["ModifyColumn", "L", "tags", {
          "type": "Text" if trec.type == 'ChoiceList' else "ChoiceList"}]]))
    A(("upd D x=b/a", [["UpdateRecord", "D", 1, {
        "x": "b" if doc.eng.tables['D'].get_column('x').raw_get(1) == 'a' else "a"}]]))
    A(("upd D lim=1", [["UpdateRecord", "D", 1, {"lim": 1}]]))
    if len(RL) >= 2 and hl('s2'):
      A(("upd L second s2=0/6", [["UpdateRecord", "L", RL[1], {
          "s2": 6 if doc.eng.tables['L'].get_column('s2').raw_get(RL[1]) == 0 else 0}]]))
    if 'Later' not in doc.eng.tables:
      A(("addtable Later + rows", [["AddTable", "Later", [{"id": "y", "type": "Int"}]],
                                   ["BulkAddRecord", "Later", [None, None], {"y": [2, 1]}]]))
    else:
      A(("remtable Later", [["RemoveTable", "Later"]]))
    g = getattr(doc, 'last_group', None)
    if g is not None and g.undo:
      A(("undo last", [["ApplyUndoActions", H_undo(g)]]))
    return out


def H_undo(group):
  from mc import harness as H
  return H.undo_reprs(group)


# --------------------------------------------------------------------------------------------
# W_views: widgets, pages, links, filters, field rules and display formulas that point across
# tables (what survives when a table, a widget or a summary table goes away)
# --------------------------------------------------------------------------------------------

def _dm(doc):
  return doc.eng.docmodel


def _sections_of(doc, table_id, plain=True):
  t = _dm(doc).tables.lookupOne(tableId=table_id)
  if not t:
    return []
  return sorted(s.id for s in t.viewSections if not s.isRaw and not s.isRecordCard)


def _views_setup1(doc):
  # Orders' own page gets a summary widget by item; a second page shows Cust and Orders
  o, c = table_ref(doc, 'Orders'), table_ref(doc, 'Cust')
  view = _dm(doc).tables.lookupOne(tableId='Orders').primaryViewId.id
  return [["CreateViewSection", o, view, "record", [col_ref(doc, 'Orders', 'item')], None],
          ["CreateViewSection", c, 0, "record", None, None]]


def _views_setup2(doc):
  o = table_ref(doc, 'Orders')
  view2 = max(v.id for v in _dm(doc).views.all)
  return [["CreateViewSection", o, view2, "record", None, None]]


def _views_setup3(doc):
  # link the Orders widget of page 2 to the Cust widget (select by cust), give it a saved filter;
  # a conditional rule on a field of the summary widget; a display formula on a record-card field
  view2 = max(v.id for v in _dm(doc).views.all)
  secs = {s.tableRef.tableId: s.id for s in _dm(doc).views.table.get_record(view2).viewSections}
  summ = _dm(doc).tables.lookupOne(tableId='Orders_summary_item')
  ssec = _sections_of(doc, 'Orders_summary_item')[0]
  sfield = [f.id for f in _dm(doc).view_sections.table.get_record(ssec).fields
            if f.colRef.colId == 'count'][0]
  card = _dm(doc).tables.lookupOne(tableId='Orders').recordCardViewSectionRef
  cfield = [f.id for f in card.fields if f.colRef.colId == 'cust'][0]
  return [
      ["UpdateRecord", "_grist_Views_section", secs['Orders'], {
          "linkSrcSectionRef": secs['Cust'], "linkSrcColRef": 0,
          "linkTargetColRef": col_ref(doc, 'Orders', 'cust')}],
      ["AddRecord", "_grist_Filters", None, {"viewSectionRef": secs['Orders'],
                                             "colRef": col_ref(doc, 'Orders', 'item'),
                                             "filter": '{"included": ["pen"]}', "pinned": True}],
      # (display helper first: its column row id then coincides with a row id of a record-card
      # field, the two id spaces a copy of the card's settings must keep apart)
      ["SetDisplayFormula", "Orders", cfield, None, "$cust.name"],
      ["AddEmptyRule", "Orders_summary_item", sfield, 0],
  ]


def _views_setup4(doc):
  # a second link, by a column of the SOURCE widget's table (Cust.best -> Orders rows)
  view2 = max(v.id for v in _dm(doc).views.all)
  o = table_ref(doc, 'Orders')
  return [["CreateViewSection", o, view2, "single", None, None]]


VIEWS_SETUP = [
    # (a Ref column is only wired to its target table if that table exists when it is created)
    [["AddTable", "Cust", [{"id": "name", "type": "Text"}]]],
    [["AddTable", "Orders", [{"id": "item", "type": "Text"}, {"id": "qty", "type": "Int"},
                             {"id": "cust", "type": "Ref:Cust"}]]],
    [["AddColumn", "Cust", "best", {"type": "Ref:Orders", "isFormula": False}]],
    [["BulkAddRecord", "Cust", [None, None], {"name": ["ann", "bob"]}],
     ["BulkAddRecord", "Orders", [None, None, None], {"item": ["pen", "ink", "pen"], "qty": [1, 2, 3],
                                                      "cust": [1, 2, 1]}]],
    _views_setup1,
    _views_setup2,
    _views_setup3,
    _views_setup4,
]


class WViews(World):
  name = 'W_views'
  setup = VIEWS_SETUP

  def alphabet(self, doc):
    out = []
    A = out.append
    dm = _dm(doc)
    tabs = sorted(t.tableId for t in dm.tables.all)
    for t in ('Orders', 'Cust', 'Orders_summary_item'):
      if t in tabs and not (t.startswith('Orders_summary') and False):
        if not dm.tables.lookupOne(tableId=t).summarySourceTable:
          A(("remtable %s" % t, [["RemoveTable", t]]))
    for t in tabs:
      for k, sid in enumerate(_sections_of(doc, t)):
        A(("remsection %s #%d" % (t, k), [["RemoveRecord", "_grist_Views_section", sid]]))
    for t in tabs:
      trec = dm.tables.lookupOne(tableId=t)
      if trec.summarySourceTable:
        src = trec.summarySourceTable.tableId
        for k, sid in enumerate(_sections_of(doc, t)):
          A(("regroup %s #%d -> []" % (t, k), [["UpdateSummaryViewSection", sid, []]]))
          if has_col(doc, src, 'qty'):
            A(("regroup %s #%d -> [qty]" % (t, k), [["UpdateSummaryViewSection", sid,
                                                     [col_ref(doc, src, 'qty')]]]))
          A(("detach %s #%d" % (t, k), [["DetachSummaryViewSection", sid]]))
    if 'Orders' in tabs:
      for c in ('item', 'cust', 'qty'):
        if has_col(doc, 'Orders', c):
          A(("remcol Orders.%s" % c, [["RemoveColumn", "Orders", c]]))
      A(("duptable Orders", [["DuplicateTable", "Orders", "Orders2", False]]))
      A(("add card widget Orders", [["CreateViewSection", table_ref(doc, 'Orders'),
                                     max(v.id for v in dm.views.all), "single", None, None]]))
      A(("addcol Orders.note", [["AddColumn", "Orders", "note", {"type": "Text"}]]))
    if 'Cust' in tabs and has_col(doc, 'Cust', 'name'):
      A(("remcol Cust.name", [["RemoveColumn", "Cust", "name"]]))
    for k, v in enumerate(sorted(v.id for v in dm.views.all)):
      A(("remview #%d" % k, [["RemoveView", v]]))
    for k, p in enumerate(sorted(p.id for p in dm.pages.all)[:2]):
      A(("rempage #%d" % k, [["RemoveRecord", "_grist_Pages", p]]))
    return out


# --------------------------------------------------------------------------------------------
# World sets per property family
# --------------------------------------------------------------------------------------------

ALL = {'W_rec': WRec, 'W_schema': WSchema, 'W_sum': WSum, 'W_2way': W2Way, 'W_trig': WTrig,
       'W_look': WLook, 'W_sumsum': WSumSum, 'W_pos': WPos, 'W_names': WNames, 'W_look2': WLook2, 'W_views': WViews}


def make(names):
  return [ALL[n]() for n in names]


def history_worlds(tier):
  """Worlds for the document-wide differential oracles (C01, C02, C03, C07)."""
  return make(['W_rec', 'W_schema', 'W_sum', 'W_2way', 'W_trig', 'W_look', 'W_look2'])


def formula_worlds(tier):
  return make(['W_rec', 'W_schema', 'W_sum', 'W_2way', 'W_look', 'W_look2'])


def depths(tier):
  """Depth per world for the document-wide oracles (all worlds in one run)."""
  if tier == 'quick':
    return {'W_rec': 2, 'W_schema': 2, 'W_sum': 1, 'W_2way': 1, 'W_trig': 2, 'W_look': 1, 'W_look2': 3}
  return {'W_rec': 3, 'W_schema': 2, 'W_sum': 2, 'W_2way': 2, 'W_trig': 3, 'W_look': 2, 'W_look2': 4}


def depths_for(names, quick=2, thorough=3, overrides=None):
  """Depth table for a property that owns a few worlds."""
  out = {'quick': {n: quick for n in names}, 'thorough': {n: thorough for n in names}}
  for tier, d in (overrides or {}).items():
    out[tier].update(d)
  return out
