"""./check <Cxx> [--tier quick|thorough] [--replay file]"""
import os
import sys
import json
import argparse
import importlib


def main():
  ap = argparse.ArgumentParser()
  ap.add_argument('prop')
  ap.add_argument('--tier', default=os.environ.get('VERIF_TIER') or 'quick',
                  choices=['quick', 'thorough'])
  ap.add_argument('--replay', default=None)
  args = ap.parse_args()
  mod = importlib.import_module('mc.props.%s' % args.prop)
  if args.replay:
    with open(args.replay) as f:
      viol = json.load(f)
    sys.exit(mod.replay(viol))
  from mc.evidence import Report
  report = Report(args.prop, args.tier, mod.LEVEL)
  mod.run(args.tier, report)
  sys.exit(report.finish())


if __name__ == '__main__':
  main()
