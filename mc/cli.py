"""./check <Cxx> [--tier quick|thorough] [--replay file]"""
import os
import sys
import json
import argparse
import importlib


def main():
  ap = argparse.ArgumentParser()
  ap.add_argument('prop')
  ap.add_argument('--tier', default=os.environ.get('VERIF_TIER') or 'quick',
                  choices=['quick', 'thorough'])
  ap.add_argument('--replay', default=None)
  args = ap.parse_args()
  mod = importlib.import_module('mc.props.%s' % args.prop)
  if args.replay:
    with open(args.replay) as f:
      viol = json.load(f)
    sys.exit(mod.replay(viol))
  from mc.evidence import Report
  report = Report(args.prop, args.tier, mod.LEVEL)
  try:
    mod.run(args.tier, report)
  except Exception as e:            # pylint: disable=broad-except
    # The exploration itself died: on the unchanged tree no check does, so the code under test
    # raised where the driver relies on it not to (e.g. a conversion that is no longer total while
    # the base document is built). Reported as a violation with the innermost repository frame.
    import traceback
    tb = traceback.extract_tb(e.__traceback__)
    site = next(("%s:%s" % (os.path.basename(f.filename), f.name) for f in reversed(tb)
                 if '/sandbox/grist/' in f.filename), 'driver')
    report.add_violation('%s/exploration-aborted/%s/%s' % (args.prop, type(e).__name__, site),
                         "exploration aborted by %s: %s\n%s" % (
                             type(e).__name__, e, ''.join(traceback.format_exception(type(e), e, e.__traceback__))[-1500:]),
                         kind='exploration-aborted')
    report.caps.append('aborted by exception: coverage figures are partial')
  sys.exit(report.finish())


if __name__ == '__main__':
  main()
