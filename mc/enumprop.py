"""
Glue for properties decided by exhaustive enumeration of a finite input space (level
'exploration'): counting, samples, violations, optional process pool.

Usage in a property module:

    LEVEL = 'exploration'
    def run(tier, report):
      E = Enum(report, rule='...')
      for case in all_cases(tier):
        E.count(case_key, nontrivial=...)         # case_key: hashable/JSON-able description
        ... call the real code, compare with the reference oracle ...
        if bad: E.fail('C36/<root-cause-key>', "message", case=case_repr)
      E.finish(exhaustive=True)
    def replay(viol): ... re-run viol['case'] ...; return 1 if it still fails else 0
"""
import os
import json
import multiprocessing

NPROC = int(os.environ.get('VERIF_NPROC', '0') or 0) or min(16, os.cpu_count() or 1)


class Enum(object):
  def __init__(self, report, rule, max_samples=4):
    self.report = report
    self.rule = rule
    self.evaluations = 0
    self.nontrivial = set()
    self.nontrivial_count = 0
    self.samples = []
    self.max_samples = max_samples
    self.extra = {}

  def count(self, case_key=None, nontrivial=True, sample=None):
    """One evaluated case. case_key identifies distinct cases (None: count without dedup)."""
    self.evaluations += 1
    if nontrivial:
      if case_key is None:
        self.nontrivial_count += 1
      else:
        self.nontrivial.add(case_key if isinstance(case_key, (str, int, tuple)) else
                            json.dumps(case_key, sort_keys=True, default=repr))
    if sample is not None and len(self.samples) < self.max_samples:
      self.samples.append(sample)

  def fail(self, key, message, case=None, **details):
    self.report.add_violation(key, message, case=case, **details)

  def merge(self, part):
    """Merge the dict returned by a worker's Enum.part()."""
    self.evaluations += part['evaluations']
    self.nontrivial |= set(part['nontrivial'])
    self.nontrivial_count += part['nontrivial_count']
    for s in part['samples']:
      if len(self.samples) < self.max_samples:
        self.samples.append(s)
    for v in part['violations']:
      key = v.pop('key')
      msg = v.pop('message')
      cnt = v.pop('count', 1)
      v.pop('property', None)
      self.report.add_violation(key, msg, **v)
      self.report.viol_counts[key] += cnt - 1
    for k, v in part.get('extra', {}).items():
      if isinstance(v, (int, float)):
        self.extra[k] = self.extra.get(k, 0) + v
      else:
        self.extra[k] = v

  def finish(self, exhaustive=True, **extra):
    cov = self.report.coverage
    cov.update({
        'evaluations': self.evaluations,
        'distinct_nontrivial': len(self.nontrivial) + self.nontrivial_count,
        'rule': self.rule,
        'samples': self.samples or [{'note': 'no sample recorded'}],
        'exhaustive': bool(exhaustive),
    })
    cov.update(self.extra)
    cov.update(extra)


class PartReport(object):
  """A stand-in for Report inside worker processes (collects violations only)."""

  def __init__(self, prop):
    self.prop = prop
    self.violations = {}
    self.viol_counts = {}
    self.coverage = {}

  def add_violation(self, key, message, **details):
    self.viol_counts[key] = self.viol_counts.get(key, 0) + 1
    if key not in self.violations:
      v = {'key': key, 'message': message}
      v.update(details)
      self.violations[key] = v


def part_of(enum):
  """Serializable result of a worker-side Enum built on a PartReport."""
  viols = []
  for k, v in enum.report.violations.items():
    v = dict(v)
    v['count'] = enum.report.viol_counts[k]
    viols.append(v)
  return {
      'evaluations': enum.evaluations, 'nontrivial': list(enum.nontrivial),
      'nontrivial_count': enum.nontrivial_count, 'samples': enum.samples,
      'violations': viols, 'extra': enum.extra,
  }


def pmap(func, items, chunksize=1):
  """Ordered parallel map over a fork pool (func must be a module-level function)."""
  items = list(items)
  if NPROC <= 1 or len(items) <= 1:
    return [func(x) for x in items]
  ctx = multiprocessing.get_context('fork')
  with ctx.Pool(min(NPROC, len(items))) as pool:
    return pool.map(func, items, chunksize=chunksize)
