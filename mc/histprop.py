"""Glue for properties decided by the history explorer: run() and replay() from a small spec."""
import os
import json

from mc import explore
from mc import harness as H


class HistProp(object):
  def __init__(self, prop, worlds, monitors, depth, origins=None, rule='', budget=None,
               assumptions=(), split=None, depth_by_origin=None, only_prefix=None):
    """
    worlds(tier) -> [World]; monitors(world, tier) -> [Monitor]; depth: {tier: int | {world: int}}
    origins: {tier: tuple}; budget: {tier: seconds} (a safety deadline; hitting it is reported).
    only_prefix: the monitors report only keys starting with this prefix (shared monitors).
    """
    self.prop = prop
    self.worlds = worlds
    self.monitors = monitors
    self.depth = depth
    self.origins = origins or {'quick': ('L',), 'thorough': ('L', 'I')}
    self.rule = rule
    self.budget = budget or {'quick': 900, 'thorough': 1200}
    self.assumptions = list(assumptions)
    self.split = split or {'quick': 1, 'thorough': 2}
    self.depth_by_origin = depth_by_origin or {}
    self.only_prefix = only_prefix if only_prefix is not None else prop + '/'

  def run(self, tier, report):
    worlds = self.worlds(tier)
    only = os.environ.get('VERIF_WORLDS')       # debugging aid: restrict to some worlds
    if only:
      worlds = [w for w in worlds if w.name in only.split(',')]
    depth = self.depth[tier]
    origins = self.origins[tier]
    total = explore.run(worlds, lambda w: self.monitors(w, tier), depth, origins=origins,
                        split_levels=self.split[tier], budget_s=self.budget[tier],
                        depth_by_origin=self.depth_by_origin.get(tier))
    # keep only this property's findings (shared monitors can report siblings)
    total.violations = {k: v for k, v in total.violations.items()
                        if k.startswith(self.only_prefix) or '/monitor-exception/' in k}
    explore.fill_report(report, total, worlds, depth, origins, self.rule)
    report.assumptions.extend(self.assumptions + [
        'PYTHONHASHSEED pinned; no NOW/TODAY/RAND/UUID/REQUEST formulas in the alphabets',
        'friendly_traceback replaced by the /verif/shim stub (error-message text only)',
        'histories deeper than the stated depth and values outside the alphabets are not covered',
    ])

  def replay(self, viol):
    H.check_hashseed()
    worlds = {w.name: w for w in self.worlds('thorough')}
    worlds.update({w.name: w for w in self.worlds('quick')})
    world = worlds[viol['world']]
    hist = [(l, json.dumps(b)) for (l, b) in viol['history']]
    outs = []
    for _ in range(2):       # determinism gate: the same schedule must fail the same way twice
      stats = explore.Stats()
      explore.leaf_check(world, viol['origin'], hist[:-1], hist[-1][0], hist[-1][1],
                         self.monitors(world, 'thorough'), stats)
      outs.append(sorted(k for k in stats.violations if k.startswith(self.only_prefix)))
    if outs[0] != outs[1]:
      print("HARNESS-ERROR nondeterministic replay: %s vs %s" % (outs[0], outs[1]))
      return 2
    for k in outs[0]:
      print("reproduced: %s" % k)
      print("  " + stats.violations[k]['message'][:800])
    if viol['key'] in outs[0]:
      print("VIOLATION property=%s replay=(this file) reproduced" % self.prop)
      return 1
    print("not reproduced (keys now: %s)" % outs[0])
    return 0
