"""Evidence + replay artefact + known-findings plumbing shared by all checks."""
import os
import sys
import json
import time
import hashlib

VERIF = os.path.dirname(os.path.dirname(os.path.abspath(__file__)))
# VERIF_OUT_DIR redirects evidence and replay artefacts (used when evaluating seeded mutations in a
# scratch worktree, so that the committed evidence of the unchanged tree is not overwritten).
_OUT = os.environ.get('VERIF_OUT_DIR') or VERIF
EVIDENCE_DIR = os.path.join(_OUT, 'evidence')
REPLAY_DIR = os.path.join(_OUT, 'replays')
KNOWN_FILE = os.path.join(VERIF, 'known_findings.json')


def load_known():
  try:
    with open(KNOWN_FILE) as f:
      data = json.load(f)
  except (IOError, ValueError):
    return []
  return [e for e in data.get('findings', []) if e.get('status', 'known') == 'known']


def _match(entry, viol):
  """
  A known-finding entry matches a violation when the property is the same and every constraint
  in entry['match'] holds: 'key' (exact finding key) or 'key_prefix'.
  """
  if entry.get('property') != viol['property']:
    return False
  m = entry.get('match', {})
  if 'key' in m and m['key'] != viol['key']:
    return False
  if 'key_prefix' in m and not viol['key'].startswith(m['key_prefix']):
    return False
  if 'key' not in m and 'key_prefix' not in m:
    return False
  return True


def write_replay(viol):
  d = os.path.join(REPLAY_DIR, viol['property'])
  os.makedirs(d, exist_ok=True)
  text = json.dumps(viol, sort_keys=True, indent=1, default=repr)
  h = hashlib.sha256(json.dumps([viol['property'], viol['key']], sort_keys=True).encode()).hexdigest()[:12]
  path = os.path.join(d, '%s.json' % h)
  with open(path, 'w') as f:
    f.write(text)
  return path


class Report(object):
  """Collects violations and coverage for one check run and finishes it."""

  def __init__(self, prop, tier, level):
    self.prop = prop
    self.tier = tier
    self.level = level
    self.seed = int(os.environ.get('VERIF_SEED', '0') or 0)
    self.t0 = time.time()
    self.violations = {}      # key -> first violation dict
    self.viol_counts = {}     # key -> count
    self.coverage = {}
    self.assumptions = []
    self.caps = []

  def add_violation(self, key, message, **details):
    """key: stable finding key (root-cause classifier output)."""
    self.viol_counts[key] = self.viol_counts.get(key, 0) + 1
    if key not in self.violations:
      v = {'property': self.prop, 'key': key, 'message': message}
      v.update(details)
      self.violations[key] = v

  def merge_violations(self, viols):
    for v in viols:
      key = v['key']
      self.viol_counts[key] = self.viol_counts.get(key, 0) + v.get('count', 1)
      if key not in self.violations:
        v = dict(v)
        v['property'] = self.prop
        v.pop('count', None)
        self.violations[key] = v

  def finish(self):
    known = load_known()
    new = []
    known_hit = []
    for key, v in sorted(self.violations.items()):
      entry = next((e for e in known if _match(e, v)), None)
      if entry:
        known_hit.append((entry, v))
      else:
        new.append(v)
    for entry, v in known_hit:
      print("KNOWN-FINDING: property=%s %s [key=%s, %d occurrence(s)]" % (
          self.prop, entry.get('what', v['message']), v['key'], self.viol_counts[v['key']]))
    for v in new:
      v['occurrences'] = self.viol_counts[v['key']]
      path = write_replay(v)
      print("VIOLATION property=%s replay=%s" % (self.prop, path))
      print("  key=%s" % v['key'])
      print("  %s" % (v['message'][:600],))
    cov = dict(self.coverage)
    if self.caps:
      cov['caps_hit'] = self.caps
    ev = {
        'property_id': self.prop,
        'tier': self.tier,
        'seed': self.seed,
        'level': self.level,
        'coverage': cov,
        'assumptions': self.assumptions,
        'wall_s': round(time.time() - self.t0, 2),
        'violations': len(new),
        'known_findings_reported': sorted(v['key'] for _, v in known_hit),
    }
    os.makedirs(EVIDENCE_DIR, exist_ok=True)
    path = os.path.join(EVIDENCE_DIR, '%s.json' % self.prop)
    tmp = path + '.tmp.%d' % os.getpid()
    with open(tmp, 'w') as f:
      json.dump(ev, f, indent=1, sort_keys=True, default=repr)
    os.replace(tmp, path)
    summary = {k: v for k, v in cov.items() if isinstance(v, (int, float, bool, str)) and k != 'rule'}
    print("%s %s: %s wall=%.1fs violations=%d known=%d" % (
        self.prop, self.tier, json.dumps(summary, sort_keys=True), ev['wall_s'], len(new),
        len(known_hit)))
    return 1 if new else 0
