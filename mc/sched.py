"""
Owning the engine's one internal scheduler: the order of the work list built by
Engine._make_sorted_work_items (consumed with pop() from the end by _update_loop).

The engine's own rule is kept: '#lookup' nodes are processed before all other nodes, so they stay
at the tail of the returned list; inside each class the order is a choice.
"""
import itertools
import json
import hashlib

from mc import harness as H

import engine as engine_mod      # repo module

MAX_FULL = 6      # up to 6 nodes of a class are fully permuted (720 orders)


def perms_for(n, max_full=None):
  """
  All permutations of range(n) for n <= MAX_FULL; for larger n: all permutations of the first
  MAX_FULL items (rest in default order) plus every rotation and the reversal of the whole list.
  Returns (list of tuples, capped flag).
  """
  MAX_FULL = max_full or globals()['MAX_FULL']
  if n <= 1:
    return [tuple(range(n))], False
  if n <= MAX_FULL:
    return list(itertools.permutations(range(n))), False
  out = []
  rest = tuple(range(MAX_FULL, n))
  for p in itertools.permutations(range(MAX_FULL)):
    out.append(p + rest)
  base = tuple(range(n))
  for r in range(1, n):
    out.append(base[r:] + base[:r])
  out.append(tuple(reversed(base)))
  return list(dict.fromkeys(out)), True


class Scheduler(object):
  """
  Wraps doc.eng._make_sorted_work_items.  schedule: {call_index: (perm_other, perm_lookup)} where a
  perm is a tuple of indices into the engine's default *processing* order of that class (ascending
  node order); missing calls / None keep the default order.
  """

  def __init__(self, doc, schedule=None):
    self.doc = doc
    self.schedule = schedule or {}
    self.calls = []          # [(n_other, n_lookup)]
    eng = doc.eng
    me = self

    def make_sorted_work_items(nodes):
      nodes = list(nodes)
      look = sorted(n for n in nodes if n.col_id is not None and n.col_id.startswith('#lookup'))
      other = sorted((n for n in nodes if not (n.col_id is not None and n.col_id.startswith('#lookup'))),
                     key=lambda n: (n.table_id, n.col_id or ''))
      idx = len(me.calls)
      me.calls.append((len(other), len(look)))
      po, pl = me.schedule.get(idx, (None, None))
      if po is not None and len(po) == len(other):
        other = [other[i] for i in po]
      if pl is not None and len(pl) == len(look):
        look = [look[i] for i in pl]
      # processing order = look (in order), then other (in order); the list is popped from the end
      proc = look + other
      return [engine_mod.WorkItem(n, None, []) for n in reversed(proc)]

    eng._make_sorted_work_items = make_sorted_work_items

  def remove(self):
    self.doc.eng.__dict__.pop('_make_sorted_work_items', None)


def observe(doc, group, exc):
  """Order-insensitive observation of a bundle's outcome."""
  if exc is not None:
    return {'exc': H.exc_text(exc)[:200]}
  stored = sorted(json.dumps(H.norm(a), sort_keys=True) for a in H.stored_reprs(group))
  return {
      'dump': H.canon_of_dump(doc.dump()),
      'stored': hashlib.sha256('\n'.join(stored).encode()).hexdigest()[:16],
      'n_stored': len(stored),
  }


def graph_sig(doc):
  """
  Canonical form of the engine's dependency graph (the hidden state that decides what the NEXT
  bundle recalculates).  Not an oracle by itself: a differing graph makes the explorer chain
  follow-up bundles behind the deviating schedule.
  """
  out = []
  for e in doc.eng.dep_graph._all_edges:
    r = str(e.relation)
    if ' at 0x' in r:
      r = type(e.relation).__name__
    out.append("%s.%s<-%s.%s@%s" % (e.out_node.table_id, e.out_node.col_id,
                                    e.in_node.table_id, e.in_node.col_id, r))
  out.sort()
  return hashlib.sha256('\n'.join(out).encode()).hexdigest()[:16]


def run_scheduled(doc, bundle, schedule=None):
  s = Scheduler(doc, schedule)
  try:
    g, e = doc.try_apply(bundle)
  finally:
    s.remove()
  return g, e, s.calls


def single_deviation_schedules(calls, max_full=None):
  """
  Every schedule that deviates from the default order at exactly one call: all permutations of the
  non-lookup nodes x all permutations of the lookup nodes of that call.  Yields (schedule, capped).
  """
  for idx, (no, nl) in enumerate(calls):
    if no < 2 and nl < 2:
      continue
    pos, cap_o = perms_for(no, max_full)
    pls, cap_l = perms_for(nl, max_full)
    ido, idl = tuple(range(no)), tuple(range(nl))
    # one class permuted at a time first (a cap on the number of schedules per bundle then cuts
    # the cross products, not the orders of either class), then both at once
    for po in pos:
      if po != ido:
        yield {idx: (po, idl)}, (cap_o or cap_l)
    for pl in pls:
      if pl != idl:
        yield {idx: (ido, pl)}, (cap_o or cap_l)
    for po in pos:
      for pl in pls:
        if po != ido and pl != idl:
          yield {idx: (po, pl)}, (cap_o or cap_l)
