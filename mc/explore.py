"""
History explorer: explicit-state search over the *real* transition function.

A state is identified by the history that reaches it.  Every node h+[a] is executed on a fresh
engine (base snapshot reloaded, or InitNewDoc+setup replayed), the prefix h replayed without
checks, and `a` applied under the property's monitors.  No state merging: canonical hashes are
only used to count distinct states/outcomes for the evidence.
"""
import os
import sys
import json
import time
import traceback
import multiprocessing

from mc import harness as H

NPROC = int(os.environ.get('VERIF_NPROC', '0') or 0) or min(16, os.cpu_count() or 1)


class Ctx(object):
  """What a monitor sees for one transition."""
  __slots__ = ('world', 'origin', 'hist', 'label', 'bundle', 'doc', 'pre_dump', 'group', 'exc',
               '_post_dump', 'log', 'base', 'extra')

  def __init__(self):
    self._post_dump = None
    self.extra = {}

  @property
  def post_dump(self):
    if self._post_dump is None:
      self._post_dump = self.doc.dump()
    return self._post_dump

  def invalidate_post(self):
    self._post_dump = None

  @property
  def changed(self):
    return self.pre_dump != self.post_dump

  def history_json(self):
    return [[l, json.loads(b)] for (l, b) in self.hist] + [[self.label, json.loads(self.bundle)]]

  def rebuild(self):
    """A fresh doc in the pre-state of this transition (for differential oracles)."""
    return build(self.world, self.origin, [b for (_l, b) in self.hist])[0]


class Monitor(object):
  """Base class: check(ctx) returns an iterable of (key, message) or (key, message, details)."""
  name = 'monitor'
  destructive = False

  def check(self, ctx):
    return ()


class World(object):
  name = 'world'
  setup = []          # list of bundles (JSON-able)

  def alphabet(self, doc):
    """Returns list of (label, bundle) enabled in the current state, simplest first."""
    raise NotImplementedError

  # -- cached base ----------------------------------------------------------------------------
  _base = None

  def base(self):
    if self._base is None:
      d = H.Doc.new()
      log = [H.stored_reprs(d.init_group)]
      for b in self.setup:
        g = d.apply(b(d) if callable(b) else b)
        log.append(H.stored_reprs(g))
      snap = d.snapshot()
      self._base = {'snap': snap, 'dump': d.dump(), 'init_log': log,
                    # what a document reloaded from the snapshot reports (origin L starts there)
                    'dump_L': H.Doc.load(snap).dump()}
    return self._base


def build(world, origin, prefix_bundles):
  """
  Returns (doc, log): a fresh engine in the state reached by the prefix; log is the list of
  stored-action lists of the replayed bundles (and of InitNewDoc+setup for origin I).
  """
  base = world.base()
  if origin == 'L':
    doc = H.Doc.load(base['snap'])
    log = []
  else:
    doc = H.Doc.new()
    log = [H.stored_reprs(doc.init_group)]
    for b in world.setup:
      log.append(H.stored_reprs(doc.apply(b(doc) if callable(b) else b)))
  doc.last_group = None      # the last successful bundle of the prefix (worlds may offer its undo)
  for b in prefix_bundles:
    g, _e = doc.try_apply(b)
    log.append(H.stored_reprs(g) if g is not None else [])
    if g is not None:
      doc.last_group = g
  return doc, log


class Stats(object):
  def __init__(self):
    self.transitions = 0
    self.ok = 0
    self.failed = 0
    self.changed = 0
    self.histories = 0
    self.by_depth = {}
    self.states = set()
    self.outcomes = set()
    self.violations = {}
    self.samples = []
    self.extra = {}
    self.errors = []

  def to_dict(self):
    return {
        'transitions': self.transitions, 'ok': self.ok, 'failed': self.failed,
        'changed': self.changed, 'histories': self.histories, 'by_depth': self.by_depth,
        'states': self.states, 'outcomes': self.outcomes,
        'violations': list(self.violations.values()), 'samples': self.samples[:3],
        'extra': self.extra, 'errors': self.errors[:5],
    }


def leaf_check(world, origin, hist, label, bundle, monitors, stats, doc_log=None):
  """
  Executes transition `bundle` after history `hist` (list of (label, bundle_json)) under the
  monitors.  Returns True if the bundle succeeded.
  """
  if doc_log is None:
    doc, log = build(world, origin, [b for (_l, b) in hist])
  else:
    doc, log = doc_log
  ctx = Ctx()
  ctx.world, ctx.origin, ctx.hist, ctx.label, ctx.bundle = world, origin, hist, label, bundle
  ctx.doc, ctx.log, ctx.base = doc, log, world.base()
  ctx.pre_dump = doc.dump()
  for m in monitors:
    pre = getattr(m, 'pre', None)
    if pre:
      pre(ctx)
  ctx.group, ctx.exc = doc.try_apply(bundle)
  depth = len(hist) + 1
  stats.transitions += 1
  stats.histories += 1
  stats.by_depth[depth] = stats.by_depth.get(depth, 0) + 1
  ok = ctx.exc is None
  if ok:
    stats.ok += 1
    log.append(H.stored_reprs(ctx.group))
  else:
    stats.failed += 1
    log.append([])
  try:
    post_canon = H.canon_of_dump(ctx.post_dump)
  except Exception as e:    # pylint: disable=broad-except
    post_canon = 'dump-failed:%s' % H.exc_text(e)
  stats.states.add(post_canon)
  if ok and ctx.pre_dump != ctx.post_dump:
    stats.changed += 1
  if ok:
    stats.outcomes.add(H.canon_of_dump(H.group_repr(ctx.group)) if False else post_canon)
  else:
    stats.outcomes.add('exc:' + type(ctx.exc).__name__)
  if len(stats.samples) < 3 and ok and ctx.pre_dump != ctx.post_dump:
    stats.samples.append({'world': world.name, 'origin': origin, 'history': ctx.history_json()})
  for m in sorted(monitors, key=lambda m: m.destructive):
    try:
      results = list(m.check(ctx) or ())
    except Exception as e:    # pylint: disable=broad-except
      results = [('%s/monitor-exception/%s' % (m.name, type(e).__name__),
                  "monitor %s raised %s\n%s" % (m.name, H.exc_text(e), traceback.format_exc()[-1500:]))]
    for res in results:
      key, msg = res[0], res[1]
      details = res[2] if len(res) > 2 else {}
      v = stats.violations.get(key)
      if v is None:
        v = {'key': key, 'message': msg, 'world': world.name, 'origin': origin,
             'history': ctx.history_json(), 'monitor': m.name, 'count': 0}
        v.update(details)
        stats.violations[key] = v
      v['count'] += 1
  for k, v in ctx.extra.items():
    if isinstance(v, (int, float)) and not isinstance(v, bool):
      stats.extra[k] = stats.extra.get(k, 0) + v
    elif isinstance(v, list):
      stats.extra.setdefault(k, []).extend(v)
  return ok


def explore(world, origin, hist, depth_left, monitors, stats, split, deadline):
  """
  Leaf-checks every one-step extension of `hist`, then recurses (or returns child units when
  `split`).  Returns list of child units.
  """
  children = []
  doc, log = build(world, origin, [b for (_l, b) in hist])
  alpha = [(l, json.dumps(b)) for (l, b) in world.alphabet(doc)]
  stats.extra.setdefault('alphabet_sizes', []).append(len(alpha))
  first = True
  for (label, bundle) in alpha:
    if deadline and time.time() > deadline:
      stats.extra['deadline_hit'] = stats.extra.get('deadline_hit', 0) + 1
      # depth (number of bundles) of the histories that were skipped here
      stats.extra.setdefault('deadline_depths', []).append(len(hist) + 1)
      break
    ok = leaf_check(world, origin, hist, label, bundle, monitors, stats,
                    doc_log=(doc, log) if first else None)
    first = False
    if (ok or getattr(world, 'continue_after_failure', False)) and depth_left > 1:
      nh = hist + [(label, bundle)]
      if split:
        children.append((nh, depth_left - 1))
      else:
        explore(world, origin, nh, depth_left - 1, monitors, stats, False, deadline)
  return children


# ------------------------------------------------------------------------------------------------
# Process pool driver
# ------------------------------------------------------------------------------------------------

_G = {}


def _run_unit(unit):
  (wname, origin, hist, depth_left, split) = unit
  world = _G['worlds'][wname]
  monitors = _G['monitors'](world)
  stats = Stats()
  try:
    children = explore(world, origin, hist, depth_left, monitors, stats, split, _G['deadline'])
  except Exception as e:     # pylint: disable=broad-except
    stats.errors.append("unit %s/%s/%s: %s\n%s" % (
        wname, origin, [l for (l, _b) in hist], H.exc_text(e), traceback.format_exc()[-2000:]))
    children = []
  return (wname, origin, children, stats.to_dict())


def run(worlds, monitors_factory, depth, origins=('L',), split_levels=1, budget_s=None,
        depth_by_origin=None):
  """
  worlds: list of World; monitors_factory(world) -> list of Monitor; depth: int or
  {world_name: int}.  Returns merged dict of stats.
  """
  H.check_hashseed()
  _G['worlds'] = {w.name: w for w in worlds}
  _G['monitors'] = monitors_factory
  _G['deadline'] = (time.time() + budget_s) if budget_s else None
  for w in worlds:
    w.base()      # computed once in the parent, inherited by forked workers
  units = []
  for w in worlds:
    for o in origins:
      d = depth[w.name] if isinstance(depth, dict) else depth
      if depth_by_origin and o in depth_by_origin:
        d = min(d, depth_by_origin[o])
      units.append((w.name, o, [], d, split_levels > 0))
  total = Stats()
  merged = {'units': 0}
  level = 0
  ctx = multiprocessing.get_context('fork')
  with ctx.Pool(NPROC, maxtasksperchild=40) as pool:
    while units:
      level += 1
      next_units = []
      # Largest subtrees first is unknowable; keep deterministic order.
      for (wname, origin, children, st) in pool.imap_unordered(_run_unit, units, chunksize=1):
        merged['units'] += 1
        _merge(total, st)
        for (nh, dl) in children:
          next_units.append((wname, origin, nh, dl, level < split_levels))
      units = next_units
  return total


def _merge(total, st):
  total.transitions += st['transitions']
  total.ok += st['ok']
  total.failed += st['failed']
  total.changed += st['changed']
  total.histories += st['histories']
  for k, v in st['by_depth'].items():
    total.by_depth[k] = total.by_depth.get(k, 0) + v
  total.states |= st['states']
  total.outcomes |= st['outcomes']
  for v in st['violations']:
    cur = total.violations.get(v['key'])
    if cur is None:
      total.violations[v['key']] = dict(v)
    else:
      cur['count'] += v['count']
      # keep the shortest history as the example
      if len(v['history']) < len(cur['history']):
        c = cur['count']
        total.violations[v['key']] = dict(v)
        total.violations[v['key']]['count'] = c
  for s in st['samples']:
    if len(total.samples) < 4:
      total.samples.append(s)
  for k, v in st['extra'].items():
    if isinstance(v, list):
      total.extra.setdefault(k, []).extend(v)
    elif isinstance(v, (int, float)):
      total.extra[k] = total.extra.get(k, 0) + v
    else:
      total.extra[k] = v
  total.errors.extend(st['errors'])


def fill_report(report, total, worlds, depth, origins, rule):
  """Standard model_checking coverage block from merged stats."""
  sizes = total.extra.get('alphabet_sizes', [])
  report.coverage.update({
      'states': len(total.states),
      'transitions': total.transitions,
      'traces_validated_against_impl': total.histories,
      'histories': total.histories,
      'histories_by_depth': {str(k): v for k, v in sorted(total.by_depth.items())},
      'bundles_succeeded': total.ok,
      'bundles_failed': total.failed,
      'evaluations': total.transitions,
      'distinct_nontrivial': len(total.states),
      'nontrivial_transitions': total.changed,
      'distinct_outcomes': len(total.outcomes),
      # with a deadline hit: every history shorter than the shallowest skipped one was explored
      'max_depth_completed': (depth if not total.extra.get('deadline_hit')
                              else min(total.extra.get('deadline_depths') or [1]) - 1),
      'depth': depth,
      'origins': list(origins),
      'worlds': [w.name for w in worlds],
      'alphabet_size_min_max': [min(sizes), max(sizes)] if sizes else None,
      'rule': rule,
      'samples': total.samples or [{'note': 'no state-changing transition sampled'}],
      'exhaustive': not total.extra.get('deadline_hit') and not total.errors,
  })
  if total.extra.get('deadline_hit'):
    report.caps.append('deadline hit in %d subtree(s): exploration below the stated depth is '
                       'incomplete; all histories of at most %d bundle(s) were explored (per-depth '
                       'counts in histories_by_depth)' % (
                           total.extra['deadline_hit'],
                           min(total.extra.get('deadline_depths') or [1]) - 1))
  for k, v in total.extra.items():
    if k not in ('alphabet_sizes', 'deadline_hit', 'deadline_depths'):
      report.coverage[k] = v
  if total.errors:
    report.coverage['harness_errors'] = total.errors[:5]
  report.merge_violations(total.violations.values())
  if total.errors:
    report.add_violation('harness-error', "explorer unit failed: %s" % total.errors[0][:1500])
