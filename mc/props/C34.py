"""C34 Time zone conversions round-trip (exhaustive over the bundled zone data).

Space: every zone of sandbox/grist/tzdata.data x every transition instant of its table x probe
offsets around it (plus fixed range-end instants per zone), for three clauses:
  ts     dt_to_ts(ts_to_dt(t, zone)) == t, and the local datetime carries the offset the raw
         table gives for t (reference: own scan of the raw `untils`/`offsets` arrays);
  date   ts_to_date(date_to_ts(d)) == d, and for the zone-aware form
         ts_to_dt(date_to_ts(d, zone), zone).date() == d (for dates that exist in the zone);
  local  for naive local wall times around each transition (valid, ambiguous and skipped ones)
         Zone.dt_offset / TzInfo.utcoffset returns an offset that makes the wall time a real
         instant (valid/ambiguous), or one of the two offsets adjacent to the gap (skipped);
         for ambiguous times the documented favor_offset rule is checked as well.
The reference works in integer microseconds straight from the marshalled table and never calls
moment.py.
"""
import os
import bisect
import marshal
import datetime as _dt

from mc import harness as H
from mc.enumprop import Enum, PartReport, part_of, pmap

import moment                          # the real code under test

LEVEL = 'exploration'

US = 1000000
DAY = 86400 * US
HOUR = 3600 * US
EPOCH = _dt.datetime(1970, 1, 1)
EPOCH_DATE = _dt.date(1970, 1, 1)
INF = float('inf')

# Fixed instants probed in every zone (seconds): 1900-01-01, -2**31, 0, 2**31, 2100-01-01.
RANGE_ENDS = (-2208988800, -2 ** 31, 0, 2 ** 31, 4102444800)

TS_PROBES = {   # seconds around a transition instant
    'quick': (-1, 0, 0.5, 1),
    'thorough': (-86400, -3600, -1, -0.5, 0, 0.5, 1, 3600, 86400),
}
LOCAL_PROBES = {   # microseconds around the two local readings of a transition instant
    'quick': (-1800 * US, -US, 0, US, 1800 * US),
    'thorough': (-DAY, -HOUR, -1800 * US, -US, -1, 0, 1, US, 1800 * US, HOUR, DAY),
}

_RAW = None


def raw_zones():
  """[(name, offsets east of UTC in us, transition instants in us)] read from tzdata.data."""
  global _RAW    # pylint: disable=global-statement
  if _RAW is None:
    with open(os.path.join(H.GRIST, 'tzdata.data'), 'rb') as f:
      data = marshal.load(f)
    out = []
    for (name, _abbrs, offsets, untils) in data:
      assert len(offsets) == len(untils) and untils[-1] == INF, name
      offs = [int(round(-o * 60 * US)) for o in offsets]       # minutes west -> us east
      unt = [int(round(u * 1000)) for u in untils[:-1]]         # ms -> us
      assert unt == sorted(unt) and all(abs(o) < 2 * DAY for o in offs), name
      out.append((name, offs, unt))
    _RAW = out
  return _RAW


class RefZone(object):
  """Reference reading of one zone's raw table. Period i lasts [unt[i-1], unt[i]) with offs[i]."""

  def __init__(self, name, offs, unt):
    self.name, self.offs, self.unt = name, offs, unt

  def period_at(self, t_us):
    i = 0
    while i < len(self.unt) and self.unt[i] <= t_us:    # plain scan, no shared code with moment.py
      i += 1
    return i

  def candidates(self, w_us):
    """Indices of periods that can possibly contain the local wall time w (|offset| < 2 days)."""
    lo = bisect.bisect_right(self.unt, w_us - 2 * DAY)
    hi = bisect.bisect_right(self.unt, w_us + 2 * DAY)
    return range(lo, hi + 1)

  def start(self, i):
    return -INF if i == 0 else self.unt[i - 1]

  def end(self, i):
    return INF if i == len(self.unt) else self.unt[i]

  def valid_periods(self, w_us):
    """Periods i in which some real instant reads w on the local clock."""
    return [i for i in self.candidates(w_us)
            if self.start(i) <= w_us - self.offs[i] < self.end(i)]

  def gap_periods(self, w_us):
    """For a skipped wall time: the (before, after) period pairs around the gap(s) holding it."""
    out = []
    for i in self.candidates(w_us):
      if i < len(self.unt) and self.unt[i] + self.offs[i] <= w_us < self.unt[i] + self.offs[i + 1]:
        out.append((i, i + 1))
    return out

  def date_exists(self, d0_us):
    """Does any instant have a local reading within [d0, d0 + 1 day)?"""
    for i in set(self.candidates(d0_us)) | set(self.candidates(d0_us + DAY)):
      lo = self.start(i) + self.offs[i]
      hi = self.end(i) + self.offs[i]
      if lo < d0_us + DAY and hi > d0_us:
        return True
    return False


def us_of(dt_naive):
  delta = dt_naive - EPOCH
  return (delta.days * 86400 + delta.seconds) * US + delta.microseconds


def naive(w_us):
  return EPOCH + _dt.timedelta(microseconds=w_us)


def td_us(td):
  return (td.days * 86400 + td.seconds) * US + td.microseconds


def fmt_off(us):
  return "%+.4gh" % (us / float(HOUR))


# ----------------------------------------------------------------------------------------------
# The three clauses, one case each. They return None or (key, message).
# ----------------------------------------------------------------------------------------------

def check_ts(ref, t):
  zone = moment.get_zone(ref.name)
  dt = moment.ts_to_dt(t, zone)
  back = moment.dt_to_ts(dt)
  t_us = int(round(t * US))
  want = ref.offs[ref.period_at(t_us)]
  if back != t:
    return ('C34/ts-roundtrip', "%s: dt_to_ts(ts_to_dt(%r)) = %r (local %s, table offset %s)" % (
        ref.name, t, back, dt.isoformat(), fmt_off(want)))
  got = dt.utcoffset()
  if got is None or td_us(got) != want or us_of(dt.replace(tzinfo=None)) != t_us + want:
    return ('C34/ts-to-dt/offset-vs-table', "%s: ts_to_dt(%r) = %s but the table gives offset %s "
            "at that instant" % (ref.name, t, dt.isoformat(), fmt_off(want)))
  return None


def check_date_utc(d):
  ts = moment.date_to_ts(d)
  back = moment.ts_to_date(ts)
  if back != d or ts != (d - EPOCH_DATE).days * 86400:
    return ('C34/date-roundtrip/utc', "ts_to_date(date_to_ts(%s)) = %s (ts %r)" % (d, back, ts))
  return None


def check_date_zone(ref, d):
  """Returns (applicable, failure)."""
  d0 = (d - EPOCH_DATE).days * DAY
  if not ref.date_exists(d0):
    return False, None           # e.g. 2011-12-30 in Pacific/Apia: the zone skipped the whole day
  zone = moment.get_zone(ref.name)
  ts = moment.date_to_ts(d, zone)
  local = moment.ts_to_dt(ts, zone)
  if local.date() != d:
    # Two shapes of failure, told apart by the reference: the zone has no 00:00 on that day (a
    # forward jump over midnight), or 00:00 exists but an offset change lies between it and
    # 00:00 UTC of that date.
    why = 'midnight-skipped' if not ref.valid_periods(d0) else 'offset-change-near-midnight'
    return True, ('C34/date-roundtrip/zone/' + why,
                  "%s: date_to_ts(%s, zone) = %r, which is %s in that zone: a different date (%s)"
                  % (ref.name, d, ts, local.isoformat(), why))
  return True, None


def check_local(ref, w_us):
  """Returns (kind, failure) with kind in valid/ambiguous/skipped."""
  zone = moment.get_zone(ref.name)
  dt = naive(w_us)
  valid = ref.valid_periods(w_us)
  if valid:
    allowed = {ref.offs[i] for i in valid}
    kind = 'ambiguous' if len(allowed) > 1 else 'valid'
    adjacent = valid
  else:
    gaps = ref.gap_periods(w_us)
    if not gaps:
      return 'valid', ('C34/reference/no-period', "%s: reference finds neither a period nor a gap "
                       "for local %s" % (ref.name, dt.isoformat()))
    adjacent = sorted({i for g in gaps for i in g})
    allowed = {ref.offs[i] for i in adjacent}
    kind = 'skipped'
  got = td_us(zone.dt_offset(dt))
  if got not in allowed:
    return kind, ('C34/local-offset/%s' % ('not-adjacent' if kind == 'skipped' else 'not-valid'),
                  "%s: %s local time %s got offset %s; the zone uses %s around it" % (
                      ref.name, kind, dt.isoformat(), fmt_off(got),
                      sorted(fmt_off(o) for o in allowed)))
  ts = moment.dt_to_ts(dt, zone)
  if int(round(ts * US)) != w_us - got:
    return kind, ('C34/local-offset/dt-to-ts', "%s: dt_to_ts(%s, zone) = %r, not local time minus "
                  "dt_offset %s" % (ref.name, dt.isoformat(), ts, fmt_off(got)))
  # favor_offset: documented in TzInfo / _index_dt: for an ambiguous time the favoured offset wins
  # if it is the later one, otherwise the offset in effect earlier; it never matters otherwise.
  earlier = ref.offs[min(valid)] if valid else None
  for i in adjacent:
    favor = ref.offs[i]
    got_f = td_us(moment.tzinfo(ref.name, _dt.timedelta(microseconds=favor)).utcoffset(dt))
    if kind == 'ambiguous':
      want_f = favor if favor in allowed else earlier
    elif kind == 'valid':
      want_f = got
    else:
      want_f = None
    if got_f not in allowed or (want_f is not None and got_f != want_f):
      return kind, ('C34/local-offset/favor', "%s: %s local time %s with favor_offset %s got %s "
                    "(allowed %s, expected %s)" % (
                        ref.name, kind, dt.isoformat(), fmt_off(favor), fmt_off(got_f),
                        sorted(fmt_off(o) for o in allowed),
                        fmt_off(want_f) if want_f is not None else 'any of them'))
  if kind == 'ambiguous' and got != earlier:
    return kind, ('C34/local-offset/favor', "%s: ambiguous local time %s without favor_offset got "
                  "%s, documented: the earlier offset %s" % (
                      ref.name, dt.isoformat(), fmt_off(got), fmt_off(earlier)))
  return kind, None


# ----------------------------------------------------------------------------------------------

def zone_cases(ref, tier):
  """Yields ('ts', t) / ('date', date) / ('local', w_us) for one zone, deduplicated."""
  seen = set()

  def once(kind, v):
    if (kind, v) in seen:
      return False
    seen.add((kind, v))
    return True

  for t in RANGE_ENDS:
    if once('ts', t):
      yield 'ts', t, False
    d = EPOCH_DATE + _dt.timedelta(seconds=t)
    if once('date', d):
      yield 'date', d, False
    if once('local', t * US):
      yield 'local', t * US, False
  for k, u in enumerate(ref.unt):
    before, after = ref.offs[k], ref.offs[k + 1]
    changes = before != after
    secs = u // US if u % US == 0 else u / float(US)
    for p in TS_PROBES[tier]:
      if once('ts', secs + p):
        yield 'ts', secs + p, changes
    jump = abs(after - before)
    for base in (u + before, u + after):
      for p in LOCAL_PROBES[tier] + ((-jump, jump, jump // 2) if tier == 'thorough' else ()):
        if once('local', base + p):
          yield 'local', base + p, changes
      day = EPOCH_DATE + _dt.timedelta(microseconds=base)
      for dd in (-1, 0, 1):
        d = day + _dt.timedelta(days=dd)
        if once('date', d):
          yield 'date', d, changes


def run_zone(E, ref, tier, nontrivial_keys):
  kinds = E.extra
  sampled = set()
  for clause, v, near_change in zone_cases(ref, tier):
    case = {'zone': ref.name, 'clause': clause,
            'value': v.isoformat() if clause == 'date' else v}
    try:
      if clause == 'ts':
        bad = check_ts(ref, v)
        nontriv = near_change
        kinds['ts_cases'] = kinds.get('ts_cases', 0) + 1
      elif clause == 'date':
        bad = check_date_utc(v)
        applicable, bad2 = check_date_zone(ref, v)
        bad = bad or bad2
        nontriv = near_change and applicable
        kinds['date_cases'] = kinds.get('date_cases', 0) + 1
        if not applicable:
          kinds['dates_absent_in_zone'] = kinds.get('dates_absent_in_zone', 0) + 1
      else:
        kind, bad = check_local(ref, v)
        nontriv = kind != 'valid'
        kinds['local_' + kind] = kinds.get('local_' + kind, 0) + 1
    except Exception as e:   # pylint: disable=broad-except
      E.count(None, nontrivial=False)
      E.fail('C34/raised/%s/%s' % (clause, type(e).__name__),
             "%s %s %r raised %s" % (ref.name, clause, v, H.exc_text(e)), case=case)
      continue
    sample = None
    shape = clause if clause != 'local' else 'local-' + kind
    if nontriv and ref.name in SAMPLE_ZONES and (ref.name, shape) not in sampled:
      sampled.add((ref.name, shape))        # one written-out sample per zone and shape of case
      sample = dict(case)
      if clause == 'local':
        sample['local'] = naive(v).isoformat()
        sample['kind'] = kind
    E.count(None, nontrivial=False, sample=sample)
    if nontriv:
      nontrivial_keys.add((clause, v))
    if bad:
      E.fail(bad[0], bad[1], case=case)


SAMPLE_ZONES = ('America/New_York', 'Pacific/Apia', 'Australia/Lord_Howe', 'Europe/London')


def worker(args):
  tier, names = args
  E = Enum(PartReport('C34'), rule='', max_samples=16)
  by_name = {z[0]: z for z in raw_zones()}
  for name in names:
    keys = set()
    run_zone(E, RefZone(*by_name[name]), tier, keys)
    E.nontrivial_count += len(keys)      # keys are per zone, hence distinct across zones
  return part_of(E)


def chunks_of_zones(nchunks=48):
  zones = sorted(raw_zones(), key=lambda z: -len(z[2]))
  bins = [[0, []] for _ in range(nchunks)]
  for z in zones:
    b = min(bins, key=lambda b: b[0])
    b[0] += len(z[2]) + 5
    b[1].append(z[0])
  return [b[1] for b in bins if b[1]]


def run(tier, report):
  zones = raw_zones()
  E = Enum(report, max_samples=16, rule=(
      'every zone of tzdata.data (%d zones, %d transitions) x every transition instant x probes: '
      'timestamps at transition + %s s (and 5 fixed range-end instants per zone); naive local times '
      'at both local readings of each transition + %s us%s; dates = local day of each transition '
      '-1/0/+1 day. distinct = per (zone, clause, value); non-trivial = timestamp/date probes '
      'belonging to a transition that changes the offset (dates must exist in the zone), and '
      'local times that are ambiguous or skipped' % (
          len(zones), sum(len(z[2]) for z in zones), list(TS_PROBES[tier]),
          list(LOCAL_PROBES[tier]),
          ', +-offset change, + half the change' if tier == 'thorough' else '')))
  for part in pmap(worker, [(tier, names) for names in chunks_of_zones()]):
    E.merge(part)
  E.finish(exhaustive=True, zones=len(zones), transitions=sum(len(z[2]) for z in zones))
  report.assumptions.append('the marshalled table tzdata.data is the ground truth for what offsets '
                            'a zone uses (period i lasts until untils[i], offsets in minutes west)')
  report.assumptions.append('supported range = the range of the bundled table (1900..2100 probed); '
                            'timestamps are whole or half seconds')


def replay(viol):
  c = viol['case']
  by_name = {z[0]: z for z in raw_zones()}
  ref = RefZone(*by_name[c['zone']])
  v = c['value']
  try:
    if c['clause'] == 'ts':
      bad = check_ts(ref, v)
    elif c['clause'] == 'date':
      d = _dt.date.fromisoformat(v)
      bad = check_date_utc(d) or check_date_zone(ref, d)[1]
    else:
      bad = check_local(ref, v)[1]
  except Exception as e:   # pylint: disable=broad-except
    bad = ('C34/raised', H.exc_text(e))
  print("%s -> %s" % (c, bad))
  if bad:
    print("VIOLATION property=C34 replay=(this file) reproduced")
    return 1
  return 0
