"""C22 Cell value conversion is total and idempotent (exhaustive over type objects x a value catalogue).

Space: every column type object of usertypes.py (19 objects, see make_types()) x a catalogue of
adversarial Python values (build_catalogue(), ~350 labelled factories: numbers, strings, bytes, containers,
dates, Grist objects, live Records/RecordSets, hostile objects) and, per catalogue value v, the
wrappers [v] and (v,).  Tier thorough adds every two-step chain B.convert(A.convert(v)) (the value a
cell holds after a column went through type A and is converted to type B).

Oracle (written from the property statement and the type descriptions in usertypes.py):
  1. convert() does not raise;
  2. the result is a value of the type (reference predicate right_type below), or the very same
     RaisedException object that was passed in, or an alt-text `str` (a str subclass counts);
  3. converting the result again gives the same value: same class and equal (NaN equals NaN).
"""
import math
import datetime
import decimal
import fractions
import numbers

from mc import harness as H
from mc.enumprop import Enum, PartReport, part_of, pmap

import usertypes
import objtypes
import moment

LEVEL = 'exploration'

INT32 = (-(1 << 31), (1 << 31) - 1)


# ----------------------------------------------------------------------------------------------
# Type objects
# ----------------------------------------------------------------------------------------------

def make_types():
  return [
      ('Text', usertypes.Text()),
      ('Blob', usertypes.Blob()),
      ('Any', usertypes.Any()),
      ('Bool', usertypes.Bool()),
      ('Int', usertypes.Int()),
      ('Numeric', usertypes.Numeric()),
      ('Date', usertypes.Date()),
      ('DateTime:UTC', usertypes.DateTime('UTC')),
      ('DateTime:America/New_York', usertypes.DateTime('America/New_York')),
      ('DateTime:Bad/Zone', usertypes.DateTime('Bad/Zone')),
      ('Choice', usertypes.Choice()),
      ('ChoiceList', usertypes.ChoiceList()),
      ('PositionNumber', usertypes.PositionNumber()),
      ('ManualSortPos', usertypes.ManualSortPos()),
      ('Id', usertypes.Id()),
      ('Ref:T1', usertypes.Reference('T1')),
      ('RefList:T1', usertypes.ReferenceList('T1')),
      ('RefList:T2', usertypes.ReferenceList('T2')),
      ('Attachments', usertypes.Attachments()),
  ]


def _is_int32(v):
  return type(v) is int and INT32[0] <= v <= INT32[1]      # pylint: disable=unidiomatic-typecheck


def right_type(tname, v):
  """Reference predicate: does v belong to the column type (by the documented value sets)?"""
  # pylint: disable=unidiomatic-typecheck,too-many-return-statements
  base = tname.split(':')[0]
  if base == 'Any':
    return True
  if base in ('Text', 'Choice'):
    return v is None or isinstance(v, str)
  if base == 'Blob':
    return v is None or isinstance(v, bytes)
  if base == 'Bool':
    return v is None or type(v) is bool
  if base == 'Int':
    return v is None or _is_int32(v)
  if base == 'Numeric':
    return v is None or type(v) in (int, float)
  if base in ('Date', 'DateTime'):
    return v is None or (isinstance(v, (int, float)) and type(v) is not bool)
  if base == 'ChoiceList':
    return v is None or (isinstance(v, (tuple, list)) and all(isinstance(x, str) for x in v))
  if base in ('PositionNumber', 'ManualSortPos'):
    return type(v) in (int, float)
  if base in ('Id', 'Ref'):
    return _is_int32(v)
  if base in ('RefList', 'Attachments'):
    return v is None or (isinstance(v, list) and all(_is_int32(x) for x in v))
  raise AssertionError(tname)


def same_value(a, b):
  """Same class and equal; NaN equals NaN; containers element-wise; never raises."""
  if a is b:
    return True
  if type(a) is not type(b):        # pylint: disable=unidiomatic-typecheck
    return False
  try:
    if isinstance(a, float):
      return a == b or (math.isnan(a) and math.isnan(b))
    if isinstance(a, (list, tuple)):
      return len(a) == len(b) and all(same_value(x, y) for x, y in zip(a, b))
    return bool(a == b)
  except Exception:      # pylint: disable=broad-except
    return False


# ----------------------------------------------------------------------------------------------
# Hostile classes
# ----------------------------------------------------------------------------------------------

class StrRaises(object):
  def __str__(self):
    raise ValueError("no str")


class StrReprRaise(object):
  def __str__(self):
    raise ValueError("no str")

  def __repr__(self):
    raise ValueError("no repr")


class BoolRaises(object):
  def __bool__(self):
    raise ValueError("no bool")


class EqRaises(object):
  __hash__ = object.__hash__

  def __eq__(self, other):
    raise ValueError("no eq")


class IterRaises(object):
  def __iter__(self):
    yield 1
    raise ValueError("iteration broke")


class StrNotStr(object):
  def __str__(self):
    return 5


class FloatRaises(object):
  def __float__(self):
    raise ZeroDivisionError("no float")


class Floaty(object):
  def __float__(self):
    return 2.5

  def __str__(self):
    return "floaty"


class StrTrue(object):
  def __str__(self):
    return "true"


class StrSub(str):
  pass


class StrSubOdd(str):
  def __str__(self):
    return "odd"


class IntSub(int):
  pass


class FloatSub(float):
  pass


class ListSub(list):
  pass


class BaseExcRaiser(object):
  """Raising a non-Exception BaseException is out of scope; this one raises a plain Exception
  from __len__ and has no __bool__."""
  def __len__(self):
    raise RuntimeError("no len")


# ----------------------------------------------------------------------------------------------
# The live document (for Record / RecordSet values)
# ----------------------------------------------------------------------------------------------

_DOC = None


def get_doc():
  global _DOC     # pylint: disable=global-statement
  if _DOC is None:
    d = H.Doc.new()
    d.apply([
        ["AddTable", "T1", [{"id": "a", "type": "Any", "isFormula": False}]],
        ["BulkAddRecord", "T1", [1, 2, 3], {"a": [1, 2, 2]}],
        ["AddTable", "T2", [{"id": "a", "type": "Any", "isFormula": False}]],
        ["BulkAddRecord", "T2", [1, 2], {"a": [1, 2]}],
    ])
    _DOC = d
  return _DOC


def _t(name):
  return get_doc().eng.tables[name]


def _selfref():
  l = []
  l.append(l)
  return l


def _gen():
  return (x for x in ('a', 'b'))


def _exc_with_tb():
  try:
    raise KeyError("k")
  except KeyError as e:
    return objtypes.RaisedException(e, include_details=False)


def build_catalogue():
  """List of (label, factory). Labels are stable and unique; factories give a fresh value."""
  # pylint: disable=too-many-statements,unnecessary-lambda
  C = []

  def lit(*values):
    for v in values:
      C.append((repr(v) if len(repr(v)) < 60 else '%s..len%d' % (repr(v)[:20], len(repr(v))),
                (lambda v=v: v)))

  def named(label, factory):
    C.append((label, factory))

  # ints / bools
  lit(0, 1, -1, 2, 7, 255, 2 ** 31 - 1, 2 ** 31, 2 ** 31 + 1, -2 ** 31, -2 ** 31 - 1, 2 ** 53, 2 ** 53 + 1,
      2 ** 63, 10 ** 18, True, False)
  named('10**400', lambda: 10 ** 400)
  named('-10**400', lambda: -10 ** 400)
  named('10**5000', lambda: 10 ** 5000)
  # floats
  lit(0.0, -0.0, 1.0, 1.5, -1.5, 0.1, 1e15, 1e16, 2.0 ** 53, 2.0 ** 53 + 2, 1e100, 1e308, 5e-324,
      2147483647.0, 2147483648.0, 2147483647.5, -2147483648.5, -2147483649.0, 86400.0, 1577836800.0, 1e-7,
      123456789012345680.0)
  named('inf', lambda: float('inf'))
  named('-inf', lambda: float('-inf'))
  named('nan', lambda: float('nan'))
  # other numbers
  named("Decimal('0')", lambda: decimal.Decimal('0'))
  named("Decimal('1')", lambda: decimal.Decimal('1'))
  named("Decimal('1.5')", lambda: decimal.Decimal('1.5'))
  named("Decimal('NaN')", lambda: decimal.Decimal('NaN'))
  named("Decimal('Infinity')", lambda: decimal.Decimal('Infinity'))
  named("Decimal('1E+400')", lambda: decimal.Decimal('1E+400'))
  named('Fraction(1,1)', lambda: fractions.Fraction(1, 1))
  named('Fraction(1,3)', lambda: fractions.Fraction(1, 3))
  named('Fraction(0,1)', lambda: fractions.Fraction(0, 1))
  lit(1j, 0j)
  named('IntSub(5)', lambda: IntSub(5))
  named('FloatSub(1.5)', lambda: FloatSub(1.5))
  # strings
  lit('', ' ', 'a', 'abc', 'A b', '0', '1', '-1', '+1', '1.5', '1.', '.5', ' 12 ', '12\n', '1e3', '1e400',
      '-1e400', 'inf', '-inf', 'nan', 'NaN', 'Infinity', '1_000', '0x10', '1,5', '1 000',
      '١٢', '2147483647', '2147483648', '-2147483649', '9007199254740993',
      'true', 'True', 'TRUE', 'false', 'False', 'yes', 'Yes', 'no', 'No', 'on', 'off', 'null', 'None',
      '[]', '[ ]', '[1]', '[1, 2]', '[1,1]', '[0]', '[-1]', '[1.5]', '["a"]', '["a", "b"]', '[""]', '[[1]]',
      '[null]', '[true]', '[2147483648]', '[1', '[1]x', '{}', '{"a": 1}', '"a"', '[1, "a"]', '[{"a": 1}]',
      '[NaN]', '[1e400]',
      '2020-01-01', '2020-01-01T10:20:30', '2020-01-01 10:20:30', '2020-01-01T10:20:30Z',
      '2020-01-01T10:20:30+05:00', '2020-01-01T10:20:30.123456', '2020-01-01T10:20', '2020-13-45',
      '2020-02-30', '2020', '2020-01', '20200101', '0001-01-01', '9999-12-31', '9999-12-31T23:59:59-12:00',
      '0001-01-01T00:00:00+12:00', '10000-01-01', '0000-01-01', '2020-01-01T25:00:00', '2020-W01',
      '01/02/2020', '2021-03-14T02:30:00', '2021-11-07T01:30:00',
      'RecordList([1, 2], group_by=None, sort_by=None)', 'RecordList([])', 'RecordList([a])',
      'RecordList([0])', 'RecordList([-1])', 'RecordList([2147483648])', 'RecordList([1.5])',
      'RecordList([1], group_by=(\'a\',), sort_by=[2])', 'RecordList([', 'RecordList', 'T1[1]', 'T1[[1, 2]]',
      'é', '日本語', '\x00', 'a\nb', '\ud800', "b'x'", '#', 'a,b', '"a",b', '\U0001f600')
  named("'a'*1000", lambda: 'a' * 1000)
  named("'1'+'0'*400", lambda: '1' + '0' * 400)
  named("'1'+'0'*5000", lambda: '1' + '0' * 5000)
  named("'['*2000", lambda: '[' * 2000)
  named("StrSub('abc')", lambda: StrSub('abc'))
  named("StrSub('1')", lambda: StrSub('1'))
  named("StrSubOdd('abc')", lambda: StrSubOdd('abc'))
  # bytes
  lit(b'', b'a', b'12', b'1.5', b'true', b'\xff', b'\xc3\xa9', b'[1]', b'\x01\x02', b'2020-01-01', b'\x00')
  named("bytearray(b'a')", lambda: bytearray(b'a'))
  named("bytearray(b'')", lambda: bytearray(b''))
  named("memoryview(b'ab')", lambda: memoryview(b'ab'))
  # containers
  lit([], [1], [1, 2], [2, 1], [0], [1, 1], [True], [False], [1.0], [1.5], ['a'], ['a', 'b'], ['a', 'a'], [''],
      [None], [[1]], [[]], [1, 'a'], [2 ** 31], [2 ** 31 - 1], [-1], [-2 ** 31], ['1'], [b'a'], [1, None],
      (), (1,), (1, 2), ('a',), ('a', 'b'), (1, 'a'), ('',), (None,), ((1,),), (1.0,),
      {}, {'a': 1}, {1: 2}, {1: 'a'}, {'a': [1]}, {0: 0}, [{'a': [1]}], [float('inf')])
  named('[nan]', lambda: [float('nan')])
  named('(nan,)', lambda: (float('nan'),))
  named('set()', lambda: set())
  named('{1}', lambda: {1})
  named('{1,2,3}', lambda: {1, 2, 3})
  named("{'a'}", lambda: {'a'})
  named("{'a','b','c'}", lambda: {'a', 'b', 'c'})
  named('frozenset({1})', lambda: frozenset({1}))
  named('frozenset()', lambda: frozenset())
  named('range(3)', lambda: range(3))
  named('range(1,3)', lambda: range(1, 3))
  named('range(0)', lambda: range(0))
  named('generator(a,b)', _gen)
  named('iter([1,2])', lambda: iter([1, 2]))
  named('selfref-list', _selfref)
  named('[1]*1000', lambda: [1] * 1000)
  named("ListSub([1])", lambda: ListSub([1]))
  named("dict.keys", lambda: {1: 2, 3: 4}.keys())
  # dates
  D = datetime
  named('date(2020,1,1)', lambda: D.date(2020, 1, 1))
  named('date(1970,1,1)', lambda: D.date(1970, 1, 1))
  named('date(1,1,1)', lambda: D.date(1, 1, 1))
  named('date(9999,12,31)', lambda: D.date(9999, 12, 31))
  named('datetime(2020,1,1,10,20,30)', lambda: D.datetime(2020, 1, 1, 10, 20, 30))
  named('datetime(2020,1,1,10,20,30,123456)', lambda: D.datetime(2020, 1, 1, 10, 20, 30, 123456))
  named('datetime(1970,1,1)', lambda: D.datetime(1970, 1, 1))
  named('datetime(1,1,1)', lambda: D.datetime(1, 1, 1))
  named('datetime(9999,12,31,23,59,59)', lambda: D.datetime(9999, 12, 31, 23, 59, 59))
  named('datetime(2021,3,14,2,30) [NY gap]', lambda: D.datetime(2021, 3, 14, 2, 30))
  named('datetime(2021,11,7,1,30) [NY fold]', lambda: D.datetime(2021, 11, 7, 1, 30))
  named('datetime(2020,1,1,tz=utc)', lambda: D.datetime(2020, 1, 1, tzinfo=D.timezone.utc))
  named('datetime(2020,1,1,tz=+05:30)',
        lambda: D.datetime(2020, 1, 1, tzinfo=D.timezone(D.timedelta(hours=5, minutes=30))))
  named('datetime(1,1,1,tz=+14)', lambda: D.datetime(1, 1, 1, tzinfo=D.timezone(D.timedelta(hours=14))))
  named('datetime(9999,12,31,23,tz=-12)',
        lambda: D.datetime(9999, 12, 31, 23, tzinfo=D.timezone(D.timedelta(hours=-12))))
  named('datetime(2020,6,1,tz=moment NY)',
        lambda: D.datetime(2020, 6, 1, 12, tzinfo=moment.tzinfo('America/New_York')))
  named('moment.ts_to_dt(0,NY)', lambda: moment.ts_to_dt(0, moment.Zone('America/New_York')))
  named('time(1,2)', lambda: D.time(1, 2))
  named('timedelta(1)', lambda: D.timedelta(1))
  named('timedelta(0)', lambda: D.timedelta(0))
  # Grist objects
  A = objtypes.AltText
  for s in ('abc', '', '1', '1.5', 'true', 'no', '[1]', '["a"]', '[]', '2020-01-01', '2020-01-01T10:20:30',
            'inf', '2147483648', 'RecordList([1])'):
    named('AltText(%r)' % s, lambda s=s: A(s))
  named("AltText('x','Ref')", lambda: A('x', 'Ref'))
  named("AltText(5)", lambda: A(5))
  named('RaisedException(ValueError)', lambda: objtypes.RaisedException(ValueError('x')))
  named('RaisedException(None)', lambda: objtypes.RaisedException(None))
  named('RaisedException(user_input)', lambda: objtypes.RaisedException(ValueError('x'), user_input=5))
  named('RaisedException(caught)', _exc_with_tb)
  named('RaisedException decoded', lambda: objtypes.decode_object(['E', 'ValueError', 'm', 'd', {'u': 1}]))
  named('RaisedException(InvalidTypedValue)',
        lambda: objtypes.RaisedException(objtypes.InvalidTypedValue('Ref', 'x')))
  named('UnmarshallableValue', lambda: objtypes.UnmarshallableValue('<x>'))
  named('pending', lambda: objtypes._pending_sentinel)
  named('censored', lambda: objtypes._censored_sentinel)
  named('RecordStub', lambda: objtypes.RecordStub('T1', 1))
  named('RecordSetStub', lambda: objtypes.RecordSetStub('T1', [1, 2]))
  named('ReferenceLookup', lambda: objtypes.ReferenceLookup('a'))
  named('RecordList([1,2])', lambda: objtypes.RecordList([1, 2]))
  named('RecordList([])', lambda: objtypes.RecordList([]))
  named('RecordList([0])', lambda: objtypes.RecordList([0]))
  named('RecordList([1],group,sort)',
        lambda: objtypes.RecordList([1], group_by=('a',), sort_by=('a',)))
  named('RecordList([2**31])', lambda: objtypes.RecordList([2 ** 31]))
  named('InvalidTypedValue', lambda: objtypes.InvalidTypedValue('Ref', 'x'))
  named('CellError', lambda: objtypes.CellError('T1', 'a', 1, ValueError('x')))
  named('ConversionError', lambda: objtypes.ConversionError('Bool'))
  # live records
  named('Record T1[2]', lambda: _t('T1').Record(2, None))
  named('Record T1[0]', lambda: _t('T1').Record(0, None))
  named('Record T1[999]', lambda: _t('T1').Record(999, None))
  named('Record T1[2**31]', lambda: _t('T1').Record(2 ** 31, None))
  named('Record T2[1]', lambda: _t('T2').Record(1, None))
  named('Record T1.get_record(3)', lambda: _t('T1').get_record(3))
  named('RecordSet T1[1,3]', lambda: _t('T1').RecordSet([1, 3], None))
  named('RecordSet T1[3,1]', lambda: _t('T1').RecordSet([3, 1], None))
  named('RecordSet T1[]', lambda: _t('T1').RecordSet([], None))
  named('RecordSet T1[0]', lambda: _t('T1').RecordSet([0], None))
  named('RecordSet T2[1,2]', lambda: _t('T2').RecordSet([1, 2], None))
  named('RecordSet T1 lookup a=2', lambda: _t('T1').lookup_records(a=2))
  named('RecordSet T1 lookup a=2 sort -id', lambda: _t('T1').lookup_records(a=2, order_by='-id'))
  named('RecordSet T1 lookup none', lambda: _t('T1').lookup_records(a=77))
  named('[RecordSet T1, RecordSet T1]',
        lambda: [_t('T1').RecordSet([1, 2], None), _t('T1').RecordSet([2, 3], None)])
  named('[RecordSet T1, RecordSet T2]',
        lambda: [_t('T1').RecordSet([1, 2], None), _t('T2').RecordSet([1], None)])
  named('[RecordSet T1[]]', lambda: [_t('T1').RecordSet([], None)])
  named('[Record T1[2], Record T1[3]]', lambda: [_t('T1').Record(2, None), _t('T1').Record(3, None)])
  named('[Record T1[2], Record T2[1]]', lambda: [_t('T1').Record(2, None), _t('T2').Record(1, None)])
  named('(Record T1[2],)', lambda: (_t('T1').Record(2, None),))
  named('UserTable T1', lambda: _t('T1').user_table)
  # hostile / odd objects
  for cls in (StrRaises, StrReprRaise, BoolRaises, EqRaises, IterRaises, StrNotStr, FloatRaises, Floaty,
              StrTrue, BaseExcRaiser):
    named(cls.__name__ + '()', cls)
  named('[StrRaises()]', lambda: [StrRaises()])
  named('[StrReprRaise()]', lambda: [StrReprRaise()])
  named('{"a": StrReprRaise()}', lambda: {"a": StrReprRaise()})
  named('object()', object)
  named('int (class)', lambda: int)
  named('len (builtin)', lambda: len)
  named('lambda', lambda: (lambda: 1))
  named('NotImplemented', lambda: NotImplemented)
  named('Ellipsis', lambda: Ellipsis)
  named('math (module)', lambda: math)
  named('ValueError("1")', lambda: ValueError("1"))
  named('slice(1,2)', lambda: slice(1, 2))

  labels = [l for l, _ in C]
  assert len(labels) == len(set(labels)), [l for l in labels if labels.count(l) > 1]
  return C


WRAPS = ('v', '[v]', '(v,)')


def wrap(kind, v):
  if kind == 'v':
    return v
  if kind == '[v]':
    return [v]
  return (v,)


def show(v):
  s = objtypes.safe_repr(v)
  return s if len(s) <= 120 else s[:60] + '...' + s[-30:] + ' (len %d)' % len(s)


def classify(r):
  return 'alttext' if isinstance(r, str) else type(r).__name__


def family(v):
  """Coarse class of an input value, used in finding keys only."""
  if isinstance(v, objtypes.AltText):
    return 'AltText'
  if isinstance(v, numbers.Number):
    return 'number'
  if isinstance(v, (str, bytes, bytearray)):
    return 'text'
  if isinstance(v, (list, tuple, set, frozenset, dict)):
    return 'container'
  if isinstance(v, (datetime.date, datetime.time, datetime.timedelta)):
    return 'date'
  return 'object'


def code_owner(tobj):
  """Name of the class whose do_convert the type object runs (used in finding keys only, so that
  e.g. ManualSortPos/PositionNumber or Ref/Id, which share one do_convert, share keys)."""
  for c in type(tobj).__mro__:
    if 'do_convert' in c.__dict__:
      return c.__name__
  return type(tobj).__name__


def check_convert(tname, tobj, v):
  """One conversion obligation. Returns (result, None) or (None, (key, message))."""
  base = code_owner(tobj)
  try:
    r1 = tobj.convert(v)
  except Exception as e:     # pylint: disable=broad-except
    return None, ('C22/raised/%s/%s' % (base, type(e).__name__),
                  "%s.convert(%s) raised %s" % (tname, show(v), H.exc_text(e)))
  if isinstance(v, objtypes.RaisedException):
    if r1 is not v:
      return None, ('C22/error-not-preserved/%s' % base,
                    "%s.convert(<RaisedException>) returned %s, not the same error object" % (
                        tname, show(r1)))
    return r1, None
  if not (right_type(tname, r1) or isinstance(r1, str)):
    return None, ('C22/wrong-type/%s/%s' % (base, 'input-passed-through' if r1 is v else
                                            type(r1).__name__),
                  "%s.convert(%s) returned %s (%s): neither a %s value, nor alt-text str" % (
                      tname, show(v), show(r1), type(r1).__name__, tname))
  try:
    r2 = tobj.convert(r1)
  except Exception as e:     # pylint: disable=broad-except
    return None, ('C22/raised-on-reconvert/%s/%s' % (base, type(e).__name__),
                  "%s.convert(%s) = %s, converting that again raised %s" % (
                      tname, show(v), show(r1), H.exc_text(e)))
  if not same_value(r1, r2):
    if isinstance(r1, str) and not right_type(tname, r1):
      kind = 'alttext-reconverts/from-%s' % family(v)
    elif type(r1) is type(r2) or not _loosely_equal(r1, r2):   # pylint: disable=unidiomatic-typecheck
      kind = 'value-changes/%s-to-%s' % (type(r1).__name__, type(r2).__name__)
    else:
      kind = 'class-changes-%s-to-%s' % (type(r1).__name__, type(r2).__name__)
    return None, ('C22/not-idempotent/%s/%s' % (base, kind),
                  "%s.convert(%s) = %s (%s) but converting that again gives %s (%s)" % (
                      tname, show(v), show(r1), type(r1).__name__, show(r2), type(r2).__name__))
  return r1, None


def _loosely_equal(a, b):
  try:
    return bool(a == b)
  except Exception:      # pylint: disable=broad-except
    return False


def _worker(job):
  """job = (tier, list of catalogue indexes)."""
  tier, idxs = job
  E = Enum(PartReport('C22'), rule='')
  E2 = Enum(PartReport('C22'), rule='')      # chains, merged after all direct cases
  types = make_types()
  cat = build_catalogue()
  get_doc()
  for i in idxs:
    label, factory = cat[i]
    for w in WRAPS:
      for tname, tobj in types:
        v = wrap(w, factory())
        r1, bad = check_convert(tname, tobj, v)
        key = (tname, w, label)
        E.count(key, nontrivial=bad is not None or r1 is not v,
                sample={'type': tname, 'value': label, 'wrap': w, 'result': show(r1)}
                if (i % 37 == 5 and w == 'v' and tname in ('Int', 'RefList:T1')) else None)
        if bad:
          E.fail(bad[0], bad[1], case={'chain': [tname], 'wrap': w, 'value': label})
          continue
        if tier != 'thorough':
          continue
        # two-step chains: the value after type A, converted to type B
        for tname2, tobj2 in types:
          if tname2 == tname:
            continue
          v2 = tobj.convert(wrap(w, factory()))
          r2, bad2 = check_convert(tname2, tobj2, v2)
          E2.count((tname, tname2, w, label), nontrivial=bad2 is not None or r2 is not v2)
          if bad2:
            E2.fail(bad2[0],
                   "after %s.convert(%s): %s" % (tname, show(wrap(w, factory())), bad2[1]),
                   case={'chain': [tname, tname2], 'wrap': w, 'value': label})
  return part_of(E), part_of(E2)


def run(tier, report):
  cat = build_catalogue()
  types = make_types()
  E = Enum(report, rule=(
      'every type object (%d: %s) x every catalogue value (%d labelled values) x wrappers v,[v],(v,)%s; '
      'oracle: convert never raises, result is right-type by a reference predicate / the same '
      'RaisedException object / an alt-text str, and convert(result) is the same value (same class, '
      'equal, NaN==NaN); non-trivial = the result is not the input object' % (
          len(types), ', '.join(t for t, _ in types), len(cat),
          '; plus every two-step chain B.convert(A.convert(v)), A != B' if tier == 'thorough' else '')),
           max_samples=6)
  nchunks = 16 if tier == 'thorough' else 8
  chunks = [(tier, list(range(k, len(cat), nchunks))) for k in range(nchunks)]
  parts = pmap(_worker, chunks)
  for direct, _chain in parts:
    E.merge(direct)
  for _direct, chain in parts:
    E.merge(chain)
  E.finish(exhaustive=True, catalogue_values=len(cat), type_objects=len(types))
  report.assumptions.append('values are limited to the labelled catalogue in mc/props/C22.py; objects '
                            'raising BaseException (not Exception) subclasses are out of scope')
  report.assumptions.append('GRIST_TRUTHY_VALUES / GRIST_FALSY_VALUES are unset')


def replay(viol):
  c = viol['case']
  cat = dict(build_catalogue())
  types = dict(make_types())
  get_doc()
  v = wrap(c['wrap'], cat[c['value']]())
  chain = c['chain']
  for tname in chain[:-1]:
    v = types[tname].convert(v)
    print("after %s: %s" % (tname, show(v)))
  r, bad = check_convert(chain[-1], types[chain[-1]], v)
  print("%s.convert(%s) -> %s ; %s" % (chain[-1], show(v), show(r), bad))
  if bad:
    print("VIOLATION property=C22 replay=(this file) reproduced")
    return 1
  return 0
