"""
C18 Circular references terminate and are reported on the cycle.

Enumerates EVERY dependency graph over k formula columns of one table: column i's formula is
`$x + sum($c_j for j in S_i)` for every choice of subsets S_i (k=3: 512 graphs; k=4: 65536), in
two variants: all references within the row, or the first reference of the first referencing
column going through `$peer` (a Ref to the other row).  Two rows.  The graph-theoretic oracle is
evaluated on the enumerated graph, not on engine data: cell on a cycle => CircularRefError; cell
that neither lies on nor reaches a cycle => value of a 5-line evaluator; cell that reaches a cycle
but is not on it => some error.  Checked after the initial calculation and after editing x.
"""
import json
import itertools

from mc import harness as H
from mc import explore
from mc.enumprop import Enum, PartReport, part_of, pmap

LEVEL = 'model_checking'
X = {1: 10, 2: 20}
X2 = {1: 11, 2: 20}


def graphs(k):
  """Yields tuples S (S[i] = tuple of referenced column indices) for every graph on k columns."""
  subsets = [tuple(j for j in range(k) if mask >> j & 1) for mask in range(2 ** k)]
  for combo in itertools.product(subsets, repeat=k):
    yield combo


def variants(S):
  """'row': all edges within the row. 'peer': the first edge of the first referencing column goes
  through $peer."""
  yield 'row', None
  for i, s in enumerate(S):
    if s:
      yield 'peer', (i, s[0])
      break


def formula(i, S, peer_edge):
  terms = ['$x']
  for j in S[i]:
    if peer_edge == (i, j):
      terms.append('$peer.c%d' % j)
    else:
      terms.append('$c%d' % j)
  return ' + '.join(terms)


def bundle_for(S, peer_edge):
  k = len(S)
  cols = [{"id": "x", "type": "Int"}, {"id": "peer", "type": "Ref:G"}]
  cols += [{"id": "c%d" % i, "type": "Any", "isFormula": True, "formula": formula(i, S, peer_edge)}
           for i in range(k)]
  return [["AddTable", "G", cols],
          ["BulkAddRecord", "G", [1, 2], {"x": [X[1], X[2]], "peer": [2, 1]}]]


def analyse(S, peer_edge, xs):
  """Reference: returns {(row, i): ('cycle' | 'reaches' | ('value', v))}."""
  k = len(S)
  nodes = [(r, i) for r in (1, 2) for i in range(k)]
  succ = {}
  for (r, i) in nodes:
    out = []
    for j in S[i]:
      rr = (3 - r) if peer_edge == (i, j) else r
      out.append((rr, j))
    succ[(r, i)] = out

  def reach(n):
    seen = set()
    stack = list(succ[n])
    while stack:
      m = stack.pop()
      if m in seen:
        continue
      seen.add(m)
      stack.extend(succ[m])
    return seen
  reachable = {n: reach(n) for n in nodes}
  on_cycle = {n for n in nodes if n in reachable[n]}
  out = {}
  memo = {}

  def val(n):
    if n not in memo:
      memo[n] = xs[n[0]] + sum(val(m) for m in succ[n])
    return memo[n]
  for n in nodes:
    if n in on_cycle:
      out[n] = 'cycle'
    elif reachable[n] & on_cycle:
      out[n] = 'reaches'
    else:
      out[n] = ('value', val(n))
  return out


_BASE = {}


def base_snap():
  if 'snap' not in _BASE:
    d = H.Doc.new()
    _BASE['snap'] = d.snapshot()
  return _BASE['snap']


def check_doc(doc, S, peer_edge, xs, stage):
  """Returns None or (key, message)."""
  want = analyse(S, peer_edge, xs)
  rows = doc.dump()['G']['rows']
  for (r, i), w in sorted(want.items()):
    got = rows[r]['c%d' % i]
    is_err = isinstance(got, list) and got and got[0] == 'E'
    if w == 'cycle':
      if not (is_err and got[1] == 'CircularRefError'):
        return ('C18/on-cycle-not-circular-error/%s' % stage,
                "G[%d].c%d lies on a cycle but holds %r" % (r, i, got))
    elif w == 'reaches':
      if not is_err:
        return ('C18/depends-on-cycle-without-error/%s' % stage,
                "G[%d].c%d depends on a cycle but holds %r" % (r, i, got))
    else:
      if got != w[1]:
        return ('C18/acyclic-cell-wrong-value/%s' % stage,
                "G[%d].c%d is not involved with any cycle; expected %r, got %r" % (r, i, w[1], got))
  return None


def run_case(S, peer_edge):
  """Returns (nontrivial, failure or None)."""
  doc = H.Doc.load(base_snap())
  g, e = doc.try_apply(bundle_for(S, peer_edge))
  if e is not None:
    return True, ('C18/recalculation-raised/initial/%s' % type(e).__name__,
                  "creating the table raised %s" % H.exc_text(e))
  bad = check_doc(doc, S, peer_edge, X, 'initial')
  if bad:
    return True, bad
  g, e = doc.try_apply([["UpdateRecord", "G", 1, {"x": X2[1]}]])
  if e is not None:
    return True, ('C18/recalculation-raised/after-edit/%s' % type(e).__name__,
                  "editing x raised %s" % H.exc_text(e))
  bad = check_doc(doc, S, peer_edge, X2, 'after-edit')
  if bad:
    return True, bad
  # break the references column by column (ModifyColumn c_i -> '$x'), checking after each step:
  # cells whose cycle just disappeared must get their normal value, the others keep their error
  S2 = list(S)
  for i in range(len(S)):
    if not S2[i]:
      continue
    S2[i] = ()
    pe = peer_edge if (peer_edge and S2[peer_edge[0]]) else None
    g, e = doc.try_apply([["ModifyColumn", "G", "c%d" % i, {"formula": "$x"}]])
    if e is not None:
      return True, ('C18/recalculation-raised/after-formula-change/%s' % type(e).__name__,
                    "ModifyColumn c%d -> '$x' raised %s" % (i, H.exc_text(e)))
    bad = check_doc(doc, tuple(S2), pe, X2, 'after-formula-change')
    if bad:
      return True, (bad[0], bad[1] + " (after setting c%s to '$x' in turn, now at c%d)" % (
          [j for j in range(i + 1) if S[j]], i))
  doc = H.Doc.load(base_snap())
  doc.try_apply(bundle_for(S, peer_edge))
  doc.try_apply([["UpdateRecord", "G", 1, {"x": X2[1]}]])
  # reload without stored results and recalculate everything from scratch
  snap = {tid: json.dumps(doc.fetch(tid, formulas=tid.startswith('_grist_'))) for tid in doc.table_ids()}
  try:
    d2 = H.Doc.load(snap)
  except Exception as e2:   # pylint: disable=broad-except
    return True, ('C18/recalculation-raised/reload/%s' % type(e2).__name__,
                  "recalculating after reload raised %s" % H.exc_text(e2))
  bad = check_doc(d2, S, peer_edge, X2, 'reload')
  return True, bad


def worker(job):
  k, lo, hi = job
  E = Enum(PartReport('C18'), rule='')
  cyc = 0
  for idx, S in enumerate(itertools.islice(graphs(k), lo, hi)):
    for (vname, peer_edge) in variants(S):
      want = analyse(S, peer_edge, X)
      has_cycle = any(v == 'cycle' for v in want.values())
      cyc += has_cycle
      _nt, bad = run_case(S, peer_edge)
      E.count((S, vname), nontrivial=has_cycle,
              sample={'S': S, 'variant': vname, 'formulas': [formula(i, S, peer_edge) for i in range(k)]}
              if has_cycle and idx % 97 == 0 else None)
      if bad:
        E.fail(bad[0], "%s; graph S=%s variant=%s formulas=%s" % (
            bad[1], list(S), vname, [formula(i, S, peer_edge) for i in range(k)]),
               case={'S': [list(s) for s in S], 'peer_edge': list(peer_edge) if peer_edge else None})
  E.extra['graphs_with_cycle'] = cyc
  return part_of(E)


def run(tier, report):
  H.check_hashseed()
  k = 3 if tier == 'quick' else 4
  base_snap()
  total = (2 ** k) ** k
  step = max(1, total // (16 * 8))
  jobs = [(k, lo, min(total, lo + step)) for lo in range(0, total, step)]
  if tier == 'thorough':
    jobs = [(3, 0, 512)] + jobs
  E = Enum(report, rule='every dependency graph over k=%d formula columns of one table (each column '
                        'references any subset of the columns: %d graphs), x {all references within '
                        'the row, first reference through $peer}; 2 rows; oracle from graph theory on '
                        'the enumerated graph after the initial calculation, after editing x, after '
                        'removing the references column by column (ModifyColumn), and after a '
                        'from-scratch reload; non-trivial = the graph has a cycle' % (k, total))
  for part in pmap(worker, jobs):
    E.merge(part)
  E.finish(exhaustive=True)
  cov = report.coverage
  cov['states'] = cov['evaluations']
  cov['transitions'] = cov['evaluations'] * 3
  cov['traces_validated_against_impl'] = cov['evaluations']
  report.assumptions.append('formulas are `$x + sum of references`; cells that depend on a cycle '
                            'without lying on it must hold some error (class not specified)')


def replay(viol):
  H.check_hashseed()
  c = viol['case']
  S = tuple(tuple(s) for s in c['S'])
  pe = tuple(c['peer_edge']) if c.get('peer_edge') else None
  outs = [run_case(S, pe)[1] for _ in range(2)]
  if (outs[0] and outs[0][0]) != (outs[1] and outs[1][0]):
    print("HARNESS-ERROR nondeterministic replay")
    return 2
  print(outs[0])
  if outs[0] and outs[0][0] == viol['key']:
    print("VIOLATION property=C18 replay=(this file) reproduced")
    return 1
  return 0


# ------------------------------------------------------------------------------------------------
# Worlds for C06 (schedule permutations over cyclic documents)
# ------------------------------------------------------------------------------------------------

class WCyc(explore.World):
  def __init__(self, k, S, vname, peer_edge):
    self.name = 'W_cyc%d/%s/%s' % (k, '-'.join(''.join(map(str, s)) or '_' for s in S), vname)
    self.setup = [bundle_for(S, peer_edge)]
    self.S, self.peer_edge = S, peer_edge

  def alphabet(self, doc):
    # the edit, and every single-column repair of the cycle (follow-up bundles for C06: which
    # cell of a cycle was evaluated last depends on the order, and must not matter afterwards)
    out = [("upd x", [["UpdateRecord", "G", 1, {"x": X2[1]}]])]
    for i in range(len(self.S)):
      out.append(("repair c%d" % i, [["ModifyColumn", "G", "c%d" % i, {"formula": "$x"}]]))
    return out


def cyclic_worlds(k, limit=None):
  out = []
  for S in graphs(k):
    for (vname, pe) in variants(S):
      want = analyse(S, pe, X)
      if any(v == 'cycle' for v in want.values()):
        out.append(WCyc(k, S, vname, pe))
  return out[:limit] if limit else out
