"""C12 Summary tables are exact group-bys of their source."""
from mc.histprop import HistProp
from mc import worlds as W
from mc.monitors2 import SummaryGroupBy

LEVEL = 'model_checking'
NAMES = ['W_sum', 'W_sumsum']
D = W.depths_for(NAMES, quick=2, thorough=3, overrides={'quick': {'W_sum': 1}, 'thorough': {'W_sum': 2}})
P = HistProp('C12', lambda t: W.make(NAMES), lambda w, t: [SummaryGroupBy()], D,
             rule='all histories over W_sum (source edits, regrouping, renames/type changes/removal '
                  'of group-by sources, detach, removals in the referenced table); after every '
                  'successful bundle each summary table is compared with a reference group-by of '
                  'fetch_table(source): bijection rows<->keys (list cells contribute distinct '
                  'elements, empty list -> \'\'/0, non-list -> none), group == ascending source ids')
run, replay = P.run, P.replay
