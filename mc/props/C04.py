"""
C04 Failed bundles leave no trace (fault enumeration).

For every (state, bundle) of the worlds up to the tier depth:
 (a) natural failures: alphabet entries that raise (validation, second action failing after the
     first succeeded, unknown ids, code paths needing Node);
 (b) injected failures: the bundle is first run under counting wrappers to learn how many times each
     seam is crossed, then re-run from the same pre-state once per (seam, i) with an exception
     raised at the i-th crossing.  Seams (wrapped from the harness, /repo untouched):
       doc-before  entry of Engine.apply_doc_action (before any mutation of that doc action)
       doc-after   return of Engine.apply_doc_action (after mutation + undo bookkeeping)
       rebuild     entry of Engine.rebuild_usercode (inside schema doc actions)
       autoremove  entry of DocModel.apply_auto_removes (calc phase)
       flush       entry of ActionGroup.flush_calc_changes (end of the calc phase)
Oracle after a raised bundle: dump == pre-state dump; independently built schema == engine.schema;
assert_schema_consistent() passes; a following Calculate emits nothing; and a fixed sequence of
follow-up bundles behaves exactly as on an engine that never saw the failure.
"""
import json

from mc import harness as H
from mc.explore import Monitor
from mc.histprop import HistProp
from mc import worlds as W
from mc import refmodels as R

import action_obj        # repo module (for the flush seam)
import column as column_mod   # repo module (for the col-set seam)

LEVEL = 'fault_enumeration'
SEAMS = ('doc-before', 'doc-after', 'rebuild', 'autoremove', 'flush', 'col-set')
COLSET_CAP = 90      # per bundle: first 30, last 30 and 30 evenly spaced crossings beyond that


class InjectedFault(Exception):
  pass


class Seams(object):
  """Installs counting / one-shot faulting wrappers on one engine."""

  def __init__(self, doc, fault=None, colset=True):
    self.doc = doc
    self.colset = colset
    self.fault = fault            # (seam, i) or None
    self.counts = dict.fromkeys(SEAMS, 0)
    self.phase = 'actions'
    self.fired = None             # (seam, i, phase, doc action name)
    eng = doc.eng
    orig_apply = eng.apply_doc_action
    orig_rebuild = eng.rebuild_usercode
    orig_auto = eng.docmodel.apply_auto_removes
    orig_trig = eng._maybe_update_trigger_dependencies
    self._orig_flush = action_obj.ActionGroup.flush_calc_changes
    me = self

    def hit(seam, detail=None):
      me.counts[seam] += 1
      if me.fault and me.fired is None and me.fault == (seam, me.counts[seam]):
        me.fired = (seam, me.counts[seam], me.phase, detail)
        raise InjectedFault("%s #%d" % (seam, me.counts[seam]))

    self._depth = 0
    self._dname = None
    self._orig_set = column_mod.BaseColumn.set

    def apply_doc_action(doc_action):
      name = type(doc_action).__name__
      hit('doc-before', name)
      me._depth += 1
      saved, me._dname = me._dname, name
      try:
        r = orig_apply(doc_action)
      finally:
        me._depth -= 1
        me._dname = saved
      hit('doc-after', name)
      return r

    def col_set(col, row_id, value):
      # i-th write of a cell inside a doc action (mid-action failure)
      if me._depth > 0 and me.colset:
        hit('col-set', me._dname)
      return me._orig_set(col, row_id, value)

    def rebuild_usercode():
      hit('rebuild')
      return orig_rebuild()

    def apply_auto_removes():
      hit('autoremove')
      return orig_auto()

    def maybe_trig():
      me.phase = 'calc'
      return orig_trig()

    def flush(ag):
      hit('flush')
      return me._orig_flush(ag)

    eng.apply_doc_action = apply_doc_action
    eng.rebuild_usercode = rebuild_usercode
    eng.docmodel.apply_auto_removes = apply_auto_removes
    eng._maybe_update_trigger_dependencies = maybe_trig
    action_obj.ActionGroup.flush_calc_changes = flush
    column_mod.BaseColumn.set = col_set

  def remove(self):
    eng = self.doc.eng
    for name in ('apply_doc_action', 'rebuild_usercode', '_maybe_update_trigger_dependencies'):
      eng.__dict__.pop(name, None)
    eng.docmodel.__dict__.pop('apply_auto_removes', None)
    action_obj.ActionGroup.flush_calc_changes = self._orig_flush
    column_mod.BaseColumn.set = self._orig_set


def followups(world, doc):
  """A short fixed sequence of bundles from the world's alphabet (first, middle, last entry)."""
  al = world.alphabet(doc)
  al = [b for (l, b) in al if not l.startswith('FAIL')]
  if not al:
    return []
  picks = [al[0], al[len(al) // 2], al[-1]]
  return [json.dumps(b) for b in picks]


def _reply(g):
  """
  Reply of a follow-up bundle, modulo the order of the column list inside AddTable actions: the
  engine keeps a renamed column at the end of its in-memory schema order until the next reload
  (with or without a failure), which no listed property constrains.
  """
  r = H.group_repr(g)
  for k in ('stored', 'undo', 'calc'):
    r[k] = [[a[0], a[1], sorted(a[2], key=json.dumps)] if a and a[0] == 'AddTable' else a
            for a in r[k]]
  return r


class NoTrace(Monitor):
  name = 'no-trace'

  def __init__(self, inject=True, tier='quick'):
    self.inject = inject
    self.tier = tier

  # -- oracle ---------------------------------------------------------------------------------
  def after_failure(self, ctx, doc, pre_dump, kind, detail):
    """Yields violations for a doc on which the bundle just raised."""
    where = '%s' % kind
    if kind.startswith('injected/'):
      # root cause = (oracle, seam, phase, doc action): the bundle label is not part of the key
      vkey = lambda prop, k, _ctx, diffs=None, extra=None: '/'.join(
          [prop, k, _ctx.world.name] + ([extra] if extra else []))
    else:
      from mc.monitors import vkey as _vk
      vkey = lambda prop, k, _ctx, diffs=None, extra=None: _vk(prop, k, _ctx, None, extra)
    post = doc.dump()
    if post != pre_dump:
      diffs = H.diff_dumps(pre_dump, post)
      yield (vkey('C04', 'trace/' + where, ctx, diffs),
             "bundle %r raised (%s) but the document changed: %s" % (ctx.label, detail, '; '.join(diffs)),
             {'fault': detail})
      return
    ref, orphan = R.ref_schema(post)
    if orphan or ref != R.engine_schema(doc.eng):
      yield (vkey('C04', 'schema-differs/' + where, ctx),
             "after failed bundle %r (%s) engine.schema != metadata schema (orphans %s)" % (
                 ctx.label, detail, orphan), {'fault': detail})
      return
    try:
      doc.eng.assert_schema_consistent()
    except Exception as e:     # pylint: disable=broad-except
      yield (vkey('C04', 'assert-schema-consistent/' + where, ctx),
             "after failed bundle %r (%s): %s" % (ctx.label, detail, H.exc_text(e)), {'fault': detail})
      return
    g, e = doc.try_apply([["Calculate"]])
    if e is not None:
      yield (vkey('C04', 'calculate-raises/' + where, ctx, extra=type(e).__name__),
             "after failed bundle %r (%s) Calculate raised %s" % (ctx.label, detail, H.exc_text(e)),
             {'fault': detail})
      return
    if g.stored or g.undo:
      yield (vkey('C04', 'calculate-emits/' + where, ctx),
             "after failed bundle %r (%s) Calculate emitted %s" % (
                 ctx.label, detail, json.dumps(H.norm(H.stored_reprs(g)))[:300]), {'fault': detail})
      return
    # differential: the engine must behave as one that never saw the failure
    clean = ctx.rebuild()
    for fb in followups(ctx.world, clean):
      g1, e1 = doc.try_apply(fb)
      g2, e2 = clean.try_apply(fb)
      r1 = _reply(g1) if g1 is not None else 'exc:' + type(e1).__name__
      r2 = _reply(g2) if g2 is not None else 'exc:' + type(e2).__name__
      if r1 != r2 or doc.dump() != clean.dump():
        diffs = H.diff_dumps(clean.dump(), doc.dump())
        yield (vkey('C04', 'later-behaviour-differs/' + where, ctx),
               "after failed bundle %r (%s) the follow-up bundle %s behaves differently from a clean "
               "engine: %s" % (ctx.label, detail, fb[:120], '; '.join(diffs) or 'different reply'),
               {'fault': detail})
        return

  # -- monitor --------------------------------------------------------------------------------
  def check(self, ctx):
    n_faults = 0
    n_raised = 0
    if ctx.exc is not None:
      # natural failure on the explorer's own engine
      for v in self.after_failure(ctx, ctx.doc, ctx.pre_dump, 'natural', H.exc_text(ctx.exc)[:120]):
        yield v
      ctx.extra['natural_failures'] = 1
      return
    if not self.inject:
      return
    # counting run; the faulted re-runs become separate jobs (run in parallel by run())
    d0 = ctx.rebuild()
    s0 = Seams(d0)
    try:
      g, e = d0.try_apply(ctx.bundle)
    finally:
      s0.remove()
    if e is not None:
      return      # nondeterministic? the explorer's run succeeded; be conservative
    jobs = []
    for seam in SEAMS:
      n = s0.counts[seam]
      idxs = list(range(1, n + 1))
      if seam == 'col-set':
        if ctx.world.name not in COLSET_WORLDS[self.tier]:
          continue
        if n > COLSET_CAP:
          third = COLSET_CAP // 3
          mid = idxs[third:-third]
          step = max(1, len(mid) // third)
          idxs = idxs[:third] + mid[::step][:third] + idxs[-third:]
          ctx.extra['colset_capped_bundles'] = 1
      for i in idxs:
        jobs.append((ctx.world.name, ctx.origin, list(ctx.hist), ctx.label, ctx.bundle, seam, i))
    ctx.extra['fault_jobs'] = jobs


class _JobCtx(object):
  """Minimal stand-in for explore.Ctx inside a fault job."""

  def __init__(self, world, origin, hist, label, bundle):
    self.world, self.origin, self.hist, self.label, self.bundle = world, origin, hist, label, bundle

  def rebuild(self):
    from mc.explore import build
    return build(self.world, self.origin, [b for (_l, b) in self.hist])[0]

  def history_json(self):
    return [[l, json.loads(b)] for (l, b) in self.hist] + [[self.label, json.loads(self.bundle)]]


_WORLDS = {}


_DEADLINE = [None]
FAULT_BUDGET = {'quick': 900, 'thorough': 1500}


def run_fault_chunk(jobs):
  import time
  out = {'faults': 0, 'raised': 0, 'absorbed': 0, 'violations': [], 'skipped': {}}
  mon = NoTrace()
  pre_cache = {}
  for (wname, origin, hist, label, bundle, seam, i) in jobs:
    if _DEADLINE[0] and time.time() > _DEADLINE[0]:
      d = len(hist) + 1
      out['skipped'][d] = out['skipped'].get(d, 0) + 1
      continue
    ctx = _JobCtx(_WORLDS[wname], origin, hist, label, bundle)
    d = ctx.rebuild()
    pre_dump = d.dump()
    s = Seams(d, fault=(seam, i))
    try:
      g, e = d.try_apply(bundle)
    finally:
      s.remove()
    out['faults'] += 1
    results = []
    if s.fired is None:
      results.append(('C04/harness/fault-not-reached/%s/%s' % (wname, seam),
                      "fault %s #%d was never reached when re-running %r" % (seam, i, label), {}))
    elif e is None:
      out['absorbed'] += 1    # the injected exception was absorbed (e.g. became a cell error)
    else:
      out['raised'] += 1
      fseam, fi, phase, dname = s.fired
      kind = 'injected/%s/%s%s' % (fseam, phase, ('/' + dname) if dname and (phase == 'actions' or fseam == 'col-set') else '')
      detail = '%s #%d in %s phase%s' % (fseam, fi, phase, (' at ' + dname) if dname else '')
      results = list(mon.after_failure(ctx, d, pre_dump, kind, detail))
    for res in results:
      v = {'key': res[0], 'message': res[1], 'world': wname, 'origin': origin,
           'history': ctx.history_json(), 'monitor': 'no-trace', 'count': 1}
      v.update(res[2] if len(res) > 2 else {})
      out['violations'].append(v)
  return out


NAMES = ['W_rec', 'W_schema', 'W_sum', 'W_2way', 'W_trig']
D = W.depths_for(NAMES, quick=1, thorough=2, overrides={'thorough': {'W_schema': 2, 'W_sum': 1}})

def _worlds(tier):
  ws = W.make(NAMES)
  return [W.WSchema(calc_failure=True) if w.name == 'W_schema' else w for w in ws]


COLSET_WORLDS = {'quick': ('W_rec', 'W_2way', 'W_trig'), 'thorough': ('W_rec', 'W_2way', 'W_trig', 'W_schema', 'W_sum')}

P = HistProp('C04', _worlds, lambda w, t: [NoTrace(tier=t)], D,
             origins={'quick': ('L',), 'thorough': ('L',)},
             rule='for every (state, bundle) up to the depth: natural failures + one injected '
                  'exception at every crossing of every seam (doc-before, doc-after, rebuild, '
                  'autoremove, flush, and col-set = every cell write inside a doc action, capped at 90 '
                  'crossings per bundle); oracle: the call raised => dump, schema, Calculate and the '
                  'behaviour of three follow-up bundles are exactly those of an engine that never saw '
                  'the failure; non-trivial = the faulted bundle raised after at least one seam '
                  'crossing', budget={'quick': 900, 'thorough': 1200})


def run(tier, report):
  from mc.enumprop import pmap
  P.run(tier, report)
  cov = report.coverage
  jobs = cov.pop('fault_jobs', [])
  for w in _worlds(tier):
    _WORLDS[w.name] = w
    w.base()
  # Small chunks, interleaved, so that bundles with hundreds of seam crossings spread over cores.
  nchunks = max(1, min(len(jobs), 16 * 12))
  chunks = [jobs[i::nchunks] for i in range(nchunks)]
  faults = raised = absorbed = 0
  viols = []
  skipped = {}
  import time
  _DEADLINE[0] = time.time() + FAULT_BUDGET[tier]
  for part in pmap(run_fault_chunk, chunks):
    for d, n in part.get('skipped', {}).items():
      skipped[d] = skipped.get(d, 0) + n
    faults += part['faults']
    raised += part['raised']
    absorbed += part['absorbed']
    viols.extend(part['violations'])
  report.merge_violations(viols)
  if skipped:
    report.caps.append('time budget of %d s for the fault runs: %d of %d fault runs not executed (by depth '
                       'of the faulted bundle: %s); chunks take the faults of shallower bundles first'
                       % (FAULT_BUDGET[tier], sum(skipped.values()), len(jobs),
                          {int(k): v for k, v in sorted(skipped.items())}))
    cov['exhaustive'] = False
    cov['fault_runs_skipped'] = sum(skipped.values())
  cov['faults_injected'] = faults
  cov['faulted_bundles_raised'] = raised
  cov['faults_absorbed'] = absorbed
  cov['evaluations'] = cov.get('transitions', 0) + faults
  cov['distinct_nontrivial'] = raised + cov.get('natural_failures', 0)


def replay(viol):
  H.check_hashseed()
  if 'fault' not in viol or not str(viol.get('key', '')).split('/')[2:3] == ['injected']:
    return P.replay(viol)
  import re
  m = re.match(r'(\S+) #(\d+) ', viol['fault'])
  seam, i = m.group(1), int(m.group(2))
  for w in _worlds('thorough'):
    _WORLDS[w.name] = w
  hist = [(l, json.dumps(b)) for (l, b) in viol['history']]
  job = (viol['world'], viol['origin'], hist[:-1], hist[-1][0], hist[-1][1], seam, i)
  outs = [sorted(v['key'] for v in run_fault_chunk([job])['violations']) for _ in range(2)]
  if outs[0] != outs[1]:
    print("HARNESS-ERROR nondeterministic replay: %s vs %s" % (outs[0], outs[1]))
    return 2
  print("keys now: %s" % outs[0])
  if viol['key'] in outs[0]:
    print("VIOLATION property=C04 replay=(this file) reproduced")
    return 1
  return 0
