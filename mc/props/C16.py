"""C16 Renames never change formula results; only the name tokens change in formula text.

One document (Depts / Teams / People / Other) carries ~90 formula columns drawn from a grammar of
the supported reference forms.  Every formula is written as a TEMPLATE in which each reference to a
column or table is marked (`@P.age@` = column age of People, `@P@` = table People) while look-alike
text that is not a reference (string literals, comments, attributes of unrelated objects, local
variables, keyword arguments of other functions) is left unmarked.  The expected formula text after
any history of renames is the template rendered with the current ids: that is an exact, byte-level
oracle for "only those name tokens change", independent of the code under test.

Each case starts from the same snapshot, optionally edits formulas, then applies 1 or 2 rename
bundles (RenameColumn / RenameTable / UpdateRecord of colId, label, tableId ...) with a target name
from a list of adversarial shapes, and after every rename checks
  (1) all cell values of all user tables are unchanged, keyed through the rename,
  (2) every formula text in _grist_Tables_column equals its rendered template,
      every Ref/RefList type follows table renames, all other column records keep colId/formula,
  (3) a fresh engine built from the post-rename data columns + metadata computes the same values,
  (4) metadata ids and the action's return value equal the id predicted by a small reference
      (sanitised form authored per target, disambiguation by numeric suffix).
"""
import gc
import re
import json

from mc import harness as H
from mc.enumprop import Enum, PartReport, part_of, pmap

LEVEL = 'model_checking'

TAB = {'D': 'Depts', 'T': 'Teams', 'P': 'People', 'O': 'Other', 'S': 'People_summary_team'}
TORDER = ['D', 'T', 'P', 'O']         # tables made by AddTable, which get renamed
ALLT = TORDER + ['S']                 # S: the summary table of People by team (follows renames)

# data columns: (key, type template)
DATA_COLS = {
    'D': [('dname', 'Text'), ('budget', 'Int'), ('People', 'Int')],
    'T': [('title', 'Text'), ('dept', 'Ref:@D@'), ('size', 'Int')],
    'P': [('name', 'Text'), ('age', 'Int'), ('boss', 'Ref:@P@'), ('team', 'Ref:@T@'),
          ('pals', 'RefList:@P@')],
    'O': [('name', 'Text'), ('age', 'Int'), ('team', 'Text'), ('who', 'Ref:@P@')],
}

DATA = [
    ["BulkAddRecord", "Depts", [None, None],
     {"dname": ["eng", "ops"], "budget": [100, 50], "People": [4, 1]}],
    ["BulkAddRecord", "Teams", [None] * 3,
     {"title": ["red", "blue", "green"], "dept": [1, 2, 1], "size": [3, 5, 1]}],
    ["BulkAddRecord", "People", [None] * 5,
     {"name": ["ann", "bob", "cy", "dee", "eve"], "age": [30, 20, 20, 41, 35],
      "boss": [0, 1, 1, 2, 4], "team": [1, 1, 2, 2, 1],
      "pals": [["L", 2, 3], ["L", 1], None, ["L", 1, 5], ["L", 4]]}],
    ["BulkAddRecord", "Other", [None] * 3,
     {"name": ["ann", "zed", "bob"], "age": [3, 1, 2], "team": ["x", "y", "x"], "who": [2, 0, 5]}],
]

LOOK = '@P@.lookupRecords(@P.team@=$@P.team@'

# (host, column key, family, template[, type template])
FORMULAS = [
    # --- $c / rec.c
    ('P', 'f_dollar', 'dollar', '$@P.age@ * 2'),
    ('P', 'f_rec', 'dollar', 'rec.@P.age@ + 1'),
    ('P', 'f_dollar3', 'dollar', '$@P.age@ + $@P.age@ * $@P.age@ - rec.@P.age@'),
    ('P', 'f_fcol', 'dollar', '$@P.f_dollar@ + 1'),
    # --- reference chains
    ('P', 'f_ref1', 'chain', '$@P.boss@.@P.name@'),
    ('P', 'f_ref2', 'chain', '$@P.boss@.@P.boss@.@P.name@'),
    ('P', 'f_refo', 'chain', '$@P.team@.@T.title@'),
    ('P', 'f_ref3', 'chain', 'rec.@P.team@.@T.dept@.@D.dname@'),
    ('P', 'f_bossref', 'chain', '$@P.boss@', 'Ref:@P@'),
    ('P', 'f_viafref', 'chain', '$@P.f_bossref@.@P.name@'),
    ('P', 'f_anyref', 'chain', '@P@.lookupOne(@P.name@="ann")'),
    ('P', 'f_viaany', 'chain', '$@P.f_anyref@.@P.age@'),
    ('P', 'f_localref', 'chain', 'a = $@P.boss@\nreturn a.@P.name@'),
    ('P', 'f_rl_attr', 'chain', '$@P.pals@.@P.name@'),
    ('P', 'f_retrec', 'chain', '$@P.boss@'),
    # --- lookups: keywords, result attributes
    ('P', 'f_lk_len', 'lookup', 'len(' + LOOK + '))'),
    ('P', 'f_lk_two', 'lookup', LOOK + ', @P.age@=$@P.age@).@P.name@'),
    ('P', 'f_lk_one', 'lookup', '@P@.lookupOne(@P.name@=$@P.name@).@P.age@'),
    ('P', 'f_lk_other', 'lookup', '@T@.lookupOne(@T.title@="red").@T.size@'),
    ('P', 'f_lk_chain', 'lookup',
     '@T@.lookupOne(@T.title@=$@P.team@.@T.title@).@T.dept@.@D.budget@'),
    ('P', 'f_lk_nested', 'lookup',
     '@P@.lookupOne(@P.team@=@T@.lookupOne(@T.title@="blue")).@P.name@'),
    ('P', 'f_lk_cont', 'lookup', '@P@.lookupRecords(@P.pals@=CONTAINS($id)).@P.name@'),
    ('P', 'f_lk_same', 'lookup', '@O@.lookupOne(@O.name@=$@P.name@).@O.age@'),
    ('P', 'f_lk_lit', 'lookup', '@P@.lookupOne(@P.name@="name").@P.age@'),
    ('P', 'f_lk_ret', 'lookup', LOOK + ')'),
    # --- order_by strings
    ('P', 'f_ob', 'order_by', LOOK + ', order_by="@P.age@").@P.name@'),
    ('P', 'f_ob_desc', 'order_by', LOOK + ', order_by="-@P.age@").@P.name@'),
    ('P', 'f_ob_sq', 'order_by', LOOK + ", order_by='-@P.age@').@P.name@"),
    ('P', 'f_ob_tuple', 'order_by', LOOK + ', order_by=("@P.age@", "-@P.name@")).@P.name@'),
    ('P', 'f_ob_id', 'order_by', LOOK + ', order_by=("-@P.age@", "id")).@P.name@'),
    ('P', 'f_ob_none', 'order_by', LOOK + ', order_by=None).@P.name@'),
    ('P', 'f_ob_one', 'order_by', '@P@.lookupOne(@P.boss@=$id, order_by="-@P.age@").@P.name@'),
    ('P', 'f_ob_other', 'order_by', '@O@.lookupRecords(order_by="-@O.name@").@O.age@'),
    ('P', 'f_find', 'order_by',
     LOOK + ', order_by="@P.age@").find.lt($@P.age@).@P.name@'),
    ('P', 'f_sortby', 'sort_by', LOOK + ', sort_by="-@P.age@").@P.name@'),
    # --- .all
    ('P', 'f_all', 'all', 'sum(@P@.all.@P.age@)'),
    ('P', 'f_all_len', 'all', 'len(@T@.all) + len(@P@.all)'),
    # --- comprehensions
    ('P', 'f_c_list', 'comprehension', '[r.@P.name@ for r in ' + LOOK + ')]'),
    ('P', 'f_c_set', 'comprehension', 'sorted({r.@P.age@ for r in ' + LOOK + ')})'),
    ('P', 'f_c_gen', 'comprehension', 'sum(r.@P.age@ for r in @P@.all)'),
    ('P', 'f_c_dict', 'comprehension', '{r.@P.name@: r.@P.team@.@T.title@ for r in @P@.all}'),
    ('P', 'f_c_cond', 'comprehension',
     '[r.@P.name@ for r in @P@.all if r.@P.age@ > $@P.age@]'),
    ('P', 'f_c_reflist', 'reflist-comprehension', '[p.@P.age@ for p in $@P.pals@]'),
    # --- PREVIOUS / NEXT / RANK
    ('P', 'f_prev', 'prevnext', 'PREVIOUS(rec, group_by="@P.team@", order_by="@P.age@").@P.name@'),
    ('P', 'f_next', 'prevnext',
     'NEXT(rec, group_by=("@P.team@",), order_by=("@P.age@", "-@P.name@")).@P.name@'),
    ('P', 'f_rank', 'prevnext', 'RANK(rec, group_by="@P.team@", order_by="-@P.age@")'),
    ('P', 'f_prev_ng', 'prevnext', 'PREVIOUS(rec, order_by="@P.age@").@P.age@'),
    ('P', 'f_prev_none', 'prevnext', 'PREVIOUS(rec, order_by=None).@P.name@'),
    # --- f-strings
    ('P', 'f_fs', 'fstring', 'f"{$@P.name@}:{$@P.age@}"'),
    ('P', 'f_fs_conv', 'fstring', 'f"{rec.@P.boss@.@P.name@!r} {$@P.team@.@T.title@:>5}"'),
    ('P', 'f_fs_nest', 'fstring', 'f"{$@P.name@ + \'x\'} {f\'{$@P.age@}\'} age name"'),
    ('P', 'f_fs_spec', 'fstring', 'f"{$@P.name@:{len($@P.name@) + 2}}|"'),
    ('P', 'f_fs_multi', 'fstring', 'f"""a $age\n{$@P.name@}\n  b {rec.@P.age@}"""'),
    # --- look-alikes that must not change
    ('P', 'f_lit', 'literal', '"name" + $@P.name@  # $name rec.name People Teams'),
    ('P', 'f_lit2', 'literal', '\'$age\' + str($@P.age@) + "rec.age People.all.age"'),
    ('P', 'f_mlstr', 'literal', '"""multi\nline $age name People"""\nreturn $@P.age@'),
    ('P', 'f_strmeth', 'literal', '$@P.name@.title()'),
    ('P', 'f_strmeth2', 'literal', '$@P.team@.@T.title@.title()'),
    ('P', 'f_kwarg', 'literal', 'dict(age=$@P.age@, name=1, order_by="age")["age"]'),
    ('P', 'f_dictkey', 'literal', '{"age": $@P.age@, "name": "name"}["age"]'),
    ('P', 'f_local', 'literal', 'age = $@P.age@\nreturn age + 1'),
    ('P', 'f_localtab', 'literal', 'Teams = 3\nreturn Teams + $@P.age@'),
    ('P', 'f_shadow', 'literal', '[name for name in ["a", $@P.name@]]'),
    ('P', 'f_class', 'literal', 'class K:\n  age = 7\n  name = "name"\nreturn K.age + $@P.age@'),
    ('P', 'f_syntax', 'literal', '$age + People.all.name +'),
    # --- layout: indentation, line endings, continuation, unicode, lazy IF
    ('P', 'f_indent', 'layout', '  x = $@P.age@\n  return x + rec.@P.age@'),
    ('P', 'f_crlf', 'layout', 'x = $@P.age@\r\nreturn x + rec.@P.age@'),
    ('P', 'f_tabs', 'layout',
     'if $@P.age@ > 25:\n\treturn $@P.name@\nelse:\n\treturn $@P.boss@.@P.name@'),
    ('P', 'f_cont', 'layout', '$@P.age@ + \\\n  rec.@P.age@'),
    ('P', 'f_paren', 'layout', '(\n  $@P.age@,\n  $@P.name@,\n)'),
    ('P', 'f_lead', 'layout', '\n# comment $age\n$@P.age@'),
    ('P', 'f_trail', 'layout', '$@P.age@  \n\n'),
    ('P', 'f_uni', 'layout', '"\u00d8\u00ee" + $@P.name@ + "\u00e1\u00fc" + $@P.boss@.@P.name@'),
    ('P', 'f_emoji', 'layout', '"\U0001f600" + $@P.name@ + "\U0001f600\U0001f600" + '
                               '$@P.boss@.@P.name@  # \U0001f600 $name'),
    ('P', 'f_if', 'layout', 'IF($@P.age@ > 20, $@P.name@, $@P.boss@.@P.name@)'),
    # --- other hosts
    ('T', 'f_members', 'lookup', '@P@.lookupRecords(@P.team@=$id).@P.name@'),
    ('T', 'f_nrec', 'lookup', 'len(@P@.lookupRecords(@P.team@=rec))'),
    ('T', 'f_oldest', 'order_by', '@P@.lookupRecords(@P.team@=$id, order_by="-@P.age@").@P.name@'),
    ('T', 'f_dname', 'chain', '$@T.dept@.@D.dname@'),
    ('T', 'f_ages', 'comprehension', 'sum(p.@P.age@ for p in @P@.lookupRecords(@P.team@=$id))'),
    ('T', 'f_own', 'dollar', '$@T.title@.upper() + str($@T.size@)'),
    ('D', 'f_teams', 'lookup', '@T@.lookupRecords(@T.dept@=$id).@T.title@'),
    ('D', 'f_sizes', 'lookup', 'sum(@T@.lookupRecords(@T.dept@=$id).@T.size@)'),
    ('D', 'f_coltab', 'dollar', '$@D.People@ + len(@P@.all) + rec.@D.People@'),
    ('D', 'f_big', 'comprehension',
     '[t.@T.title@ for t in @T@.lookupRecords(@T.dept@=$id, order_by="-@T.size@")]'),
    ('O', 'f_own', 'dollar', '$@O.name@ + str($@O.age@) + $@O.team@'),
    ('O', 'f_who', 'chain', '$@O.who@.@P.name@'),
    ('O', 'f_who2', 'chain', '$@O.who@.@P.team@.@T.title@'),
    ('O', 'f_prev', 'prevnext', 'PREVIOUS(rec, group_by="@O.team@", order_by="@O.age@").@O.name@'),
    ('O', 'f_lk', 'lookup', '@O@.lookupOne(@O.age@=$@O.age@).@O.team@'),
    ('O', 'f_both', 'chain',
     '$@O.name@ + "/" + $@O.who@.@P.name@ + "/" + str($@O.who@.@P.age@ + $@O.age@)'),
]
# helper columns made by SetDisplayFormula / AddEmptyRule and a trigger formula in a data column
SPECIAL = [
    ('P', 'gristHelper_Display', 'helper', '$@P.boss@.@P.name@'),
    ('P', 'gristHelper_ConditionalRule', 'helper', '$@P.age@ > 25'),
    ('P', 'nick', 'trigger', '$@P.name@.upper() + str(rec.@P.age@)'),
]
# formulas of / about the summary table of People by team (its id and its group-by column follow
# the renames of People and People.team)
SUMMARY_FORMULAS = [
    ('S', 's_sum', 'summary', 'SUM($group.@P.age@)'),
    ('S', 's_names', 'summary', 'sorted($group.@P.name@)'),
    ('S', 's_title', 'summary', '$@S.team@.@T.title@ + str($count)'),
    ('S', 's_lk', 'summary', 'len(@P@.lookupRecords(@P.team@=$@S.team@))'),
    ('S', 's_max', 'reflist-comprehension', 'MAX(r.@P.age@ for r in $group)'),
    ('P', 'f_sumlk', 'summary',
     '@S@.lookupOne(@S.team@=$@P.team@).count + @S@.lookupOne(@S.team@=rec.@P.team@).@S.s_sum@'),
]
# columns CreateViewSection makes by itself: the group-by column and the SUM column of a numeric
# source column carry the id of their source column (and follow its renames)
SUMMARY_AUTO = [
    ('S', 'team', 'data', '', 'Ref:@T@'),
    ('S', 'group', 'summary', 'table.getSummarySourceGroup(rec)', 'RefList:@P@'),
    ('S', 'count', 'summary', 'len($group)', 'Int'),
    ('S', 'age', 'summary', 'SUM($group.@P.age@)', 'Int'),
]
SUMMARY_MIRRORS = ['team', 'age']
FAMILY = {(h, c): fam for (h, c, fam) in [
    f[:3] for f in FORMULAS + SPECIAL + SUMMARY_FORMULAS + SUMMARY_AUTO]}

# entities that get renamed: every data column, the formula columns other formulas mention, tables
COL_ENTITIES = [(t, c) for t in TORDER for (c, _) in DATA_COLS[t]] + [
    ('P', 'f_dollar'), ('P', 'f_bossref'), ('P', 'f_anyref')]
TAB_ENTITIES = [(t, None) for t in TORDER]
BUSY = [('P', 'name'), ('P', 'age'), ('P', 'team'), ('T', 'title'), ('P', None), ('T', None)]

MARK = re.compile(r'@([A-Z])(?:\.(\w+))?@')

# ---------------------------------------------------------------------------------------------
# rename targets: label -> (requested name, its sanitised form), authored from the documented
# rules of identifiers.py (runs of other characters -> '_', leading '_' stripped, 'c'/'T' prefix
# for a leading digit or a keyword, accents dropped, table ids capitalised)
# ---------------------------------------------------------------------------------------------
FOREIGN_COL = {'P': 'title', 'T': 'name', 'D': 'age', 'O': 'boss'}

COL_TARGETS_QUICK = ['fresh', 'sanitise', 'collide', 'foreign', 'keyword']
COL_TARGETS_MORE = ['digit', 'accent', 'short', 'long', 'id', 'tablename', 'rec', 'loopvar',
                    'suffix', 'upper', 'same', 'manualsort', 'blank']
TAB_TARGETS_QUICK = ['fresh', 'sanitise', 'collide', 'foreign', 'keyword', 'function']
TAB_TARGETS_MORE = ['digit', 'lower', 'short', 'long', 'keyword2', 'owncol', 'suffix']

COL_PATHS_QUICK = ['RenameColumn', 'colId', 'label']
COL_PATHS_MORE = ['bulk-colId', 'label-retie']
TAB_PATHS_QUICK = ['RenameTable', 'tableId']
TAB_PATHS_MORE = ['raw-title']


def col_target(st, t, c, label):
  """(requested, sanitised) for a column rename."""
  cur = st.cols[(t, c)]
  if label == 'collide':
    keys = [k for (k, _) in DATA_COLS[t]]
    i = keys.index(c) if c in keys else -1
    other = st.cols[(t, keys[(i + 1) % len(keys)])]
    return other.upper(), other.upper()
  return {
      'fresh': ('zz_new', 'zz_new'),
      'sanitise': ('full name!', 'full_name_'),
      'foreign': (FOREIGN_COL[t], FOREIGN_COL[t]),
      'keyword': ('class', 'cclass'),
      'digit': ('2nd place', 'c2nd_place'),
      'accent': ('h\u00e9llo w\u00f6rld', 'hello_world'),
      'short': ('n', 'n'),
      'long': ('a_much_longer_column_identifier_0123456789',) * 2,
      'id': ('id', 'id'),
      'tablename': (st.tables[t], st.tables[t]),
      'rec': ('rec', 'rec'),
      'loopvar': ('r', 'r'),
      'suffix': (cur + '2', cur + '2'),
      'upper': (cur.upper(), cur.upper()),
      'same': (cur, cur),
      'manualsort': ('manualSort', 'manualSort'),
      'blank': (' !', None),          # nothing valid left: the first free letter A, B, ...
      'restore': (c, c),              # back to the original id (used as a second rename)
  }[label]


def tab_target(st, t, label):
  cur = st.tables[t]
  if label == 'collide':
    other = st.tables[TORDER[(TORDER.index(t) + 1) % len(TORDER)]]
    return other.upper(), other.upper()
  return {
      'fresh': ('Folk', 'Folk'),
      'sanitise': ('my folk!', 'My_folk_'),
      'foreign': ('age', 'Age'),
      'keyword': ('None', 'TNone'),
      'keyword2': ('class', 'Class'),
      'function': ('SUM', 'SUM'),     # the id of a formula function that formulas here call
      'digit': ('2nd', 'T2nd'),
      'lower': (cur.lower(), cur[0].upper() + cur[1:].lower()),
      'short': ('Q', 'Q'),
      'long': ('A_much_longer_table_identifier_0123456789',) * 2,
      'owncol': (DATA_COLS[t][0][0], DATA_COLS[t][0][0][0].upper() + DATA_COLS[t][0][0][1:]),
      'suffix': (cur + '2', cur + '2'),
      'restore': (TAB[t], TAB[t]),
  }[label]


def disambiguate(ident, taken):
  """First of ident, ident2, ident3.. (ident_2.. if it ends in a digit) free case-insensitively."""
  up = {x.upper() for x in taken}
  if ident.upper() not in up:
    return ident
  base = ident + ('_' if ident[-1].isdigit() else '')
  n = 2
  while (base + str(n)).upper() in up:
    n += 1
  return base + str(n)


def first_free_letter(taken):
  up = {x.upper() for x in taken}
  for ch in 'ABCDEFGHIJKLMNOPQRSTUVWXYZ':
    if ch not in up:
      return ch
  raise AssertionError('no free letter')


# ---------------------------------------------------------------------------------------------
# the model: current ids and templates
# ---------------------------------------------------------------------------------------------

class State(object):
  def __init__(self, base):
    self.tables = dict(TAB)
    self.cols = {k: k[1] for k in base['colref']}         # (t, c) -> current id
    self.templates = dict(base['templates'])              # (t, c) -> formula template
    self.types = dict(base['types'])                      # (t, c) -> type template
    self.family = dict(FAMILY)                            # (t, c) -> family of its template
    self.poisoned = set()       # formulas already reported wrong: not checked again in later steps
    self.untracked = {t: set(v) for t, v in base['untracked'].items()}   # t -> other column ids

  def set_table(self, t, new):
    self.tables[t] = new
    self._derive()

  def set_col(self, t, c, new):
    self.cols[(t, c)] = new
    self._derive()

  def _derive(self):
    # summary.py: group-by columns carry the id of their source column, and the summary table is
    # named <source>_summary_<group-by ids>
    for c in SUMMARY_MIRRORS:
      self.cols[('S', c)] = self.cols[('P', c)]
    self.tables['S'] = '%s_summary_%s' % (self.tables['P'], self.cols[('P', 'team')])

  def render(self, template):
    def sub(m):
      t, c = m.group(1), m.group(2)
      return self.tables[t] if c is None else self.cols[(t, c)]
    return MARK.sub(sub, template)

  def col_ids(self, t):
    return {v for (tt, _), v in self.cols.items() if tt == t} | self.untracked[t]


_BASE = {}


def base():
  if _BASE:
    return _BASE
  doc = H.Doc.new()
  rend = lambda s: MARK.sub(lambda m: TAB[m.group(1)] if m.group(2) is None else m.group(2), s)
  for t in TORDER:
    doc.apply([["AddTable", TAB[t], [{"id": c, "type": rend(ty)} for (c, ty) in DATA_COLS[t]]]])
  # a trigger formula in a data column; it runs once, for the records added next
  doc.apply([["AddColumn", "People", "nick", {"type": "Text", "isFormula": False,
                                               "formula": "$name.upper() + str(rec.age)",
                                               "recalcWhen": 0}]])
  doc.apply(DATA)
  for t in TORDER:
    doc.apply([["AddColumn", TAB[f[0]], f[1], {"type": rend(f[4]) if len(f) > 4 else "Any",
                                              "isFormula": True, "formula": rend(f[3])}]
               for f in FORMULAS if f[0] == t])
  refs = _col_refs(doc)
  doc.apply([["SetDisplayFormula", "People", None, refs[('P', 'boss')], "$boss.name"]])
  doc.apply([["AddEmptyRule", "People", 0, refs[('P', 'age')]]])
  doc.apply([["ModifyColumn", "People", "gristHelper_ConditionalRule", {"formula": "$age > 25"}]])
  doc.apply([["UpdateRecord", "_grist_Tables_column", refs[('P', 'nick')],
              {"recalcDeps": ["L", refs[('P', 'name')]]}]])
  tabs = doc.fetch('_grist_Tables')
  ptab = [r for r, tid in zip(tabs[2], tabs[3]['tableId']) if tid == 'People'][0]
  doc.apply([["CreateViewSection", ptab, 0, "record", [refs[('P', 'team')]], None]])
  doc.apply([["AddColumn", TAB[f[0]], f[1], {"type": "Any", "isFormula": True, "formula": rend(f[3])}]
             for f in SUMMARY_FORMULAS])
  refs = _col_refs(doc)
  templates, types, untracked = {}, {}, {t: set() for t in ALLT}
  for f in FORMULAS + SPECIAL + SUMMARY_FORMULAS + SUMMARY_AUTO:
    templates[(f[0], f[1])] = f[3]
    types[(f[0], f[1])] = f[4] if len(f) > 4 else None
  for t in TORDER:
    for (c, ty) in DATA_COLS[t]:
      templates[(t, c)] = ''
      types[(t, c)] = ty
  colref = {}
  for (t, c), r in refs.items():
    if (t, c) in templates:
      colref[(t, c)] = r
    else:
      untracked[t].add(c)
  assert set(colref) == set(templates), set(templates) - set(colref)
  tabs = doc.fetch('_grist_Tables')
  tabref = {t: r for t in ALLT for r, tid in zip(tabs[2], tabs[3]['tableId']) if tid == TAB[t]}
  rawsec = {t: rs for t in ALLT for r, rs in zip(tabs[2], tabs[3]['rawViewSectionRef'])
            if r == tabref[t]}
  _BASE.update(snap=doc.snapshot(), colref=colref, tabref=tabref, rawsec=rawsec,
               templates=templates, types=types, untracked=untracked)
  # sanity of the base itself: metadata agrees with the templates and no formula is in error
  # except the deliberately unparsable one
  st = State(_BASE)
  bad = check_meta(doc, st, None)
  assert not bad, bad
  errs = [(tid, r, c) for tid, t in user_dump(doc).items() for r, row in t['rows'].items()
          for c, v in row.items() if isinstance(v, list) and v and v[0] == 'E' and c != 'f_syntax']
  assert not errs, errs[:5]
  return _BASE


def _col_refs(doc):
  tabs = doc.fetch('_grist_Tables')
  key = {tid: k for k, tid in TAB.items()}
  tname = {r: key.get(tid) for r, tid in zip(tabs[2], tabs[3]['tableId'])}
  cols = doc.fetch('_grist_Tables_column')
  return {(tname[p], c): r for r, p, c in zip(cols[2], cols[3]['parentId'], cols[3]['colId'])
          if tname.get(p)}


def user_dump(doc):
  d = doc.dump()
  return {t: v for t, v in d.items() if not t.startswith('_grist_')}


def meta_rows(doc):
  cols = doc.fetch('_grist_Tables_column')
  v = cols[3]
  return {r: {'parentId': v['parentId'][i], 'colId': v['colId'][i], 'formula': v['formula'][i],
              'type': v['type'][i], 'label': v['label'][i]} for i, r in enumerate(cols[2])}


# ---------------------------------------------------------------------------------------------
# oracles
# ---------------------------------------------------------------------------------------------

def mismatch_kind(template, st, old, before_text, expected, actual):
  """missed: the text is the template with some mentions still carrying the id from before this
  rename; spurious: nothing should have changed; wrong: anything else (garbled text)."""
  if old is not None:
    old_tables, old_cols = old
    parts, pos = [], 0
    for m in MARK.finditer(template):
      parts.append(re.escape(template[pos:m.start()]))
      t, c = m.group(1), m.group(2)
      ids = {st.tables[t], old_tables[t]} if c is None else {st.cols[(t, c)], old_cols[(t, c)]}
      parts.append('(?:%s)' % '|'.join(sorted(re.escape(i) for i in ids)))
      pos = m.end()
    parts.append(re.escape(template[pos:]))
    if re.fullmatch(''.join(parts), actual, re.S):
      return 'missed'
  return 'spurious' if expected == before_text else 'wrong'


def check_meta(doc, st, before_rows, old=None):
  """Compares _grist_Tables / _grist_Tables_column with the model.  Returns [(key, msg, colkey)].
  old = (table ids, column ids) before the rename, for classifying mismatches."""
  b = _BASE
  out = []
  tabs = doc.fetch('_grist_Tables')
  tid = dict(zip(tabs[2], tabs[3]['tableId']))
  for t in ALLT:
    if tid.get(b['tabref'][t]) != st.tables[t]:
      out.append(('C16/new-id/table', "table %s: metadata tableId %r, expected %r" % (
          TAB[t], tid.get(b['tabref'][t]), st.tables[t]), None))
    if st.tables[t] not in doc.eng.tables:
      out.append(('C16/engine-schema/table', "engine has no table %r" % st.tables[t], None))
  rows = meta_rows(doc)
  tracked = {r: k for k, r in b['colref'].items()}
  for r, row in sorted(rows.items()):
    k = tracked.get(r)
    if k is None:
      if before_rows is not None and r in before_rows:
        for f in ('colId', 'formula', 'type'):
          if row[f] != before_rows[r][f]:
            out.append(('C16/unrelated-column-changed/' + f, "column record %d (%s) %s: %r -> %r" % (
                r, row['colId'], f, before_rows[r][f], row[f]), None))
      continue
    fam = st.family.get(k, 'data')
    if row['colId'] != st.cols[k]:
      out.append(('C16/new-id/column', "column %s.%s: metadata colId %r, expected %r" % (
          TAB[k[0]], k[1], row['colId'], st.cols[k]), k))
    exp = st.render(st.templates[k])
    if row['formula'] != exp and k not in st.poisoned:
      was = before_rows[r]['formula'] if before_rows else None
      kind = mismatch_kind(st.templates[k], st, old, was, exp, row['formula'])
      out.append(('C16/text/%s/%s' % (kind, fam),
                  "formula of %s.%s: before %r, expected %r, got %r" % (
                      TAB[k[0]], k[1], was, exp, row['formula']), k))
    if st.types[k] is not None and row['type'] != st.render(st.types[k]):
      out.append(('C16/ref-type', "type of %s.%s: expected %r, got %r" % (
          TAB[k[0]], k[1], st.render(st.types[k]), row['type']), k))
  return out


def map_value(v, told, tnew):
  if isinstance(v, list):
    if len(v) >= 2 and v[0] in ('R', 'r') and v[1] == told:
      return [v[0], tnew] + [map_value(x, told, tnew) for x in v[2:]]
    return [map_value(x, told, tnew) for x in v]
  if isinstance(v, tuple):
    return tuple(map_value(x, told, tnew) for x in v)
  if isinstance(v, dict):
    return {k: map_value(x, told, tnew) for k, x in v.items()}
  return v


def map_dump(dump, tmap, cmap):
  """The dump expected after renaming tables (old id -> new) and columns ((old tid, old) -> new)."""
  out = {}
  for tid, t in dump.items():
    rows = {}
    for r, row in t['rows'].items():
      new = {}
      for c, v in row.items():
        for told, tnew in tmap.items():
          v = map_value(v, told, tnew)
        new[cmap.get((tid, c), c)] = v
      rows[r] = new
    out[tmap.get(tid, tid)] = {'cols': sorted(cmap.get((tid, c), c) for c in t['cols']), 'rows': rows}
  return out


def family_of_colid(st, tid, colid):
  for (t, c), cur in st.cols.items():
    if st.tables[t] == tid and cur == colid:
      return st.family.get((t, c), 'data'), (t, c)
  return 'untracked', None


def compare_dumps(kind, exp, got, st, skip):
  """[(key, msg)] for differences; skip = set of (t, c) whose text is already reported wrong."""
  out = []
  for line in H.diff_dumps(exp, got, limit=400):
    m = re.match(r'(\w+)\[(\d+)\]\.(\w+): ', line)
    if m:
      fam, k = family_of_colid(st, m.group(1), m.group(3))
      if k in skip:
        continue
      out.append(('C16/%s/%s' % (kind, fam), line))
    else:
      out.append(('C16/%s/shape' % kind, line))
  return out


# ---------------------------------------------------------------------------------------------
# one rename step
# ---------------------------------------------------------------------------------------------

def col_taken(st, t, c):
  taken = st.col_ids(t) | {'id'}
  if t == 'P':
    taken |= st.col_ids('S')        # ids of summary-table columns are avoided in the source table
  return taken - {st.cols[(t, c)]}  # ... but never the column's own current id


def next_entity(t, c):
  if c is None:
    return TORDER[(TORDER.index(t) + 1) % len(TORDER)], None
  keys = [k for (k, _) in DATA_COLS[t]]
  return t, keys[(keys.index(c) + 1) % len(keys)]


def plan_step(st, step):
  """step = [path, t, c or None, target label] -> (bundle, requested, [(entity, expected id)],
  position of the action whose return value is the new id or None)."""
  b = _BASE
  path, t, c, label = step
  if path == 'bulk-two':
    # two renames in one BulkUpdateRecord of the metadata table: this entity and the next one
    t2, c2 = next_entity(t, c)
    cur = (lambda tt, cc: st.tables[tt] if cc is None else st.cols[(tt, cc)])
    req = {'fresh': ('zz_new', 'zz_other'), 'same-target': ('zz_new', 'zz_new'),
           'swap': (cur(t2, c2), cur(t, c))}[label]
    if c is None:
      req = tuple(r[0].upper() + r[1:] for r in req)
      taken1 = {v for k, v in st.tables.items() if k != t}
      e1 = disambiguate(req[0], taken1)
      e2 = disambiguate(req[1], {v for k, v in st.tables.items() if k != t2} | {e1})
      bundle = [["BulkUpdateRecord", "_grist_Tables", [b['tabref'][t], b['tabref'][t2]],
                 {"tableId": list(req)}]]
    else:
      e1 = disambiguate(req[0], col_taken(st, t, c))
      e2 = disambiguate(req[1], col_taken(st, t2, c2) | {e1})
      bundle = [["BulkUpdateRecord", "_grist_Tables_column",
                 [b['colref'][(t, c)], b['colref'][(t2, c2)]], {"colId": list(req)}]]
    return bundle, list(req), [((t, c), e1), ((t2, c2), e2)], None
  if c is None:
    requested, san = tab_target(st, t, label)
    taken = {v for k, v in st.tables.items() if k != t}
    renames = [((t, None), disambiguate(san, taken))]
    if path == 'RenameTable':
      return [["RenameTable", st.tables[t], requested]], requested, renames, 0
    if path == 'tableId':
      return [["UpdateRecord", "_grist_Tables", b['tabref'][t], {"tableId": requested}]], \
          requested, renames, None
    if path == 'raw-title':
      return [["UpdateRecord", "_grist_Views_section", b['rawsec'][t], {"title": requested}]], \
          requested, renames, None
    raise ValueError(path)
  requested, san = col_target(st, t, c, label)
  taken = col_taken(st, t, c)
  renames = [((t, c), first_free_letter(taken) if san is None else disambiguate(san, taken))]
  ref = b['colref'][(t, c)]
  if path == 'RenameColumn':
    return [["RenameColumn", st.tables[t], st.cols[(t, c)], requested]], requested, renames, 0
  vals = {'colId': {"colId": requested}, 'bulk-colId': {"colId": [requested]},
          'label': {"label": requested},
          'label-retie': {"label": requested, "untieColIdFromLabel": False}}[path]
  if path == 'bulk-colId':
    return [["BulkUpdateRecord", "_grist_Tables_column", [ref], vals]], requested, renames, None
  return [["UpdateRecord", "_grist_Tables_column", ref, vals]], requested, renames, None


def do_step(doc, st, step, fails, pre_bundle=None, twin=None):
  """
  Applies one rename to doc, advances the model st, appends (key, message) to fails.
  pre_bundle: actions put in front of the rename in the same bundle (formula edits); then twin
  (a document that got those edits alone) supplies the "before" observations.
  Returns True if some formula text changed.
  """
  path, t, c, label = step
  bundle, requested, renames, retpos = plan_step(st, step)
  what = "%s %s.%s -> %r" % (path, TAB[t], c, requested) if c else "%s %s -> %r" % (path, TAB[t], requested)
  before_rows = meta_rows(twin or doc)
  before = user_dump(twin or doc)
  old_tables, old_cols = dict(st.tables), dict(st.cols)
  g, exc = doc.try_apply((pre_bundle or []) + bundle)
  if exc is not None:
    fails.append(('C16/raised/%s/%s' % (type(exc).__name__, path),
                  "%s raised %s" % (what, H.exc_text(exc))))
    return False
  # advance the model
  for (tt, cc), expected in renames:
    if cc is None:
      st.set_table(tt, expected)
    else:
      st.set_col(tt, cc, expected)
  tmap = {old: st.tables[k] for k, old in old_tables.items() if st.tables[k] != old}
  cmap = {(old_tables[k[0]], old): st.cols[k] for k, old in old_cols.items() if st.cols[k] != old}
  if retpos is not None:
    ret = g.retValues[len(pre_bundle or []) + retpos]
    if ret != renames[0][1]:
      fails.append(('C16/ret-value/' + path, "%s returned %r, expected %r" % (
          what, ret, renames[0][1])))
  bad = check_meta(doc, st, before_rows, old=(old_tables, old_cols))
  for key, msg, k in bad:
    fails.append((key, "%s: %s" % (what, msg)))
    if k is not None:
      st.poisoned.add(k)
  skip = st.poisoned
  after = user_dump(doc)
  exp = map_dump(before, tmap, cmap)
  for key, msg in compare_dumps('value-changed', exp, after, st, skip):
    fails.append((key, "%s: value before vs after: %s" % (what, msg)))
  if not any(k.startswith('C16/new-id') or k.startswith('C16/engine') for k, _, _ in bad):
    try:
      fresh = user_dump(doc.fresh_recompute())
    except Exception as e:     # pylint: disable=broad-except
      fails.append(('C16/fresh-load-raised/' + type(e).__name__,
                    "%s: loading the renamed document raised %s" % (what, H.exc_text(e))))
    else:
      for key, msg in compare_dumps('fresh-recompute-differs', after, fresh, st, skip):
        fails.append((key, "%s: live vs fresh engine: %s" % (what, msg)))
  after_rows = meta_rows(doc)
  return any(after_rows[r]['formula'] != before_rows[r]['formula'] for r in before_rows
             if r in after_rows)


# ---------------------------------------------------------------------------------------------
# formula edits (thorough): histories "edit formulas, then rename"
# ---------------------------------------------------------------------------------------------

EDITABLE = {(f[0], f[1]) for f in FORMULAS + SUMMARY_FORMULAS}


def editable(k, tpl):
  return k in EDITABLE and k[1] != 'f_syntax' and not tpl[:1].isspace()


def edit_actions(st, kind):
  """Returns (actions, {column: (new template, its family)}) for an edit of many formulas."""
  new = {}
  if kind in ('pad', 'pad-same-bundle'):
    # every other editable formula gets a first line (shifts all offsets); the rest stay as is
    for i, k in enumerate(sorted(k for k, tpl in st.templates.items() if editable(k, tpl))):
      if i % 2 == 0:
        new[k] = ('pad = "age name People"  # $age\n' + st.templates[k], st.family[k])
  elif kind == 'rotate':
    # every plain People formula takes the text of the next one
    ring = [f for f in FORMULAS if f[0] == 'P' and len(f) == 4 and editable((f[0], f[1]), f[3])
            and ('P', f[1]) not in COL_ENTITIES and f[1] not in ('f_fcol', 'f_viafref', 'f_viaany')]
    for i, f in enumerate(ring):
      nxt = ring[(i + 1) % len(ring)]
      new[('P', f[1])] = (nxt[3], nxt[2])
  else:
    raise ValueError(kind)
  acts = [["ModifyColumn", st.tables[k[0]], st.cols[k], {"formula": st.render(tpl)}]
          for k, (tpl, _) in sorted(new.items())]
  return acts, new


# ---------------------------------------------------------------------------------------------
# cases
# ---------------------------------------------------------------------------------------------

def run_case(case):
  """case = {'edit': None|'pad'|'rotate'|'pad-same-bundle', 'steps': [step, ...]}.
  Returns (fails, nontrivial, canon of the final document)."""
  b = base()
  fails = []
  doc = H.Doc.load(b['snap'])
  st = State(b)
  pre = None
  twin = None
  edit = case.get('edit')
  if edit:
    acts, new = edit_actions(st, edit)
    if edit == 'pad-same-bundle':
      twin = H.Doc.load(b['snap'])
      twin.apply(acts)
      pre = acts
    else:
      doc.apply(acts)
    st.templates.update({k: v[0] for k, v in new.items()})
    st.family.update({k: v[1] for k, v in new.items()})
  nontrivial = False
  for i, step in enumerate(case['steps']):
    n = len(fails)
    changed = do_step(doc, st, step, fails, pre_bundle=pre if i == 0 else None,
                      twin=twin if i == 0 else None)
    if step[2] is None and step[3] == 'function':
      # one root cause whatever formula shows it: the table id hides the function
      fails[n:] = [('C16/table-id-shadows-function', m) if k.startswith(
          ('C16/value-changed/', 'C16/fresh-recompute-differs/')) else (k, m) for k, m in fails[n:]]
    nontrivial = nontrivial or changed
    if any(not k.startswith(('C16/text/', 'C16/value-changed/', 'C16/fresh-recompute-differs/'))
           for k, _ in fails[n:]):
      break           # ids or schema went wrong: the model no longer describes the document
  return fails, nontrivial, doc.canon()


def single_steps(tier):
  """Every entity x path x target of the tier."""
  more = tier == 'thorough'
  out = []
  for (t, c) in COL_ENTITIES:
    for p in COL_PATHS_QUICK + (COL_PATHS_MORE if more else []):
      for lab in COL_TARGETS_QUICK + (COL_TARGETS_MORE if more else []):
        out.append([p, t, c, lab])
  for (t, _) in TAB_ENTITIES:
    for p in TAB_PATHS_QUICK + (TAB_PATHS_MORE if more else []):
      for lab in TAB_TARGETS_QUICK + (TAB_TARGETS_MORE if more else []):
        out.append([p, t, None, lab])
  # two renames in one metadata update (this entity and the next one of its table / the next table)
  two = [(t, c) for t in TORDER for (c, _) in DATA_COLS[t]] + TAB_ENTITIES
  for (t, c) in (two if more else BUSY):
    for lab in (('fresh', 'same-target', 'swap') if more else ('swap',)):
      out.append(['bulk-two', t, c, lab])
  return out


def pair_steps():
  """first rename (every entity to a fresh and to a colliding name) then a second one: every
  entity to a fresh name, the same entity back to its original id, and columns of the same table
  to a foreign name through the metadata path."""
  firsts = [['RenameColumn', t, c, lab] for (t, c) in COL_ENTITIES for lab in ('fresh', 'collide')]
  firsts += [['RenameTable', t, None, lab] for (t, _) in TAB_ENTITIES for lab in ('fresh', 'collide')]
  out = []
  for a in firsts:
    for (t, c) in COL_ENTITIES:
      labs = ['fresh']
      if [t, c] == a[1:3]:
        labs.append('restore')
      if t == a[1]:
        labs.append('foreign')
      for lab in labs:
        out.append([a, ['colId' if lab == 'foreign' else 'RenameColumn', t, c, lab]])
    for (t, _) in TAB_ENTITIES:
      labs = ('fresh', 'restore') if [t, None] == a[1:3] else ('fresh',)
      for lab in labs:
        out.append([a, ['RenameTable', t, None, lab]])
  return out


def all_cases(tier):
  cases = [{'edit': None, 'steps': [s]} for s in single_steps(tier)]
  if tier == 'thorough':
    cases += [{'edit': None, 'steps': p} for p in pair_steps()]
    for edit in ('pad', 'rotate', 'pad-same-bundle'):
      cases += [{'edit': edit, 'steps': [[('RenameColumn' if c else 'RenameTable'), t, c, lab]]}
                for (t, c) in COL_ENTITIES + TAB_ENTITIES for lab in ('fresh', 'sanitise', 'collide')]
  return cases


def case_key(case):
  return json.dumps([case.get('edit'), case['steps']], separators=(',', ':'))


def work(chunk):
  E = Enum(PartReport('C16'), rule='')
  canons = []
  steps = 0
  for case in chunk:
    try:
      fails, nontrivial, canon = run_case(case)
    except Exception as e:   # pylint: disable=broad-except
      fails, nontrivial, canon = [('C16/harness-error/' + type(e).__name__,
                                   "case %s: %s" % (case_key(case), H.exc_text(e)))], False, None
    steps += len(case['steps'])
    canons.append(canon)
    E.count(case_key(case), nontrivial=nontrivial,
            sample={'case': case} if nontrivial else None)
    for key, msg in fails:
      E.fail(key, msg, case=case)
  E.extra['rename_bundles'] = steps
  part = part_of(E)
  part['canons'] = canons
  return part


def run(tier, report):
  base()
  cases = all_cases(tier)
  nform = len(FORMULAS) + len(SPECIAL) + len(SUMMARY_FORMULAS) + 3
  E = Enum(report, rule=(
      'one document: %d formula columns (grammar of reference forms + look-alikes that must not '
      'change) in 4 tables and a summary table; every entity (%d columns, %d tables) x every '
      'rename path (quick: RenameColumn, UpdateRecord colId, UpdateRecord label, RenameTable, '
      'UpdateRecord tableId; thorough also BulkUpdateRecord, label+untieColIdFromLabel, raw section '
      'title) x every target shape (quick: fresh, needs sanitising, collides case-insensitively, '
      'column of another table, keyword, for tables also the id of a formula function; thorough 13 '
      'more for columns and 7 more for tables), plus '
      'two renames in one metadata update (swap / same target); each case from the same snapshot; '
      'thorough adds %d pairs of renames in sequence and renames after 3 kinds of formula edits '
      '(first line inserted, formulas exchanged, edit and rename in one bundle); non-trivial = the '
      'case rewrote at least one formula; oracle: values unchanged keyed through the rename, '
      'formula texts == rendered templates byte for byte, fresh engine agrees, ids == reference'
      % (nform, len(COL_ENTITIES), len(TAB_ENTITIES), len(pair_steps()))))
  n = 64 if tier == 'quick' else 256
  chunks = [cases[i::n] for i in range(n)]
  canons = set()
  gc.collect()
  gc.freeze()         # fewer copy-on-write page faults in the forked workers
  for part in pmap(work, [c for c in chunks if c]):
    canons.update(c for c in part.pop('canons') if c)
    E.merge(part)
  E.finish(exhaustive=True)
  cov = report.coverage
  cov['states'] = len(canons) + 1
  cov['transitions'] = cov.pop('rename_bundles', 0)
  cov['traces_validated_against_impl'] = E.evaluations
  cov['formula_columns'] = nform
  report.assumptions.append(
      'only the reference forms of the grammar are claimed: getattr(rec, "c"), lambda parameters, '
      '**kwargs lookups and f"{$c=}" (whose value contains its own source text) are not enumerated')
  report.assumptions.append('formula cells in error before the rename are excluded, except one '
                            'deliberately unparsable formula whose text must stay byte-identical')


def replay(viol):
  case = viol['case']
  base()
  fails, nontrivial, _ = run_case(case)
  print("case %s: nontrivial=%s" % (case_key(case), nontrivial))
  for key, msg in fails:
    print("  %s: %s" % (key, msg))
  if any(key == viol.get('key') for key, _ in fails) or (fails and not viol.get('key')):
    print("VIOLATION property=C16 replay=(this file) reproduced")
    return 1
  return 0
