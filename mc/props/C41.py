"""C41 fetch_table queries return exactly the matching rows (exhaustive over small tables x queries).

A live engine (mc.harness.Doc) holds table T with data columns a, b (type Any, filled through
BulkUpdateRecord with wire-encoded values, so lists and dicts are stored), formula columns f = $a,
g = tuple($b) for lists (stored tuples), h = a lookup count (which also creates the virtual
'#lookup#a' column), a trigger-formula data column t = $id * 10 and manualSort.  Several row-id
layouts (empty, contiguous, added out of order, with gaps, sparse explicit ids) x every content of
a and b over a value domain x every query of the families below x formulas/private flags.

Oracle (independent model of the table kept here): the reply's row ids are exactly, in ascending
order, the rows whose modelled value in every queried column equals (Python ==) one of the
requested values; the reply has exactly the requested kinds of columns (never 'id', never a
virtual '#...' column; formula columns only with formulas=True; sandbox-private columns only with
private=True); every returned cell is type-strictly the modelled value (columns the model does
not predict - manualSort, h, metadata - must equal the unfiltered reply at the same rows).
"""
import math
import itertools

from mc import harness as H
from mc.enumprop import Enum, PartReport, part_of, pmap

import schema

LEVEL = 'exploration'

# ----------------------------------------------------------------------------------------------
# Domains
# ----------------------------------------------------------------------------------------------
NESTED = ['L', ['L', 1]]     # g = tuple($b) is then ([1],): a tuple that cannot be hashed
D9 = [1, 1.0, True, 0, 'a', None, ['L', 1], ['L', 'a'], ['O', {'a': 1}], NESTED]
D6 = [1, 1.0, 'a', None, ['L', 1], ['O', {'a': 1}]]
D4 = [1, 'a', ['L', 1], None]
D3 = [1, 'a', ['L', 1], NESTED]
D2 = [1, ['L', 1]]

# requested values (Python objects, as Engine.fetch_table receives them)
Q = [1, 1.0, True, 0, 'a', '', None, [1], ['a'], {'a': 1}, (1,), ('a',), [], ([1],)]
P12 = [[], [1], ['a'], [[1]], [1, 'a'], [1, [1]], [None], [{'a': 1}], [True, None], [0, ('a',)],
       [[1], ['a']], [1.0, 'a', [1], (1,)]]
P5 = [[], [1, 'a'], [[1], None], [1.0, {'a': 1}], ['a', ('a',), 0]]


def dec(w):
  """Independent decoder of the wire encoding used in the bundles ('L' list, 'O' dict)."""
  if isinstance(w, list):
    if w[0] == 'L':
      return [dec(x) for x in w[1:]]
    if w[0] == 'O':
      return {k: dec(v) for k, v in w[1].items()}
    raise ValueError(w)
  return w


def value_lists():
  out = [[]]
  out += [[q] for q in Q]
  out += [[p, q] for p in Q for q in Q if p is not q]
  out += [[1, 'a', None], [[1], 1, 'a'], [1, 'a', [1]], [{'a': 1}, [1], ('a',), 0]]
  return out


def queries(row_ids):
  """All queries tried on every table: list of dicts col -> list of requested values."""
  VL = value_lists()
  out = [None, {}]
  for col in ('a', 'b', 'f', 'g'):
    out += [{col: vl} for vl in VL]
  ids = [0, 1, 2, 3, 5, 7, 1.0, True, '1', None, [1]]
  out += [{'id': list(c)} for n in (0, 1, 2) for c in itertools.combinations(ids, n)]
  out += [{'id': list(row_ids)}, {'id': list(reversed(row_ids)) + [99]}]
  out += [{'t': list(c)} for n in (1, 2) for c in itertools.combinations([10, 20, 20.0, 50, 70, '10', [10]], n)]
  for (c1, c2) in (('a', 'b'), ('a', 'g'), ('f', 'b'), ('b', 'a')):
    out += [{c1: p, c2: q} for p in P12 for q in P12]
  out += [{'id': i, 'a': p} for i in ([1, 2], [2, 3, 5], [7.0, True]) for p in P12]
  out += [{'a': p, 'b': q, 'id': i} for p in P5 for q in P5 for i in ([1, 2, 7], [2], [])]
  out += [{'a': p, 'f': q, 'g': r} for p in P5 for q in P5 for r in P5]
  return out


FLAGS = [(True, False), (False, False), (True, True), (False, True)]

# ----------------------------------------------------------------------------------------------
# Layouts
# ----------------------------------------------------------------------------------------------
COLUMNS = [
    {"id": "a", "type": "Any", "isFormula": False},
    {"id": "b", "type": "Any", "isFormula": False},
    {"id": "f", "type": "Any", "isFormula": True, "formula": "$a"},
    {"id": "g", "type": "Any", "isFormula": True, "formula": "tuple($b) if isinstance($b, list) else $b"},
    {"id": "t", "type": "Any", "isFormula": False, "formula": "$id * 10"},
    {"id": "h", "type": "Any", "isFormula": True, "formula": "len(T.lookupRecords(a=$a))"},
]
DATA_COLS = {'a', 'b', 't', 'manualSort'}
FORMULA_COLS = {'f', 'g', 'h'}

LAYOUTS = {
    'empty': ([], []),
    'one': ([["BulkAddRecord", "T", [None], {}]], [1]),
    'two': ([["BulkAddRecord", "T", [None, None], {}]], [1, 2]),
    'three': ([["BulkAddRecord", "T", [None, None, None], {}]], [1, 2, 3]),
    'three-out-of-order': ([["BulkAddRecord", "T", [3, 1, 2], {}]], [1, 2, 3]),
    'gaps': ([["BulkAddRecord", "T", [None] * 5, {}], ["BulkRemoveRecord", "T", [1, 3, 4]]], [2, 5]),
    'sparse': ([["BulkAddRecord", "T", [7, 2], {}]], [2, 7]),
}

SPACES = {
    'quick': [('empty', None), ('one', D9), ('two', D3), ('gaps', D3), ('sparse', D3),
              ('three-out-of-order', D2)],
    'thorough': [('empty', None), ('one', D9), ('two', D9), ('gaps', D9), ('sparse', D6), ('three', D4),
                 ('three-out-of-order', D4)],
}


def make_doc(layout):
  doc = H.Doc.new()
  doc.apply([["AddTable", "T", COLUMNS]])
  setup, row_ids = LAYOUTS[layout]
  if setup:
    doc.apply(setup)
  return doc, row_ids


def contents(n, domain):
  """Every assignment of wire values to columns a and b of n rows."""
  if n == 0:
    yield [], []
    return
  for a in itertools.product(domain, repeat=n):
    for b in itertools.product(domain, repeat=n):
      yield list(a), list(b)


# ----------------------------------------------------------------------------------------------
# Reference model
# ----------------------------------------------------------------------------------------------

def same(a, b):
  """Type-strict deep equality (NaN == NaN)."""
  if a is b:
    return True
  if type(a) is not type(b):      # pylint: disable=unidiomatic-typecheck
    return False
  if isinstance(a, float):
    return a == b or (math.isnan(a) and math.isnan(b))
  if isinstance(a, (list, tuple)):
    return len(a) == len(b) and all(same(x, y) for x, y in zip(a, b))
  if isinstance(a, dict):
    return sorted(a) == sorted(b) and all(same(a[k], b[k]) for k in a)
  return a == b


def model_of(row_ids, wa, wb):
  """{col: {row: value}} for the columns the model predicts."""
  a = {r: dec(w) for r, w in zip(row_ids, wa)}
  b = {r: dec(w) for r, w in zip(row_ids, wb)}
  return {
      'id': {r: r for r in row_ids},
      'a': a, 'b': b, 'f': dict(a),
      'g': {r: (tuple(v) if isinstance(v, list) else v) for r, v in b.items()},
      't': {r: r * 10 for r in row_ids},
  }


def among(x, values):
  for v in values:
    if v is x or v == x:
      return True
  return False


def _unhashable(v):
  return isinstance(v, (list, dict, set))


def expected_columns(formulas, private, data_cols, formula_cols, private_cols):
  cols = set(data_cols)
  if formulas:
    cols |= set(formula_cols)
    if private:
      cols |= set(private_cols)        # the sandbox-private columns are all formula columns
  return cols


def check_reply(td, table_id, rows_all, expected_rows, query, cols_expected, model, baseline):
  """Returns None or (key, message)."""
  if td.table_id != table_id:
    return ('C41/table-id', "reply is for table %r" % (td.table_id,))
  got = list(td.row_ids)
  if got != expected_rows:
    path = 'list-path' if query and any(_unhashable(v) for vs in query.values() for v in vs) else 'set-path'
    if sorted(got) == sorted(expected_rows):
      kind = 'order'
    elif set(expected_rows) - set(got):
      kind = 'missing'
    else:
      kind = 'extra'
    return ('C41/rows/%s/%s' % (kind, path), "rows %s returned, expected %s" % (got, expected_rows))
  cols = set(td.columns)
  if cols != cols_expected:
    extra, missing = cols - cols_expected, cols_expected - cols
    if 'id' in extra:
      kind = 'id-column-returned'
    elif any(c.startswith('#') for c in extra):
      kind = 'virtual-column-returned'
    elif extra:
      kind = 'unrequested-kind-returned'
    else:
      kind = 'requested-kind-missing'
    return ('C41/columns/' + kind, "columns %s; unexpected %s, missing %s" % (
        sorted(cols), sorted(extra), sorted(missing)))
  for c in sorted(cols):
    vals = td.columns[c]
    if len(vals) != len(expected_rows):
      return ('C41/values/length', "column %s has %d values for %d rows" % (c, len(vals), len(expected_rows)))
    for r, v in zip(expected_rows, vals):
      if model is not None and c in model:
        if not same(v, model[c][r]):
          return ('C41/values/wrong-cell', "%s[%s] is %r, the model says %r" % (c, r, v, model[c][r]))
      else:
        if not same(v, baseline[c][r]):
          return ('C41/values/differs-from-unfiltered', "%s[%s] is %r, the unfiltered reply has %r" % (
              c, r, v, baseline[c][r]))
  return None


def baseline_of(eng, table_id):
  td = eng.fetch_table(table_id, formulas=True, private=True)
  rows = list(td.row_ids)
  base = {c: dict(zip(rows, vals)) for c, vals in td.columns.items()}
  base['id'] = {r: r for r in rows}
  return rows, base


def run_query(eng, table_id, rows_all, lookup, query, flags, cols_expected, model, baseline):
  """lookup: {col: {row: value}} used to decide membership (model, or baseline for metadata)."""
  if query:
    expected_rows = [r for r in rows_all
                     if all(among(lookup[c][r], vs) for c, vs in query.items())]
  else:
    expected_rows = list(rows_all)
  try:
    td = eng.fetch_table(table_id, formulas=flags[0], private=flags[1], query=query)
  except Exception as e:       # pylint: disable=broad-except
    return expected_rows, ('C41/raised/' + type(e).__name__, "fetch_table raised %s" % H.exc_text(e))
  return expected_rows, check_reply(td, table_id, rows_all, expected_rows, query, cols_expected, model,
                                    baseline)


# ----------------------------------------------------------------------------------------------
# Replay-able case encoding (tuples are not JSON)
# ----------------------------------------------------------------------------------------------

def enc_q(v):
  if isinstance(v, tuple):
    return {'__tuple__': [enc_q(x) for x in v]}
  if isinstance(v, list):
    return [enc_q(x) for x in v]
  if isinstance(v, dict):
    return {'__dict__': {k: enc_q(x) for k, x in v.items()}}
  if isinstance(v, float):
    return {'__float__': repr(v)}
  return v


def dec_q(v):
  if isinstance(v, dict):
    if '__tuple__' in v:
      return tuple(dec_q(x) for x in v['__tuple__'])
    if '__float__' in v:
      return float(v['__float__'])
    return {k: dec_q(x) for k, x in v['__dict__'].items()}
  if isinstance(v, list):
    return [dec_q(x) for x in v]
  return v


def enc_query(query):
  return None if query is None else {c: enc_q(vs) for c, vs in query.items()}


# ----------------------------------------------------------------------------------------------
# Workers
# ----------------------------------------------------------------------------------------------

def set_contents(doc, row_ids, wa, wb):
  # Updates whose new value == the old one (1 -> True, 1 -> 1.0) are trimmed by the engine by design,
  # so first overwrite with a value that equals nothing in the domain.
  if row_ids:
    reset = ['~reset~'] * len(row_ids)
    doc.apply([["BulkUpdateRecord", "T", row_ids, {"a": reset, "b": reset}],
               ["BulkUpdateRecord", "T", row_ids, {"a": wa, "b": wb}]])


def check_table(doc, layout, row_ids, wa, wb, qs, tindex, E, counters):
  eng = doc.eng
  model = model_of(row_ids, wa, wb)
  rows_all, baseline = baseline_of(eng, 'T')
  case0 = {'kind': 'user', 'layout': layout, 'a': wa, 'b': wb}
  if rows_all != row_ids:
    E.fail('C41/rows/%s/unfiltered' % ('order' if sorted(rows_all) == sorted(row_ids) else 'wrong-set'),
           "unfiltered fetch has rows %s, expected %s" % (rows_all, row_ids),
           case=dict(case0, query=None, flags=[True, True]))
    return
  stored_unhashable = any(_unhashable(v) for c in ('a', 'b') for v in model[c].values())
  for qi, query in enumerate(qs):
    combos = FLAGS if qi < 2 else [FLAGS[(qi + tindex) % 4]]
    for flags in combos:
      cols_expected = expected_columns(flags[0], flags[1], DATA_COLS, FORMULA_COLS, ())
      expected_rows, bad = run_query(eng, 'T', row_ids, model, query, flags, cols_expected, model, baseline)
      counters[0] += 1
      if query and (0 < len(expected_rows) < len(row_ids) or (
          expected_rows and (stored_unhashable or any(_unhashable(v) for vs in query.values() for v in vs)))):
        counters[1] += 1
        if counters[1] % 200003 == 1 and len(E.samples) < 2:
          E.samples.append({'layout': layout, 'a': wa, 'b': wb, 'query': enc_query(query),
                            'flags': list(flags), 'rows': expected_rows})
      if bad:
        E.fail(bad[0], "%s; T%s a=%s b=%s query=%r formulas=%s private=%s" % (
            bad[1], row_ids, wa, wb, query, flags[0], flags[1]),
               case=dict(case0, query=enc_query(query), flags=list(flags)))


META_PRIVATE = {
    '_grist_Tables': ['columns', 'viewSections', 'summaryTables', 'summaryKey', 'setAutoRemove'],
    '_grist_Tables_column': ['viewFields', 'summaryGroupByColumns', 'usedByCols', 'usedByFields',
                             'ruleUsedByCols', 'ruleUsedByFields', 'ruleUsedByTables', 'tableId',
                             'numDisplayColUsers', 'numRuleColUsers', 'numRuleTableUsers',
                             'recalcOnChangesToSelf', 'setAutoRemove'],
    '_grist_Views_section': ['fields', 'isRaw', 'isRecordCard'],
}
META_QUERIES = {
    '_grist_Tables': [None, {'id': [1]}, {'id': [2, 1.0]}, {'tableId': ['T']}, {'tableId': ['T', ['T']]},
                      {'tableId': ['X']}, {'primaryViewId': [1], 'tableId': ['T', None]},
                      {'onDemand': [False]}, {'onDemand': [0]}, {'summaryKey': [None]}],
    '_grist_Tables_column': [None, {'parentId': [1]}, {'colId': ['a', 'b', [1]]}, {'colId': [['a']]},
                             {'isFormula': [True]}, {'isFormula': [False], 'type': ['Any']},
                             {'colId': ['f', 'g', 'manualSort'], 'isFormula': [1]},
                             {'tableId': ['T']}, {'tableId': ['T'], 'colId': ['h']},
                             {'recalcDeps': [None]}, {'recalcDeps': [[1]]}, {'formula': ['$a', '']},
                             {'id': [1, 3, 5, 99]}],
    '_grist_Views_section': [None, {'tableRef': [1]}, {'parentKey': ['record']}, {'id': [2, 3]},
                             {'parentKey': ['record', ['record']], 'tableRef': [1, 2]}],
}


def check_meta(doc, E, counters):
  eng = doc.eng
  declared = {a.table_id: [c['id'] for c in a.columns] for a in schema.schema_create_actions()}
  for table_id in sorted(META_PRIVATE):
    rows_all, baseline = baseline_of(eng, table_id)
    for query in META_QUERIES[table_id]:
      for flags in FLAGS:
        cols_expected = expected_columns(flags[0], flags[1], declared[table_id], (), META_PRIVATE[table_id])
        expected_rows, bad = run_query(eng, table_id, rows_all, baseline, query, flags, cols_expected, None,
                                       baseline)
        counters[0] += 1
        if query and 0 < len(expected_rows) < len(rows_all):
          counters[1] += 1
        if bad:
          E.fail(bad[0] + '/metadata', "%s; %s query=%r formulas=%s private=%s" % (
              bad[1], table_id, query, flags[0], flags[1]),
                 case={'kind': 'meta', 'table': table_id, 'query': enc_query(query), 'flags': list(flags)})


def _worker(job):
  layout, domain, k, n = job
  E = Enum(PartReport('C41'), rule='')
  try:
    doc, row_ids = make_doc(layout)
  except Exception as e:       # pylint: disable=broad-except
    # fetch_table is also used by the engine itself (schema checks); a broken one can stop any document
    E.fail('C41/setup-raised/' + type(e).__name__,
           "creating the document for layout %r raised %s" % (layout, H.exc_text(e)),
           case={'kind': 'setup', 'layout': layout})
    E.evaluations += 1
    return part_of(E)
  qs = queries(row_ids)
  counters = [0, 0]
  tables = 0
  for tindex, (wa, wb) in enumerate(contents(len(row_ids), domain)):
    if tindex % n != k:
      continue
    set_contents(doc, row_ids, wa, wb)
    check_table(doc, layout, row_ids, wa, wb, qs, tindex, E, counters)
    tables += 1
  if k == 0:
    set_contents(doc, row_ids, [1] * len(row_ids), [['L', 'a']] * len(row_ids))
    check_meta(doc, E, counters)
  E.evaluations += counters[0]
  E.nontrivial_count += counters[1]
  E.extra['tables'] = tables
  E.extra['queries_per_table'] = len(qs)
  return part_of(E)


def jobs(tier):
  out = []
  for layout, domain in SPACES[tier]:
    n_rows = len(LAYOUTS[layout][1])
    size = (len(domain) ** (2 * n_rows)) if domain else 1
    n = max(1, min(16 if tier == 'thorough' else 8, size // 40))
    out += [(layout, domain, k, n) for k in range(n)]
  return out


def run(tier, report):
  E = Enum(report, rule=(
      'layouts x contents: %s (contents = every assignment of the domain to columns a and b of every row; '
      'D9 = 1, 1.0, True, 0, "a", None, [1], ["a"], {"a":1}, [[1]]; D6/D4/D3/D2 = subsets) x %d queries per table '
      '(every list of <= 2 of 13 requested values incl. lists, tuples, dicts on each of a, b, f, g; id and t '
      'lists; 12x12 list pairs on 4 column pairs; three-column queries) with a rotating formulas/private '
      'combination (all four for the unqueried fetch) + the metadata tables _grist_Tables, '
      '_grist_Tables_column, _grist_Views_section x %d queries x all four flag combinations. Cases are '
      'distinct by construction; non-trivial = the query keeps some rows and drops others, or an '
      'unhashable stored or requested value is involved and a row matches.' % (
          ', '.join('%s:%s' % (l, 'D%d' % len(d) if d else '-') for l, d in SPACES[tier]),
          len(queries([1, 2])), sum(len(v) for v in META_QUERIES.values()))))
  js = jobs(tier)
  # big jobs first
  for part in pmap(_worker, js):
    qpt = part['extra'].pop('queries_per_table', None)
    E.merge(part)
    if qpt is not None:
      E.extra['queries_per_table'] = qpt
  E.finish(exhaustive=True)
  report.assumptions.append('query values are given to Engine.fetch_table as Python objects (main.py passes '
                            'the query through undecoded); NaN is not in the domain')
  report.assumptions.append('which metadata columns are sandbox-private is a hand-written list '
                            '(docmodel.MetaTableExtras), the public ones come from schema.schema_create_actions()')


def replay(viol):
  c = viol['case']
  if c['kind'] == 'setup':
    try:
      make_doc(c['layout'])
    except Exception as e:       # pylint: disable=broad-except
      print("setup raised %s" % H.exc_text(e))
      print("VIOLATION property=C41 replay=(this file) reproduced")
      return 1
    return 0
  query = c['query'] and {k: dec_q(v) for k, v in c['query'].items()}
  flags = tuple(c['flags'])
  if c['kind'] == 'meta':
    doc, row_ids = make_doc('three')
    set_contents(doc, row_ids, [1] * 3, [['L', 'a']] * 3)
    declared = {a.table_id: [col['id'] for col in a.columns] for a in schema.schema_create_actions()}
    rows_all, baseline = baseline_of(doc.eng, c['table'])
    cols_expected = expected_columns(flags[0], flags[1], declared[c['table']], (), META_PRIVATE[c['table']])
    _rows, bad = run_query(doc.eng, c['table'], rows_all, baseline, query, flags, cols_expected, None, baseline)
  else:
    doc, row_ids = make_doc(c['layout'])
    set_contents(doc, row_ids, c['a'], c['b'])
    model = model_of(row_ids, c['a'], c['b'])
    rows_all, baseline = baseline_of(doc.eng, 'T')
    cols_expected = expected_columns(flags[0], flags[1], DATA_COLS, FORMULA_COLS, ())
    _rows, bad = run_query(doc.eng, 'T', row_ids, model, query, flags, cols_expected, model, baseline)
  print(bad)
  if bad:
    print("VIOLATION property=C41 replay=(this file) reproduced")
    return 1
  return 0
