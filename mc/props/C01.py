"""C01 Undo restores the exact prior document."""
from mc.histprop import HistProp
from mc import worlds as W
from mc.monitors import UndoRedo

LEVEL = 'model_checking'

DEPTH = {'quick': {'W_rec': 2, 'W_schema': 2}, 'thorough': {'W_rec': 3, 'W_schema': 3}}


def _worlds(tier):
  return W.history_worlds(tier)


def _monitors(world, tier):
  d = DEPTH[tier].get(world.name, 2) if isinstance(DEPTH[tier], dict) else DEPTH[tier]
  return [UndoRedo(report=('C01',), whole_history_depth=d)]


P = HistProp('C01', _worlds, _monitors, {t: W.depths(t) for t in ('quick', 'thorough')},
             rule='every history of user-action bundles up to the depth over the world alphabets; '
                  'oracle: dump before the last bundle == dump after ApplyUndoActions(undo); at '
                  'maximal-depth leaves the whole history is undone in reverse back to the base; '
                  'non-trivial = bundle succeeded and changed the document')


def _m(world, tier):
  d = W.depths(tier).get(world.name, 2)
  return [UndoRedo(report=('C01',), whole_history_depth=d)]


P.monitors = _m
run, replay = P.run, P.replay
