"""C28 Upserts follow their specification (exhaustive enumeration).

Small tables x argument combinations of BulkAddOrUpdateRecord / AddOrUpdateRecord; the resulting
table and the returned ids are compared with a reference upsert written from the action's
documentation; invalid arguments must be rejected leaving no trace.
"""
import copy
import itertools
import json

from mc import harness as H
from mc.enumprop import Enum, PartReport, part_of, pmap

LEVEL = 'exploration'
COLS = ('k', 'k2', 'v')
DEFAULTS = {'k': '', 'k2': 0, 'v': ''}

_SNAP = []


def base_snap():
  if not _SNAP:
    doc = H.Doc.new()
    # k2 is a data column with a default ("trigger") formula that yields the type's default: a
    # value given for it in require / col_values must win over the formula; k is a plain column
    doc.apply([["AddTable", "T", [{"id": "k", "type": "Text"},
                                  {"id": "k2", "type": "Int", "isFormula": False, "formula": "0",
                                   "recalcWhen": 0},
                                  {"id": "v", "type": "Text"}]]])
    doc.apply([["AddTable", "Other", [{"id": "k", "type": "Text"}, {"id": "v", "type": "Text"}]]])
    doc.apply([["BulkAddRecord", "Other", [None, None], {"k": ["a", "b"], "v": ["o1", "o2"]}]])
    _SNAP.append(doc.snapshot())
  return _SNAP[0]


# ----------------------------------------------------------------------------------------------
# Reference upsert (from the docstring of BulkAddOrUpdateRecord)
# ----------------------------------------------------------------------------------------------

class Invalid(Exception):
  pass


def ref_validate(require, col_values, options):
  """Returns the number of input rows, or raises Invalid(reason)."""
  if options.get('on_many', 'first') not in ('first', 'none', 'all'):
    raise Invalid('bad-on-many')
  if not require and not options.get('allow_empty_require', False):
    raise Invalid('empty-require')
  lengths = set(len(v) for v in list(require.values()) + list(col_values.values()))
  if len(lengths) > 1:
    raise Invalid('mismatched-lengths')
  n = lengths.pop() if lengths else 0
  if require:
    keys = list(zip(*[require[c] for c in sorted(require)]))
    if len(set(keys)) < len(keys):
      raise Invalid('duplicate-require')
  return n


def ref_upsert(rows, require, col_values, options, sequential):
  """
  rows: {id: {col: value}}.  Returns (new_rows, result) where ids of added records are the
  placeholders ('new', j), j = 0, 1, ... in input order.  `sequential` = each input row is
  looked up in the table as left by the previous input rows; otherwise all input rows are looked
  up in the table as it was before the action.
  """
  n = ref_validate(require, col_values, options)
  update = options.get('update', True)
  add = options.get('add', True)
  on_many = options.get('on_many', 'first')
  before = copy.deepcopy(rows)
  rows = copy.deepcopy(rows)
  result = {'recordIds': [], 'addRecordIds': [], 'updateRecordIds': []}

  def order(rid):
    return (1, rid[1]) if isinstance(rid, tuple) else (0, rid)

  for i in range(n):
    look_in = rows if sequential else before
    want = {c: vals[i] for c, vals in require.items()}
    matches = sorted((r for r, row in look_in.items()
                      if all(row[c] == x for c, x in want.items())), key=order)
    new_values = {c: vals[i] for c, vals in col_values.items()}
    ids = []
    if matches:
      if update:
        if len(matches) > 1 and on_many == 'first':
          matches = matches[:1]
        if len(matches) > 1 and on_many == 'none':
          matches = None
        if matches is not None:
          for r in matches:
            rows[r].update(new_values)
          ids = matches
          result['updateRecordIds'].append(matches)
    elif add:
      rid = ('new', len(result['addRecordIds']))
      rec = dict(DEFAULTS)
      rec.update(want)
      rec.update(new_values)
      rows[rid] = rec
      ids = [rid]
      result['addRecordIds'].append(rid)
    result['recordIds'].append(ids)
  return rows, result


def single_result(require, col_values, result):
  """The return value of AddOrUpdateRecord derived from the bulk result of one input row."""
  if not result['recordIds']:
    return {'recordIds': [], 'action': 'NONE'}
  action = 'UPDATE' if result['updateRecordIds'] else 'ADD' if result['addRecordIds'] else 'NONE'
  return {'recordIds': result['recordIds'][0], 'action': action}


def substitute(x, new_ids):
  if isinstance(x, tuple) and x and x[0] == 'new':
    return new_ids[x[1]]
  if isinstance(x, list):
    return [substitute(y, new_ids) for y in x]
  if isinstance(x, dict):
    return {substitute(k, new_ids): substitute(v, new_ids) for k, v in x.items()}
  return x


# ----------------------------------------------------------------------------------------------
# One case
# ----------------------------------------------------------------------------------------------

def table_rows(dump):
  return {r: {c: row[c] for c in COLS} for r, row in dump['T']['rows'].items()}


def plain(ret):
  """norm()-ed dict {'d': [(k, v), ...]} -> plain dict."""
  if isinstance(ret, dict) and 'd' in ret:
    return {k: v for k, v in ret['d']}
  return ret


def check_case(case):
  doc = H.Doc.load(base_snap())
  content = case['rows']
  if content:
    doc.apply([["BulkAddRecord", "T", [None] * len(content), {
        "k": [r[0] for r in content], "k2": [r[1] for r in content],
        "v": ["v%d" % (i + 1) for i in range(len(content))]}]])
  before = doc.dump()
  rows0 = table_rows(before)
  single = case['single']
  require, col_values, options = case['require'], case['col_values'], case['options']
  if single:
    ua = ["AddOrUpdateRecord", "T", require, col_values, options]
    breq = {c: [x] for c, x in require.items()}
    bcol = {c: [x] for c, x in col_values.items()}
  else:
    ua = ["BulkAddOrUpdateRecord", "T", require, col_values, options]
    breq, bcol = require, col_values

  invalid = None
  expected = []
  try:
    for sequential in (False, True):
      expected.append(ref_upsert(rows0, breq, bcol, options, sequential))
  except Invalid as e:
    invalid = e.args[0]

  g, exc = doc.try_apply([ua])
  after = doc.dump()
  desc = "%s on rows %s" % (json.dumps(ua), json.dumps(sorted(rows0.items())))

  if exc is not None:
    if after != before:
      return 'rejected', ('C28/rejected-with-trace/' + (invalid or 'valid-arguments'),
                          "%s rejected (%s) but the document changed: %s" % (
                              desc, H.exc_text(exc), H.diff_dumps(before, after)))
    g2 = doc.apply([["Calculate"]])
    if g2.stored:
      return 'rejected', ('C28/rejected-with-trace/' + (invalid or 'valid-arguments'),
                          "%s rejected (%s) but a following Calculate stores %s" % (
                              desc, H.exc_text(exc), H.stored_reprs(g2)[:3]))
    if invalid:
      return 'rejected', None
    return 'rejected', ('C28/valid-arguments-rejected/' + type(exc).__name__,
                        "%s are valid arguments but raised %s" % (desc, H.exc_text(exc)))

  ret = plain(H.group_repr(g)['retValues'][0])
  rows1 = table_rows(after)
  if invalid:
    changed = 'document changed' if after != before else 'document unchanged'
    kind = invalid
    if single and not require and not col_values:
      kind = 'single-all-empty-call'     # one input class, whatever else is wrong with it
    return 'accepted', ('C28/invalid-arguments-accepted/' + kind,
                        "%s must be rejected (%s) but returned %s (%s)" % (
                            desc, invalid, json.dumps(ret), changed))

  # New ids as reported by the action itself (checked to be fresh and distinct).
  new_rows = sorted(set(rows1) - set(rows0))
  problems = []
  for (exp_rows, exp_result) in expected:
    n_new = len(exp_result['addRecordIds'])
    if single:
      exp_ret = single_result(require, col_values, exp_result)
      got_new = ret.get('recordIds', []) if isinstance(ret, dict) and ret.get('action') == 'ADD' else []
    else:
      exp_ret = exp_result
      got_new = ret.get('addRecordIds', []) if isinstance(ret, dict) else []
    if (len(got_new) != n_new or len(set(got_new)) != n_new or
        any((not isinstance(r, int)) or r in rows0 for r in got_new)):
      problems.append(('wrong-added-ids', "expected %d fresh added ids, got %s (new rows %s)" % (
          n_new, json.dumps(got_new), new_rows)))
      continue
    exp_rows = substitute(exp_rows, got_new)
    exp_ret = substitute(exp_ret, got_new)
    if rows1 != exp_rows:
      problems.append(('wrong-table', "expected rows %s, got %s" % (
          json.dumps(sorted(exp_rows.items())), json.dumps(sorted(rows1.items())))))
      continue
    if ret != exp_ret:
      problems.append(('wrong-return', "expected return %s, got %s" % (
          json.dumps(exp_ret, sort_keys=True), json.dumps(ret, sort_keys=True))))
      continue
    # Nothing else changes: rows whose k/k2/v stay the same keep every cell; other tables too.
    exp_dump = copy.deepcopy(before)
    exp_dump['T'] = copy.deepcopy(after['T'])
    for r, row in before['T']['rows'].items():
      if rows0[r] == rows1.get(r):
        exp_dump['T']['rows'][r] = row
    if after != exp_dump:
      problems.append(('side-effect', "unexpected differences: %s" % H.diff_dumps(exp_dump, after)))
      continue
    return ('changed' if after != before else 'noop'), None
  kind, msg = problems[0]
  # One record matched by several input rows of the same call (possible only with an empty
  # require) is an input class of its own.
  seen, twice = set(), False
  for ids in expected[0][1]['updateRecordIds']:
    twice = twice or bool(seen & set(ids))
    seen |= set(ids)
  detail = 'record-matched-by-several-input-rows' if twice else ('single' if single else 'bulk')
  return 'accepted', ('C28/%s/%s' % (kind, detail), "%s: %s" % (desc, msg))


# ----------------------------------------------------------------------------------------------
# Enumeration
# ----------------------------------------------------------------------------------------------

ROW_DOMAIN = [('a', 1), ('a', 2), ('b', 1), ('b', 2)]


def tables(tier):
  """
  thorough: tables of up to 2 rows over the 4-value row domain, 3-row tables over its first 3
  values; quick: up to 1 row over the 4 values, 2-row tables over the first 3 values.
  """
  maxrows, wide = (2, 1) if tier == 'quick' else (3, 2)
  for n in range(maxrows + 1):
    for rows in itertools.product(ROW_DOMAIN if n <= wide else ROW_DOMAIN[:3], repeat=n):
      yield [list(r) for r in rows]


# (require, col_values) combinations of the bulk action, by number of input rows.
REQ = {
    0: [{}, {'k': []}],
    1: [{}, {'k': ['a']}, {'k': ['c']}, {'k': ['a'], 'k2': [1]}, {'k': ['a'], 'k2': [2]},
        {'k': ['c'], 'k2': [1]}, {'k2': [1]}],
    2: [{}, {'k': ['a', 'b']}, {'k': ['a', 'c']}, {'k': ['c', 'd']}, {'k': ['a', 'a']},
        {'k': ['a', 'a'], 'k2': [1, 2]}, {'k': ['a', 'b'], 'k2': [1, 1]},
        {'k': ['a', 'a'], 'k2': [1, 1]}, {'k': ['c', 'a'], 'k2': [1, 2]}, {'k2': [1, 2]},
        {'k2': [2, 2]}],
}
COL = {
    0: [{}, {'v': []}],
    1: [{}, {'v': ['x']}, {'v': ['x'], 'k': ['b']}, {'k2': [2]}],
    2: [{}, {'v': ['x', 'y']}, {'v': ['x', 'y'], 'k': ['b', 'c']}, {'k2': [2, 1]}],
}
MISMATCHED = [
    ({'k': ['a', 'b'], 'k2': [1]}, {}),
    ({'k': ['a']}, {'v': ['x', 'y']}),
    ({'k': ['a', 'b']}, {'v': ['x']}),
    ({}, {'v': ['x', 'y'], 'k2': [1]}),
    ({'k': ['c', 'd']}, {'v': []}),
]
CORE = [   # (require, col_values) of the bulk action in the reduced ("core") argument set
    ({}, {}),
    ({}, {'v': ['x']}), ({'k': ['a']}, {'v': ['x']}), ({'k': ['c']}, {'v': ['x']}),
    ({'k': ['a'], 'k2': [1]}, {'v': ['x']}), ({'k': ['a']}, {'v': ['x'], 'k': ['b']}),
    ({'k': ['c']}, {'v': ['x'], 'k': ['b']}), ({'k': ['a']}, {}), ({'k2': [1]}, {'v': ['x']}),
    ({}, {'v': ['x', 'y']}), ({'k': ['a', 'b']}, {'v': ['x', 'y']}),
    ({'k': ['a', 'c']}, {'v': ['x', 'y']}), ({'k': ['a', 'a']}, {'v': ['x', 'y']}),
    ({'k': ['a', 'b']}, {'v': ['x', 'y'], 'k': ['b', 'c']}),
    ({'k': ['a', 'a'], 'k2': [1, 2]}, {'v': ['x', 'y']}),
    ({'k': ['a', 'b'], 'k2': [1]}, {}), ({'k': ['a']}, {'v': ['x', 'y']}),
]
CORE_SINGLE = [
    ({}, {}), ({}, {'v': 'x'}), ({'k': 'a'}, {'v': 'x'}), ({'k': 'c'}, {'v': 'x'}),
    ({'k': 'a', 'k2': 1}, {'v': 'x'}), ({'k': 'a'}, {'v': 'x', 'k': 'b'}), ({'k': 'a'}, {}),
]


def option_sets(require, level):
  """
  core: on_many in {default, all, none} x update x add, 'bad' only with the other options at
  their defaults; allow_empty_require varied only for an empty require.
  full: on_many in {default, all, none, bad} x update x add, plus an explicit 'first' with
  update/add at their defaults; allow_empty_require varied for an empty require, and for a
  non-empty one when every other option is at its default.
  """
  on_many = [None, 'all', 'none', 'bad'] + (['first'] if level == 'full' else [])
  for om in on_many:
    for upd in (None, False):
      for add in (None, False):
        if level == 'core' and om == 'bad' and (upd is not None or add is not None):
          continue
        if om == 'first' and (upd is not None or add is not None):
          continue
        if not require or (level == 'full' and om is None and upd is None and add is None):
          aers = (None, True)
        else:
          aers = (None,)
        for aer in aers:
          o = {}
          if om is not None:
            o['on_many'] = om
          if upd is not None:
            o['update'] = upd
          if add is not None:
            o['add'] = add
          if aer is not None:
            o['allow_empty_require'] = aer
          yield o


def arg_combos(level):
  if level == 'core':
    for r, c in CORE:
      yield False, r, c
    for r, c in CORE_SINGLE:
      yield True, r, c
    return
  for n in sorted(REQ):
    for r in REQ[n]:
      for c in COL[n]:
        yield False, r, c
  for r, c in MISMATCHED:
    yield False, r, c
  # AddOrUpdateRecord: the one-row combinations, unwrapped (includes the all-empty call).
  for r in REQ[1]:
    for c in COL[1]:
      yield True, {k: v[0] for k, v in r.items()}, {k: v[0] for k, v in c.items()}


def level_for(rows, tier):
  return 'full' if (tier == 'thorough' and len(rows) <= 2) else 'core'


def cases_for_table(rows, tier):
  level = level_for(rows, tier)
  for single, r, c in arg_combos(level):
    for o in option_sets(r, level):
      yield {'rows': rows, 'single': single, 'require': r, 'col_values': c, 'options': o}


def work(args):
  tier, table_chunk = args
  E = Enum(PartReport('C28'), rule='')
  for rows in table_chunk:
    for case in cases_for_table(rows, tier):
      try:
        tag, bad = check_case(case)
      except Exception as e:   # pylint: disable=broad-except
        tag, bad = 'error', ('C28/check-error/' + type(e).__name__,
                             "case %s: %s" % (json.dumps(case), H.exc_text(e)))
      E.count(None, nontrivial=(tag == 'changed'),
              sample={'case': case, 'outcome': tag} if tag == 'changed' and len(rows) >= 2 else None)
      E.extra[tag] = E.extra.get(tag, 0) + 1
      if bad:
        E.fail(bad[0], bad[1], case=case)
  return part_of(E)


def run(tier, report):
  maxrows = 2 if tier == 'quick' else 3
  base_snap()
  tabs = list(tables(tier))
  n_core = sum(1 for _ in cases_for_table([1, 2, 3], 'quick'))
  n_full = sum(1 for _ in cases_for_table([], 'thorough'))
  E = Enum(report, rule=(
      'table T(k Text, k2 Int, v Text) holding every row list of length <= %d over k in {a,b} x '
      'k2 in {1,2} (the longest lists only over {(a,1),(a,2),(b,1)}; v distinct) x an argument set: %s. '
      'full set (%d per table): BulkAddOrUpdateRecord with 0..2 input rows, require in {none, k, '
      'k+k2, k2} with matching / non-matching / repeated keys x col_values in {none, v, v+k '
      '(overwrites the key), k2}, 5 mismatched-length shapes, AddOrUpdateRecord with all one-row '
      'combinations, options on_many in {default, all, none, bad} x update in {default, '
      'False} x add in {default, False} (+ explicit first) x allow_empty_require in {default, '
      'True} (varied when require is empty or all other options are default). core set (%d per table): 17 bulk and 7 single '
      '(require, col_values) shapes of the same kinds, on_many in {default, all, none} x update x '
      'add, bad on_many with other options default, allow_empty_require varied for empty '
      'require. Oracle: reference upsert from the docstring (lookups by equality in row id '
      'order; first/all/none; add {**require, **col_values}); table, returned ids and every '
      'other cell of the document compared; invalid arguments must raise with dump() identical '
      'and a following Calculate storing nothing. non-trivial = the action changed the table'
      % (maxrows, 'core set on every table' if tier == 'quick' else
         'full set on tables of <= 2 rows, core set on tables of 3 rows', n_full, n_core)))
  chunks = [(tier, tabs[i::48]) for i in range(48)]
  chunks = [c for c in chunks if c[1]]
  parts = pmap(work, chunks)
  viols = sorted((v for part in parts for v in part['violations']),
                 key=lambda v: (len(v['case']['rows']), len(json.dumps(v['case']))))
  for part in parts:
    part['violations'] = []
    E.merge(part)
  E.merge({'evaluations': 0, 'nontrivial': [], 'nontrivial_count': 0, 'samples': [],
           'violations': viols, 'extra': {}})
  E.finish(exhaustive=True)
  report.assumptions.append(
      'when input rows of one bulk call can influence each other (col_values overwrite a key '
      'column, or require is empty) both readings are accepted: every input row looked up in the '
      'table as it was before the call, or in the table as left by the previous input rows')
  report.assumptions.append("formula columns and 'id' in require/col_values are not enumerated; "
                            "ids of added records are taken from the returned value and checked "
                            "to be fresh and distinct (their allocation is C27's subject)")


def replay(viol):
  base_snap()
  tag, bad = check_case(viol['case'])
  print("outcome=%s -> %s" % (tag, bad))
  if bad:
    print("VIOLATION property=C28 replay=(this file) reproduced")
    return 1
  return 0
