"""C36 Page-tree indentation fixes always yield a valid tree (exhaustive enumeration of
treeview.fix_indents, and of page removals through the engine with every page order)."""
import sys
import itertools
from collections import namedtuple

from mc import harness as H          # sets sys.path to the repo's sandbox/grist
from mc.enumprop import Enum

import treeview                       # the real code under test

LEVEL = 'exploration'
Item = namedtuple('Item', ('id', 'indentation'))


def oracle(indents, deleted, fixes):
  """Returns None if ok, else (key, message)."""
  ids = list(range(1, len(indents) + 1))
  fixmap = {}
  for (i, ind) in fixes:
    if i in fixmap:
      return ('C36/duplicate-fix', "page %s fixed twice" % i)
    fixmap[i] = ind
  for i in fixmap:
    if i in deleted:
      return ('C36/fix-for-removed-page', "fix returned for removed page %s" % i)
    if i not in ids:
      return ('C36/fix-for-unknown-page', "fix for unknown page %s" % i)
  final = [(i, fixmap.get(i, indents[i - 1])) for i in ids if i not in deleted]
  prev = None
  for (i, ind) in final:
    orig = indents[i - 1]
    limit = 0 if prev is None else prev + 1
    if ind < 0 or ind > limit:
      return ('C36/invalid-tree', "page %s ends at level %s but at most %s is valid" % (i, ind, limit))
    if ind > orig:
      return ('C36/deeper-than-before', "page %s made deeper: %s -> %s" % (i, orig, ind))
    prev = ind
  # "changes only pages that would otherwise violate this": treeview.py documents that children
  # of a removed page are promoted to the removed page's level (they must not silently become
  # children of the page before it), so the cap after a removed page is that page's own level.
  cap = 0
  for i in ids:
    orig = indents[i - 1]
    level = min(cap, orig)
    if i in deleted:
      cap = level
      continue
    now = fixmap.get(i, orig)
    if now != orig and orig <= cap:
      return ('C36/needless-change', "page %s changed %s -> %s although %s was valid" % (
          i, orig, now, orig))
    cap = now + 1
  return None


def cases(tier):
  maxlen = 5 if tier == 'quick' else 6
  for n in range(0, maxlen + 1):
    for indents in itertools.product(range(4), repeat=n):
      for k in range(0, n + 1):
        for deleted in itertools.combinations(range(1, n + 1), k):
          yield indents, frozenset(deleted)


# ---------------------------------------------------------------------------------------------
# Engine part: the same law through UserActions._removePageRecords (BulkRemoveRecord _grist_Pages)
# ---------------------------------------------------------------------------------------------
_SNAP = []
NPAGES = 4


def base_snap():
  if not _SNAP:
    doc = H.Doc.new()
    for i in range(NPAGES):
      doc.apply([["AddTable", "T%d" % (i + 1), [{"id": "a", "type": "Int"}]]])
    pages = sorted(doc.dump()['_grist_Pages']['rows'])
    assert pages == list(range(1, NPAGES + 1)), pages
    _SNAP.append(doc.snapshot())
  return _SNAP[0]


def valid_trees(n):
  def rec(prefix):
    if len(prefix) == n:
      yield tuple(prefix)
      return
    for v in range(0, (prefix[-1] + 1 if prefix else 0) + 1):
      for t in rec(prefix + [v]):
        yield t
  return rec([])


def _pos(v):
  return float(v['f']) if isinstance(v, dict) and 'f' in v else v


def engine_case(case):
  """case = (perm, indents, deleted): perm[k] = row id of the page shown at position k, indents
  in page order, deleted = positions (1-based) in page order.  Returns None or (key, message)."""
  perm, indents, deleted = case
  doc = H.Doc.load(base_snap())
  n = len(perm)
  g, e = doc.try_apply([["BulkUpdateRecord", "_grist_Pages", list(perm),
                         {"pagePos": [float(k + 1) for k in range(n)], "indentation": list(indents)}]])
  if e is not None:
    return ('C36/engine/setup-raised', "arranging pages %s raised %s" % (case, H.exc_text(e)))
  rows = doc.dump()['_grist_Pages']['rows']
  order = sorted(rows, key=lambda r: _pos(rows[r]['pagePos']))
  if order != list(perm) or [rows[r]['indentation'] for r in order] != list(indents):
    return ('C36/engine/setup-differs', "pages arranged as %s, wanted %s/%s" % (
        [(r, rows[r]['indentation']) for r in order], perm, indents))
  rem = [perm[k - 1] for k in sorted(deleted)]
  g, e = doc.try_apply([["BulkRemoveRecord", "_grist_Pages", rem]])
  if e is not None:
    return ('C36/engine/remove-raised/' + type(e).__name__,
            "removing pages %s (positions %s of %s, levels %s) raised %s" % (
                rem, sorted(deleted), list(perm), list(indents), H.exc_text(e)))
  after = doc.dump()['_grist_Pages']['rows']
  left = [r for r in order if r not in rem]
  if sorted(after) != sorted(left):
    return ('C36/engine/wrong-pages-removed', "pages left %s, expected %s" % (sorted(after), sorted(left)))
  if sorted(left, key=lambda r: _pos(after[r]['pagePos'])) != left:
    return ('C36/engine/page-order-changed', "page order %s became %s" % (
        left, sorted(left, key=lambda r: _pos(after[r]['pagePos']))))
  pos = {r: k + 1 for k, r in enumerate(order)}
  fixes = [(pos[r], after[r]['indentation']) for r in left if after[r]['indentation'] != indents[pos[r] - 1]]
  bad = oracle(tuple(indents), frozenset(deleted), fixes)
  if bad:
    return ('C36/engine/' + bad[0].split('/', 1)[1],
            "%s (row ids in page order %s, levels %s, removed positions %s -> levels %s)" % (
                bad[1], list(perm), list(indents), sorted(deleted),
                [(r, after[r]['indentation']) for r in left]))
  return None


def engine_cases(tier):
  perms = list(itertools.permutations(range(1, NPAGES + 1)))
  for perm in perms:
    for indents in valid_trees(NPAGES):
      for k in range(1, NPAGES + 1):
        for deleted in itertools.combinations(range(1, NPAGES + 1), k):
          yield (perm, indents, deleted)


def engine_worker(chunk):
  from mc.enumprop import PartReport, part_of
  E = Enum(PartReport('C36'), rule='')
  base_snap()
  for case in chunk:
    bad = engine_case(case)
    E.count(('engine',) + case, nontrivial=True)
    if bad:
      E.fail(bad[0], bad[1], case={'engine': True, 'perm': list(case[0]), 'indents': list(case[1]),
                                   'deleted': list(case[2])})
  return part_of(E)


def run(tier, report):
  from mc.enumprop import pmap
  base_snap()
  ecases = list(engine_cases(tier))
  parts = pmap(engine_worker, [ecases[i::64] for i in range(64)])
  E = Enum(report, rule='every indentation sequence of length <= %d over levels {0,1,2,3} x every '
                        'subset of removed pages; non-trivial = fix_indents returned at least one '
                        'fix; oracle: valid tree, never deeper, only violating pages changed'
                        % (5 if tier == 'quick' else 6))
  for indents, deleted in cases(tier):
    items = [Item(i + 1, ind) for i, ind in enumerate(indents)]
    try:
      fixes = treeview.fix_indents(items, deleted)
    except Exception as e:   # pylint: disable=broad-except
      E.count((indents, tuple(sorted(deleted))))
      E.fail('C36/raised/' + type(e).__name__, "fix_indents raised %s" % H.exc_text(e),
             case={'indents': indents, 'deleted': sorted(deleted)})
      continue
    E.count((indents, tuple(sorted(deleted))), nontrivial=bool(fixes),
            sample={'indents': indents, 'deleted': sorted(deleted), 'fixes': fixes} if fixes else None)
    bad = oracle(indents, deleted, fixes)
    if bad:
      E.fail(bad[0], "%s (indents=%s removed=%s fixes=%s)" % (bad[1], list(indents), sorted(deleted), fixes),
             case={'indents': list(indents), 'deleted': sorted(deleted)})
  for part in parts:
    E.merge(part)
  E.finish(exhaustive=True, engine_cases=len(ecases))
  report.coverage['engine_rule'] = (
      'through the engine: %d pages whose row ids are arranged in %s page orders (pagePos) x every '
      'valid tree of levels x every non-empty set of pages removed by one BulkRemoveRecord on '
      '_grist_Pages (UserActions._removePageRecords); same oracle on the levels read back'
      % (NPAGES, 'all 24'))
  report.assumptions.append('pages are given in pagePos order, as _removePageRecords passes them')


def replay(viol):
  c = viol['case']
  if c.get('engine'):
    bad = engine_case((tuple(c['perm']), tuple(c['indents']), tuple(c['deleted'])))
    print(bad)
    if bad:
      print("VIOLATION property=C36 replay=(this file) reproduced")
      return 1
    return 0
  items = [Item(i + 1, ind) for i, ind in enumerate(c['indents'])]
  fixes = treeview.fix_indents(items, set(c['deleted']))
  bad = oracle(tuple(c['indents']), set(c['deleted']), fixes)
  print("fixes=%s -> %s" % (fixes, bad))
  if bad:
    print("VIOLATION property=C36 replay=(this file) reproduced")
    return 1
  return 0
