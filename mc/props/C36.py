"""C36 Page-tree indentation fixes always yield a valid tree (exhaustive enumeration)."""
import sys
import itertools
from collections import namedtuple

from mc import harness as H          # sets sys.path to the repo's sandbox/grist
from mc.enumprop import Enum

import treeview                       # the real code under test

LEVEL = 'exploration'
Item = namedtuple('Item', ('id', 'indentation'))


def oracle(indents, deleted, fixes):
  """Returns None if ok, else (key, message)."""
  ids = list(range(1, len(indents) + 1))
  fixmap = {}
  for (i, ind) in fixes:
    if i in fixmap:
      return ('C36/duplicate-fix', "page %s fixed twice" % i)
    fixmap[i] = ind
  for i in fixmap:
    if i in deleted:
      return ('C36/fix-for-removed-page', "fix returned for removed page %s" % i)
    if i not in ids:
      return ('C36/fix-for-unknown-page', "fix for unknown page %s" % i)
  final = [(i, fixmap.get(i, indents[i - 1])) for i in ids if i not in deleted]
  prev = None
  for (i, ind) in final:
    orig = indents[i - 1]
    limit = 0 if prev is None else prev + 1
    if ind < 0 or ind > limit:
      return ('C36/invalid-tree', "page %s ends at level %s but at most %s is valid" % (i, ind, limit))
    if ind > orig:
      return ('C36/deeper-than-before', "page %s made deeper: %s -> %s" % (i, orig, ind))
    prev = ind
  # "changes only pages that would otherwise violate this": treeview.py documents that children
  # of a removed page are promoted to the removed page's level (they must not silently become
  # children of the page before it), so the cap after a removed page is that page's own level.
  cap = 0
  for i in ids:
    orig = indents[i - 1]
    level = min(cap, orig)
    if i in deleted:
      cap = level
      continue
    now = fixmap.get(i, orig)
    if now != orig and orig <= cap:
      return ('C36/needless-change', "page %s changed %s -> %s although %s was valid" % (
          i, orig, now, orig))
    cap = now + 1
  return None


def cases(tier):
  maxlen = 5 if tier == 'quick' else 6
  for n in range(0, maxlen + 1):
    for indents in itertools.product(range(4), repeat=n):
      for k in range(0, n + 1):
        for deleted in itertools.combinations(range(1, n + 1), k):
          yield indents, frozenset(deleted)


def run(tier, report):
  E = Enum(report, rule='every indentation sequence of length <= %d over levels {0,1,2,3} x every '
                        'subset of removed pages; non-trivial = fix_indents returned at least one '
                        'fix; oracle: valid tree, never deeper, only violating pages changed'
                        % (5 if tier == 'quick' else 6))
  for indents, deleted in cases(tier):
    items = [Item(i + 1, ind) for i, ind in enumerate(indents)]
    try:
      fixes = treeview.fix_indents(items, deleted)
    except Exception as e:   # pylint: disable=broad-except
      E.count((indents, tuple(sorted(deleted))))
      E.fail('C36/raised/' + type(e).__name__, "fix_indents raised %s" % H.exc_text(e),
             case={'indents': indents, 'deleted': sorted(deleted)})
      continue
    E.count((indents, tuple(sorted(deleted))), nontrivial=bool(fixes),
            sample={'indents': indents, 'deleted': sorted(deleted), 'fixes': fixes} if fixes else None)
    bad = oracle(indents, deleted, fixes)
    if bad:
      E.fail(bad[0], "%s (indents=%s removed=%s fixes=%s)" % (bad[1], list(indents), sorted(deleted), fixes),
             case={'indents': list(indents), 'deleted': sorted(deleted)})
  E.finish(exhaustive=True)
  report.assumptions.append('pages are given in pagePos order, as _removePageRecords passes them')


def replay(viol):
  c = viol['case']
  items = [Item(i + 1, ind) for i, ind in enumerate(c['indents'])]
  fixes = treeview.fix_indents(items, set(c['deleted']))
  bad = oracle(tuple(c['indents']), set(c['deleted']), fixes)
  print("fixes=%s -> %s" % (fixes, bad))
  if bad:
    print("VIOLATION property=C36 replay=(this file) reproduced")
    return 1
  return 0
