"""C11 Two-way references stay symmetric."""
from mc.histprop import HistProp
from mc import worlds as W
from mc.monitors2 import TwoWay

LEVEL = 'model_checking'
NAMES = ['W_2way']
D = W.depths_for(NAMES, quick=2, thorough=3)
def _worlds(tier):
  ws = W.make(NAMES)
  for w in ws:
    # a rejected change must leave no trace in the reference index either: histories are extended
    # past failing bundles (rejection followed by legal edits)
    w.continue_after_failure = True
  return ws


P = HistProp('C11', _worlds, lambda w, t: [TwoWay()], D,
             rule='all histories over W_2way (edits on either side incl. duplicate targets in one '
                  'bulk action, removals, Ref<->RefList switches, link removal/creation); for every '
                  'pair linked through reverseCol: b in refs(A[a].x) <=> a in refs(B[b].xs) over '
                  'existing rows; a rejected bundle must leave the dump unchanged')
run, replay = P.run, P.replay
