"""C11 Two-way references stay symmetric."""
from mc.histprop import HistProp
from mc import worlds as W
from mc.monitors2 import TwoWay

LEVEL = 'model_checking'
NAMES = ['W_2way']
D = W.depths_for(NAMES, quick=2, thorough=3)
P = HistProp('C11', lambda t: W.make(NAMES), lambda w, t: [TwoWay()], D,
             rule='all histories over W_2way (edits on either side incl. duplicate targets in one '
                  'bulk action, removals, Ref<->RefList switches, link removal/creation); for every '
                  'pair linked through reverseCol: b in refs(A[a].x) <=> a in refs(B[b].xs) over '
                  'existing rows; a rejected bundle must leave the dump unchanged')
run, replay = P.run, P.replay
