"""C15 Trigger formulas recalculate exactly when configured."""
from mc.histprop import HistProp
from mc import worlds as W
from mc.monitors2 import Triggers, TriggerReplay

LEVEL = 'model_checking'
NAMES = ['W_trig']
D = W.depths_for(NAMES, quick=2, thorough=3)
P = HistProp('C15', lambda t: W.make(NAMES), lambda w, t: [Triggers(), TriggerReplay()], D,
             rule='all histories over W_trig, whose trigger formulas are all `(value or 0)+1` so each '
                  'cell counts its own recalculations; three-valued reference model per (row, '
                  'trigger column, bundle): MUST (+1), MUST-NOT (+0), explicit value kept; MAY cases '
                  '(same-value writes, configuration changed in the bundle) are not asserted; plus undo then redo '
                  'of every bundle: no trigger cell may differ from its recorded value')
run, replay = P.run, P.replay
