"""C07 Reopening a saved document changes nothing."""
from mc.histprop import HistProp
from mc import worlds as W
from mc.monitors import Reopen

LEVEL = 'model_checking'

P = HistProp('C07', W.history_worlds, lambda w, t: [Reopen()],
             {t: W.depths(t) for t in ('quick', 'thorough')},
             rule='every state reached by a history is saved the way Node does (fetch_table reply, '
                  'non-primitive values marshalled to blobs, one marshalled dict per table) and '
                  'loaded through main.table_data_from_db/load_meta_tables/load_table + Calculate; '
                  'the Calculate must emit no stored action and the dump must be identical')
run, replay = P.run, P.replay
