"""C39 RenameChoices renames exactly the mapped choices (exhaustive enumeration).

Documents with a Choice and a ChoiceList column holding small combinations of choice values,
wrong-type values and gaps, saved filters of several shapes, and a set of rename maps (single,
swap, chain, merge, identity, unused, empty-string key); the whole document after RenameChoices is
compared with a simultaneous substitution applied to the document before.
"""
import copy
import itertools
import json

from mc import harness as H
from mc.enumprop import Enum, PartReport, part_of, pmap

LEVEL = 'exploration'

# Raw (encoded) cell values.
CHOICE_DOMAIN = ['a', 'b', 'c', '', None, 5, ['L', 'a', 'b']]
LIST_DOMAIN = [['L', 'a', 'b'], ['L', 'a', 'a'], ['L', 'b', 'c'], ['L', '', 'a'], ['L'], None,
               'a', 5]
RENAMES = [
    {'a': 'x'},
    {'a': 'b', 'b': 'a'},            # swap
    {'a': 'b', 'b': 'c'},            # chain
    {'a': 'x', 'b': 'x'},            # merge
    {'a': 'a'},                      # identity
    {'q': 'y'},                      # unused
    {'': 'z'},                       # the empty string as a choice
    {},
]
# Saved filters of the renamed column: list of (section, filter text).
FILTERS = {
    'none': None,
    'included': [(1, '{"included":["a","b"]}')],
    'excluded': [(1, '{"excluded":["b"]}')],
    'mixed': [(1, '{"included":["a",5,null,true,"b",["a"]]}')],
    'blank': [(1, ''), (2, '{"included":[]}')],
    'two-sections': [(1, '{"included":["a"]}'), (2, '{"excluded":["a","c",""]}')],
    'range': [(1, '{"min":1,"max":5}')],
}
FILTER_ORDER = ['none', 'included', 'excluded', 'mixed', 'blank', 'two-sections', 'range']

_BASE = {}


def base():
  if not _BASE:
    doc = H.Doc.new()
    doc.apply([["AddTable", "T", [{"id": "c", "type": "Choice"}, {"id": "cl", "type": "ChoiceList"},
                                  {"id": "d", "type": "Choice"}, {"id": "t", "type": "Text"}]]])
    doc.apply([["AddTable", "U", [{"id": "c", "type": "Choice"}, {"id": "cl", "type": "ChoiceList"}]]])
    doc.apply([["BulkAddRecord", "U", [None, None], {"c": ["a", "b"],
                                                     "cl": [["L", "a", "b"], ["L", "b"]]}]])
    cols = doc.fetch('_grist_Tables_column')
    refs = {}
    tabs = doc.fetch('_grist_Tables')
    tname = dict(zip(tabs[2], tabs[3]['tableId']))
    for r, parent, cid in zip(cols[2], cols[3]['parentId'], cols[3]['colId']):
      refs[(tname[parent], cid)] = r
    secs = doc.fetch('_grist_Views_section')
    tsecs = [r for r, tr in zip(secs[2], secs[3]['tableRef']) if tname[tr] == 'T']
    _BASE['snap'] = doc.snapshot()
    _BASE['refs'] = refs
    _BASE['secs'] = tsecs[:2]
    assert len(_BASE['secs']) == 2
  return _BASE


def build_snapshot(case):
  b = base()
  snap = dict(b['snap'])
  row_ids = case['row_ids']
  n = len(row_ids)
  target = case['col']
  cells = case['cells']
  other_c = [CHOICE_DOMAIN[i % len(CHOICE_DOMAIN)] for i in range(n)]
  other_cl = [LIST_DOMAIN[i % len(LIST_DOMAIN)] for i in range(n)]
  data = {
      'manualSort': [float(r) for r in row_ids],
      'c': cells if target == 'c' else other_c,
      'cl': cells if target == 'cl' else other_cl,
      'd': other_c,
      't': ['a'] * n,
  }
  snap['T'] = json.dumps(["TableData", "T", row_ids, data])
  flt = FILTERS[case['filters']]
  if flt is not None:
    recs = [(b['secs'][sec - 1], b['refs'][('T', target)], text) for sec, text in flt]
    # filters of other columns holding the same choices: must stay as they are
    recs.append((b['secs'][0], b['refs'][('T', 'd')], '{"included":["a","b",""]}'))
    recs.append((b['secs'][0], b['refs'][('T', 'cl' if target == 'c' else 'c')], '{"excluded":["a"]}'))
    recs.append((b['secs'][0], b['refs'][('U', target)], '{"included":["a","b"]}'))
    snap['_grist_Filters'] = json.dumps(["TableData", "_grist_Filters", list(range(1, len(recs) + 1)), {
        'viewSectionRef': [r[0] for r in recs], 'colRef': [r[1] for r in recs],
        'filter': [r[2] for r in recs], 'pinned': [False] * len(recs)}])
  return snap


# ----------------------------------------------------------------------------------------------
# Reference: simultaneous substitution
# ----------------------------------------------------------------------------------------------

def ren(renames, v):
  return renames.get(v, v) if isinstance(v, str) else v


def expected_cell(col, v, renames):
  if col == 'c':
    return ren(renames, v)
  if isinstance(v, list) and v and v[0] == 'L' and all(isinstance(x, str) for x in v[1:]):
    return ['L'] + [ren(renames, x) for x in v[1:]]
  return v      # None, alt text or another wrong-type value: not a choice list


def expected_filter(text, renames):
  if not text:
    return text
  spec = json.loads(text)
  out = {}
  for key, val in spec.items():
    out[key] = [ren(renames, x) for x in val] if isinstance(val, list) else val
  return out


def canon_filters(dump, col_ref):
  """Replaces the filter text of the given column's records by its parsed form."""
  for row in dump['_grist_Filters']['rows'].values():
    if row['colRef'] == col_ref and row['filter']:
      try:
        row['filter'] = {'json': json.loads(row['filter'])}
      except ValueError:
        pass


def check_case(case):
  b = base()
  doc = H.Doc.load(build_snapshot(case))
  col = case['col']
  renames = case['renames']
  col_ref = b['refs'][('T', col)]
  before = doc.dump()
  ua = ["RenameChoices", "T", col, renames]
  desc = "%s with %s cells %s (row ids %s), filters %s" % (
      json.dumps(ua), 'Choice' if col == 'c' else 'ChoiceList', json.dumps(case['cells']),
      case['row_ids'], json.dumps(FILTERS[case['filters']]))
  g, exc = doc.try_apply([ua])
  if exc is not None:
    if isinstance(exc, TypeError) and case['filters'].startswith('range'):
      feature = 'range-filter'
    elif isinstance(exc, AssertionError) and 'non-existent record' in str(exc):
      feature = 'update-of-nonexistent-row'
    else:
      feature = 'other'
    return 'raised', ('C39/raised/%s/%s' % (type(exc).__name__, feature),
                      "%s raised %s" % (desc, H.exc_text(exc)))
  after = doc.dump()

  expect = copy.deepcopy(before)
  changed = False
  for r, row in expect['T']['rows'].items():
    new = expected_cell(col, row[col], renames)
    changed = changed or new != row[col]
    row[col] = new
  for row in expect['_grist_Filters']['rows'].values():
    if row['colRef'] == col_ref and row['filter']:
      new = expected_filter(row['filter'], renames)
      changed = changed or new != json.loads(row['filter'])
      row['filter'] = {'json': new}
  canon_filters(after, col_ref)
  tag = 'changed' if changed else 'unchanged'
  if after == expect:
    return tag, None
  diffs = H.diff_dumps(expect, after)
  # classify: which part is wrong
  cells_ok = all(after['T']['rows'].get(r, {}).get(col) == row[col]
                 for r, row in expect['T']['rows'].items())
  filt_ok = after['_grist_Filters'] == expect['_grist_Filters']
  exp_wo = copy.deepcopy(expect)
  act_wo = copy.deepcopy(after)
  for dmp in (exp_wo, act_wo):
    for row in dmp['T']['rows'].values():
      row.pop(col, None)
    dmp.pop('_grist_Filters')
  if exp_wo != act_wo:
    kind = 'something-else-changed'
  elif not cells_ok:
    kind = 'wrong-cells/' + ('choice' if col == 'c' else 'choicelist')
  elif not filt_ok:
    own = lambda d: {r: row for r, row in d['_grist_Filters']['rows'].items() if row['colRef'] == col_ref}
    kind = 'wrong-filters' if own(after) != own(expect) else 'filter-of-another-column-changed'
  else:
    kind = 'something-else-changed'
  return tag, ('C39/' + kind, "%s: expected vs actual: %s" % (desc, diffs))


# ----------------------------------------------------------------------------------------------
# Enumeration
# ----------------------------------------------------------------------------------------------

def contents(col, maxlen):
  dom = CHOICE_DOMAIN if col == 'c' else LIST_DOMAIN
  for n in range(maxlen + 1):
    for cells in itertools.product(dom, repeat=n):
      yield list(range(1, n + 1)), list(cells)
  # every value of the domain at once
  yield list(range(1, len(dom) + 1)), list(dom)
  # gaps in the row ids (slots of removed rows hold the column default)
  yield [2, 4], [dom[0], dom[1]]
  yield [1, 3, 6], [dom[1], dom[0], dom[2]]


def cases(tier):
  maxlen = 1 if tier == 'quick' else 2
  for col in ('c', 'cl'):
    for row_ids, cells in contents(col, maxlen):
      for f in FILTER_ORDER:
        for ri, _ in enumerate(RENAMES):
          yield {'col': col, 'row_ids': row_ids, 'cells': cells, 'filters': f,
                 'renames': RENAMES[ri]}


def simplicity(case):
  return (len(case['cells']), FILTER_ORDER.index(case['filters']), len(case['renames']))


def work(chunk):
  E = Enum(PartReport('C39'), rule='')
  for case in chunk:
    try:
      tag, bad = check_case(case)
    except Exception as e:   # pylint: disable=broad-except
      tag, bad = 'error', ('C39/check-error/' + type(e).__name__,
                           "case %s: %s" % (json.dumps(case), H.exc_text(e)))
    E.count(None, nontrivial=(tag == 'changed'),
            sample={'case': case, 'outcome': tag} if tag == 'changed' and len(case['cells']) == 2
            and case['filters'] == 'two-sections' else None)
    E.extra[tag] = E.extra.get(tag, 0) + 1
    if bad:
      E.fail(bad[0], bad[1], case=case)
  return part_of(E)


def run(tier, report):
  maxlen = 1 if tier == 'quick' else 2
  base()
  E = Enum(report, rule=(
      'document loaded per case with table T(c Choice, cl ChoiceList, d Choice, t Text) and a '
      'second table U with the same choices; target column in {c, cl} x cells = every tuple of '
      'length <= %d over %s (Choice) / %s (ChoiceList), plus all domain values at once, plus two '
      'contents with gaps in the row ids x saved filters of the column in %s (always together '
      'with filters of other columns and of U.<col> that must not change) x rename maps %s. '
      'Oracle: RenameChoices must not raise; the full dump afterwards equals the dump before with '
      'the simultaneous substitution applied to string cells (Choice) / members of all-string '
      'lists (ChoiceList) of that column and to string members of the lists in that column\'s '
      'filter JSON (compared parsed); every other cell of every table identical. non-trivial = '
      'the reference changes at least one cell or filter'
      % (maxlen, json.dumps(CHOICE_DOMAIN), json.dumps(LIST_DOMAIN), json.dumps(FILTERS),
         json.dumps(RENAMES))))
  all_cases = sorted(cases(tier), key=simplicity)
  chunks = [all_cases[i::48] for i in range(48)]
  parts = pmap(work, [c for c in chunks if c])
  viols = sorted((v for part in parts for v in part['violations']),
                 key=lambda v: simplicity(v['case']))
  for part in parts:
    part['violations'] = []
    E.merge(part)
  E.merge({'evaluations': 0, 'nontrivial': [], 'nontrivial_count': 0, 'samples': [],
           'violations': viols, 'extra': {}})
  E.finish(exhaustive=True)
  report.assumptions.append('cells are loaded as stored data (so wrong-type values such as the '
                            'number 5 in a Choice column exist, as after a type change); formula '
                            'Choice columns and lists with non-string members are not enumerated')
  report.assumptions.append('a filter may have any FilterSpec shape (included / excluded lists, '
                            'min / max bounds), whatever the column type')


def replay(viol):
  base()
  tag, bad = check_case(viol['case'])
  print("outcome=%s -> %s" % (tag, bad))
  if bad:
    print("VIOLATION property=C39 replay=(this file) reproduced")
    return 1
  return 0
