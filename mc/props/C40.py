"""C40 Predicate formula parse trees are faithful (exhaustive enumeration of a bounded grammar).

Every expression is generated here from a small spec tree, rendered to text by an independent
renderer (Python's documented operator precedence, `$x` for `rec.x`), and then given to
predicate_formula.parse_predicate_formula.  Oracle, per expression:
  1. the returned tree survives a strict JSON round trip unchanged (json.dumps(allow_nan=False));
  2. it is, type-strictly, the spec tree the text was rendered from (And/Or flattened exactly where
     Python flattens them, tuples as List, a trailing comment as ['Comment', tree, text]);
  3. a small interpreter of the documented node semantics, run on the JSON-round-tripped tree,
     gives the same value (type-strict, NaN-aware, tuples == lists) or the same exception class as
     Python's own eval of the text with `$x` spelled `rec.x`, in three environments.
A menu of unsupported syntax, each construct placed in twelve contexts, and of plainly invalid text
must raise SyntaxError.
"""
import ast
import json
import math
import operator
import warnings
import itertools

from mc import harness as H
from mc.enumprop import Enum, PartReport, part_of, pmap

import predicate_formula

LEVEL = 'exploration'

# ----------------------------------------------------------------------------------------------
# Spec expressions: (grist text, python text, expected tree, precedence, tag)
# ----------------------------------------------------------------------------------------------
# Precedence levels of the Python grammar (low to high).
P_OR, P_AND, P_NOT, P_CMP, P_ADD, P_MUL, P_UNARY, P_ATOM = 1, 2, 3, 4, 5, 6, 7, 8


class X(object):
  __slots__ = ('g', 'p', 't', 'prec', 'tag', 'numlit')

  def __init__(self, g, p, t, prec, tag, numlit=False):
    self.g, self.p, self.t, self.prec, self.tag, self.numlit = g, p, t, prec, tag, numlit


ARITH = {'Add': ('+', P_ADD), 'Sub': ('-', P_ADD), 'Mult': ('*', P_MUL), 'Div': ('/', P_MUL),
         'Mod': ('%', P_MUL)}
CMP = {'Eq': '==', 'NotEq': '!=', 'Lt': '<', 'LtE': '<=', 'Gt': '>', 'GtE': '>=',
       'Is': 'is', 'IsNot': 'is not', 'In': 'in', 'NotIn': 'not in'}
BINOPS = list(ARITH) + list(CMP)
BOOL = {'And': ('and', P_AND), 'Or': ('or', P_OR)}


def _par(x, need):
  return ('(%s)' % x.g, '(%s)' % x.p) if need else (x.g, x.p)


def const(text, value):
  return X(text, text, ['Const', value], P_ATOM, 'const',
           numlit=isinstance(value, (int, float)) and not isinstance(value, bool))


def name(n):
  return X(n, n, ['Name', n], P_ATOM, 'name')


def dollar(col):
  return X('$' + col, 'rec.' + col, ['Attr', ['Name', 'rec'], col], P_ATOM, 'attr')


def attr(x, a, mode='min'):
  g, p = _par(x, x.prec < P_ATOM or x.numlit)
  return X('%s.%s' % (g, a), '%s.%s' % (p, a), ['Attr', x.t, a], P_ATOM, 'attr')


def binop(op, l, r, mode='min'):
  if op in ARITH:
    sym, prec = ARITH[op]
    nl, nr = l.prec < prec, r.prec <= prec
  else:
    sym, prec = CMP[op], P_CMP
    nl, nr = l.prec <= prec, r.prec <= prec          # comparisons chain: always parenthesise
  if mode == 'full':
    nl, nr = l.prec < P_ATOM, r.prec < P_ATOM
  (lg, lp), (rg, rp) = _par(l, nl), _par(r, nr)
  return X('%s %s %s' % (lg, sym, rg), '%s %s %s' % (lp, sym, rp), [op, l.t, r.t], prec,
           'cmp' if op in CMP else 'arith')


def boolop(op, xs, mode='min'):
  sym, prec = BOOL[op]
  gs, ps, ts = [], [], [op]
  for i, x in enumerate(xs):
    if mode == 'full':
      need = x.prec < P_ATOM
    else:
      need = x.prec < prec or (x.prec == prec and i > 0)
    g, p = _par(x, need)
    gs.append(g)
    ps.append(p)
    if not need and x.t[0] == op and x.tag == 'bool':
      ts.extend(x.t[1:])           # Python flattens `a and b and c` into one BoolOp
    else:
      ts.append(x.t)
  return X((' %s ' % sym).join(gs), (' %s ' % sym).join(ps), ts, prec, 'bool')


def notop(x, mode='min'):
  g, p = _par(x, x.prec < P_NOT if mode == 'min' else x.prec < P_ATOM)
  return X('not ' + g, 'not ' + p, ['Not', x.t], P_NOT, 'not')


def listof(xs):
  return X('[%s]' % ', '.join(x.g for x in xs), '[%s]' % ', '.join(x.p for x in xs),
           ['List'] + [x.t for x in xs], P_ATOM, 'list')


def tupleof(xs):
  inner_g = ', '.join(x.g for x in xs) + (',' if len(xs) == 1 else '')
  inner_p = ', '.join(x.p for x in xs) + (',' if len(xs) == 1 else '')
  return X('(%s)' % inner_g, '(%s)' % inner_p, ['List'] + [x.t for x in xs], P_ATOM, 'tuple')


def call(f, args=(), kwargs=()):
  g, p = _par(f, f.prec < P_ATOM or f.numlit)
  ag = [x.g for x in args] + ['%s=%s' % (k, x.g) for k, x in kwargs]
  ap = [x.p for x in args] + ['%s=%s' % (k, x.p) for k, x in kwargs]
  t = ['Call', f.t] + [x.t for x in args]
  if kwargs:
    t.append(['keywords'] + [[k, x.t] for k, x in kwargs])
  return X('%s(%s)' % (g, ', '.join(ag)), '%s(%s)' % (p, ', '.join(ap)), t, P_ATOM, 'call')


# ----------------------------------------------------------------------------------------------
# Leaves
# ----------------------------------------------------------------------------------------------
BIG = 12345678901234567890123

CONSTS = [
    ('1', 1), ('0', 0), ('2.5', 2.5), ("'a'", 'a'), ('"it\'s"', "it's"), ("'q\"d'", 'q"d'),
    ("'h#x'", 'h#x'), ("'$x'", '$x'), ("'cost $5 # no'", 'cost $5 # no'), ("''", ''), ('True', True),
    ('False', False), ('None', None), ('0x10', 16), ('1_000', 1000), ('1e3', 1000.0), ('1.', 1.0),
    ('.5', 0.5), ("'é'", u'é'), ("r'a\\b'", 'a\\b'), ("'a' 'b'", 'ab'), ("'''t'''", 't'),
    ("'\\n'", '\n'), ("'\\x00'", '\x00'), (str(BIG), BIG), ("u'u'", 'u'), ("'\\ud800'", '\ud800'),
    ("'\\''", "'"), ('"""a\'b"c"""', 'a\'b"c'), ("'\\\\'", '\\'), ('1e22', 1e22), ('0.1', 0.1),
]


def leaves_full():
  out = [const(t, v) for t, v in CONSTS]
  out += [name('user'), name('rec'), name('f'), name('nope'), name('DOLLARx'), name('newRec')]
  out += [dollar('x'), dollar('y'), dollar('z'), dollar('DOLLARq')]
  out += [attr(name('user'), 'name'), attr(name('user'), 'n'), attr(name('rec'), 'x'),
          attr(dollar('y'), 'upper'), attr(name('user'), 'missing')]
  return out


def pool_a():
  return [const('1', 1), const('2.5', 2.5), const("'a'", 'a'), const('None', None), const('True', True),
          dollar('x'), dollar('y'), dollar('z'), attr(name('user'), 'n'), attr(name('user'), 'name')]


def pool_b():
  return [const('1', 1), const("'a'", 'a'), dollar('x'), dollar('z'), const('None', None)]


def is_safe_right():
  """`is` compares identities: keep the right operand a singleton or an environment object."""
  return [const('None', None), const('True', True), const('False', False), dollar('z'), name('user')]


def _is_ok(op, r):
  if op not in ('Is', 'IsNot'):
    return True
  return any(r.g == s.g for s in is_safe_right())


# ----------------------------------------------------------------------------------------------
# Enumeration of the supported subset
# ----------------------------------------------------------------------------------------------

def depth1():
  """All depth-1 expressions (operators directly over leaves)."""
  A = pool_a()
  B = pool_b()
  for op in BINOPS:
    for l in A:
      for r in (is_safe_right() if op in ('Is', 'IsNot') else A):
        yield binop(op, l, r)
  for op in BOOL:
    for l in A:
      for r in A:
        yield boolop(op, [l, r])
    for xs in itertools.product(B, repeat=3):
      yield boolop(op, list(xs))
  for x in leaves_full():
    yield x
    yield notop(x)
  for x in [const("'a'", 'a'), const('1', 1), const('2.5', 2.5), dollar('y'), dollar('x'), name('user'),
            attr(name('user'), 'name'), const('None', None)]:
    for a in ('upper', 'real', 'name', 'x'):
      yield attr(x, a)
  yield listof([])
  yield tupleof([])
  for a in B:
    yield listof([a])
    yield tupleof([a])
    yield call(name('f'), [a])
    yield call(name('f'), [], [('k', a)])
    for b in B:
      yield listof([a, b])
      yield tupleof([a, b])
      yield call(name('f'), [a, b])
      yield call(name('f'), [a], [('k', b)])
      yield call(name('f'), [], [('k', a), ('j', b)])
      yield call(name('f'), [], [('j', a), ('k', b)])
      yield binop('In', a, tupleof([b, a]))
      yield binop('NotIn', a, tupleof([b]))
  yield call(name('f'))
  yield call(attr(dollar('y'), 'upper'))
  yield call(attr(dollar('y'), 'lower'))
  yield call(attr(attr(name('user'), 'name'), 'lower'))
  yield call(const('1', 1))
  yield call(name('nope'))


def reps1():
  """One or two representatives per depth-1 operator kind (operands chosen to discriminate)."""
  x, y, z = dollar('x'), dollar('y'), dollar('z')
  one, a, none, n = const('1', 1), const("'a'", 'a'), const('None', None), attr(name('user'), 'n')
  out = []
  for op in ARITH:
    out.append(binop(op, x, n))
    out.append(binop(op, y, one))
  for op in CMP:
    if op in ('Is', 'IsNot'):
      out.append(binop(op, x, none))
    elif op in ('In', 'NotIn'):
      out.append(binop(op, a, y))
      out.append(binop(op, one, z))
    else:
      out.append(binop(op, x, n))
      out.append(binop(op, y, a))
  for op in BOOL:
    out.append(boolop(op, [x, n]))
    out.append(boolop(op, [y, z]))
  out += [notop(x), notop(y), attr(y, 'upper'), attr(name('user'), 'name'), listof([x, one]), listof([]),
          call(name('f'), [x]), call(name('f'), [one], [('k', y)]), call(attr(y, 'upper'))]
  return out


def depth2(tier):
  R = reps1()
  B = pool_a() if tier == 'thorough' else pool_b()
  modes = ('min', 'full')
  for mode in modes:
    for op in BINOPS:
      for r1 in R:
        for b in B:
          if _is_ok(op, b):
            yield binop(op, r1, b, mode)
          if _is_ok(op, r1):
            yield binop(op, b, r1, mode)
      for r1 in R:
        for r2 in R:
          if _is_ok(op, r2):
            yield binop(op, r1, r2, mode)
    for op in BOOL:
      for r1 in R:
        for b in B:
          yield boolop(op, [r1, b], mode)
          yield boolop(op, [b, r1], mode)
          yield boolop(op, [b, r1, b], mode)
        for r2 in R:
          yield boolop(op, [r1, r2], mode)
    for r1 in R:
      yield notop(r1, mode)
      yield notop(notop(r1, mode), mode)
  for r1 in R:
    yield attr(r1, 'real')
    yield attr(r1, 'upper')
    yield call(attr(r1, 'upper'))
    yield listof([r1])
    yield listof([r1, const('1', 1)])
    yield tupleof([r1])
    yield call(name('f'), [r1])
    yield call(name('f'), [], [('k', r1)])
    yield call(name('f'), [r1], [('k', r1)])
    yield call(r1)
    yield binop('In', dollar('x'), listof([r1, const('1', 1)]))
    yield binop('In', dollar('x'), tupleof([r1, const('1', 1)]))


def depth3():
  """Every operator triple as a left-nested and as a right-nested chain, both paren modes for the
  boolean/arithmetic mixes; plus wrappers."""
  x, y, z, n = dollar('x'), dollar('y'), dollar('z'), attr(name('user'), 'n')
  one, a = const('1', 1), const("'a'", 'a')
  ops = BINOPS + list(BOOL)

  def mk(op, l, r, mode):
    if op in BOOL:
      return boolop(op, [l, r], mode)
    return binop(op, l, r, mode)

  for o1 in ops:
    for o2 in ops:
      for o3 in ops:
        for mode in ('min', 'full'):
          if all(_is_ok(o, r) for o, r in ((o1, n), (o2, one), (o3, z))):
            yield mk(o3, mk(o2, mk(o1, x, n, mode), one, mode), z, mode)
          inner = mk(o1, n, z, mode)
          mid = mk(o2, one, inner, mode)
          if _is_ok(o1, z) and _is_ok(o2, inner) and _is_ok(o3, mid):
            yield mk(o3, y, mid, mode)
  for o1 in ops:
    for o2 in ops:
      if _is_ok(o1, one) and _is_ok(o2, a):
        e = mk(o2, mk(o1, x, one, 'min'), a, 'min')
        yield notop(e)
        yield listof([e, one])
        yield call(name('f'), [e], [('k', e)])
        yield mk(o2, notop(mk(o1, x, one, 'min')), a, 'min')
        yield mk(o2, a, notop(mk(o1, x, one, 'min')), 'min')


COMMENTS = [' # note', '#note', '   #   spaced out   ', "# has 'quote", '# has "dq', '# $x price', '# a # b', '#',
            '# é', '# [1, 2] and (', '\t# tab']


def commented():
  """Every comment variant x representative expressions (incl. strings that contain '#')."""
  exprs = reps1()[::3] + [const("'h#x'", 'h#x'), const("'cost $5 # no'", 'cost $5 # no'), dollar('x'),
                          binop('Eq', const("'#'", '#'), dollar('y')),
                          binop('In', dollar('y'), listof([const("'#a'", '#a'), const('"#b"', '#b')]))]
  for e in exprs:
    for c in COMMENTS:
      yield X(e.g + c, e.p + c, ['Comment', e.t, c.strip()[1:].strip()], 0, 'comment')
  # Multi-line forms inside brackets: newline does not end the expression.
  e = boolop('And', [dollar('x'), dollar('y')])
  yield X('($x and\n $y)  # two lines', '(rec.x and\n rec.y)  # two lines',
          ['Comment', e.t, 'two lines'], 0, 'comment')
  yield X('[$x,\n $y]', '[rec.x,\n rec.y]', listof([dollar('x'), dollar('y')]).t, 0, 'list')
  yield X('$x == 1  ', 'rec.x == 1', binop('Eq', dollar('x'), const('1', 1)).t, 0, 'cmp')
  yield X('$x==1', 'rec.x==1', binop('Eq', dollar('x'), const('1', 1)).t, 0, 'cmp')
  yield X('$x  not   in  [1]', 'rec.x  not   in  [1]',
          binop('NotIn', dollar('x'), listof([const('1', 1)])).t, 0, 'cmp')
  yield X('$x is  not None', 'rec.x is  not None', binop('IsNot', dollar('x'), const('None', None)).t,
          0, 'cmp')
  yield X('rec . x', 'rec . x', dollar('x').t, 0, 'attr')
  yield X('f(1,)', 'f(1,)', call(name('f'), [const('1', 1)]).t, 0, 'call')
  yield X('[1,]', '[1,]', listof([const('1', 1)]).t, 0, 'list')
  yield X('(($x))', '((rec.x))', dollar('x').t, 0, 'attr')
  yield X('1e999', '1e999', ['Const', float('inf')], 0, 'const')
  yield X('$x < 1e999', 'rec.x < 1e999', ['Lt', dollar('x').t, ['Const', float('inf')]], 0, 'cmp')


def supported(tier):
  return itertools.chain(depth1(), commented(), depth2(tier), depth3() if tier == 'thorough' else ())


# ----------------------------------------------------------------------------------------------
# Unsupported / invalid syntax
# ----------------------------------------------------------------------------------------------
# (label, root-cause group, text)
UNSUPPORTED = [
    ('bytes-constant', 'non-json-constant', "b'a'"),
    ('complex-constant', 'non-json-constant', "1j"),
    ('ellipsis-constant', 'non-json-constant', "..."),
    ('unary-minus-const', 'unary', "-1"), ('unary-minus', 'unary', "-$x"), ('unary-plus', 'unary', "+1"),
    ('invert', 'unary', "~1"),
    ('subscript', 'subscript', "$z[0]"), ('slice', 'subscript', "$z[0:1]"),
    ('lambda', 'lambda', "lambda: 1"), ('lambda-arg', 'lambda', "lambda a: a"),
    ('fstring', 'fstring', "f'{1}'"), ('fstring-plain', 'fstring', "f'a'"),
    ('chained-lt', 'chained-comparison', "1 < 2 < 3"), ('chained-mixed', 'chained-comparison', "1 < 2 == 2"),
    ('chained-is', 'chained-comparison', "$x is None is False"),
    ('chained-in', 'chained-comparison', "1 in [1] in [[1]]"),
    ('pow', 'binop', "2 ** 3"), ('floordiv', 'binop', "7 // 2"), ('matmul', 'binop', "1 @ 2"),
    ('lshift', 'binop', "1 << 2"), ('rshift', 'binop', "1 >> 2"), ('bitand', 'binop', "1 & 2"),
    ('bitor', 'binop', "1 | 2"), ('bitxor', 'binop', "1 ^ 2"),
    ('dict', 'display', "{}"), ('dict-item', 'display', "{1: 2}"), ('set', 'display', "{1}"),
    ('listcomp', 'comprehension', "[a for a in $z]"), ('genexp', 'comprehension', "(a for a in $z)"),
    ('setcomp', 'comprehension', "{a for a in $z}"), ('dictcomp', 'comprehension', "{a: a for a in $z}"),
    ('ifexp', 'ifexp', "1 if $x else 2"), ('walrus', 'walrus', "(a := 1)"),
    ('call-star', 'call-star', "f(*$z)"), ('call-double-star', 'call-double-star', "f(**$z)"),
    ('call-double-star-mixed', 'call-double-star', "f(1, k=2, **$z)"),
    ('list-star', 'starred', "[*$z]"), ('await', 'await', "await f"), ('yield', 'yield', "(yield)"),
    ('yield-value', 'yield', "(yield 1)"),
    # plain invalid Python
    ('empty', 'invalid', ""), ('blank', 'invalid', "  "), ('only-comment', 'invalid', "# nothing"),
    ('dangling-op', 'invalid', "1 +"), ('two-names', 'invalid', "a b"), ('open-paren', 'invalid', "(1"),
    ('close-paren', 'invalid', "1)"), ('assignment', 'invalid', "a = 1"), ('import', 'invalid', "import x"),
    ('two-statements', 'invalid', "a; b"), ('two-lines', 'invalid', "a\nb"),
    ('open-string', 'invalid', "'abc"), ('bare-dollar', 'invalid', "$"), ('dollar-digit', 'invalid', "$1"),
    ('dollar-space', 'invalid', "$ x"), ('leading-zero', 'invalid', "007"), ('dangling-and', 'invalid', "a and"),
    ('bare-not', 'invalid', "not"), ('backtick', 'invalid', "`a`"), ('print-stmt', 'invalid', "print $x"),
    ('nul-char', 'invalid', "1 + \x00"), ('double-dollar', 'invalid', "$$x"), ('bang', 'invalid', "!$x"),
    ('and-and', 'invalid', "$x && $y"), ('triple-eq', 'invalid', "$x === 1"),
]

CONTEXTS = ['%s', '(%s)', '$x and (%s)', '[1, (%s)]', 'f((%s))', 'f(k=(%s))', '(%s).real', '(%s) == 1',
            'not (%s)', '$x in [1, (%s)]', '1 + (%s)', 'f((%s), 1)  # c']


def python_accepts(text):
  """Does Python itself parse the text (with $x spelled rec.x) as an expression?"""
  try:
    with warnings.catch_warnings():
      warnings.simplefilter('ignore')
      ast.parse(text.replace('$', 'rec.'), mode='eval')
    return True
  except (SyntaxError, ValueError):
    return False


# ----------------------------------------------------------------------------------------------
# Reference semantics
# ----------------------------------------------------------------------------------------------

class NS(object):
  def __init__(self, label, **kw):
    self._label = label
    self.__dict__.update(kw)

  def __repr__(self):
    return '<%s>' % self._label


def _f(*args, **kw):
  return ['f', list(args), sorted(kw.items())]


def environments():
  return [
      {'rec': NS('rec1', x=3, y='abc', z=[1, 2], DOLLARq='dq'), 'user': NS('user1', name='Bob', n=2),
       'f': _f, 'DOLLARx': 'dx', 'newRec': NS('new1', x=4)},
      {'rec': NS('rec2', x=0, y='', z=[], DOLLARq=0), 'user': NS('user2', name='al', n=-1.5),
       'f': _f, 'DOLLARx': 0, 'newRec': NS('new2', x=0)},
      {'rec': NS('rec3', x=None, y='a', z=['a', None], DOLLARq=None), 'user': NS('user3', name=None, n=True),
       'f': _f, 'DOLLARx': None, 'newRec': NS('new3', x=None)},
  ]


_BIN = {
    'Add': operator.add, 'Sub': operator.sub, 'Mult': operator.mul, 'Div': operator.truediv,
    'Mod': operator.mod, 'Eq': operator.eq, 'NotEq': operator.ne, 'Lt': operator.lt, 'LtE': operator.le,
    'Gt': operator.gt, 'GtE': operator.ge, 'Is': operator.is_, 'IsNot': operator.is_not,
    'In': lambda a, b: a in b, 'NotIn': lambda a, b: a not in b,
}


def interp(node, env):
  """The documented node semantics (module docstring of predicate_formula.py), Python flavoured."""
  kind = node[0]
  if kind == 'Const':
    return node[1]
  if kind == 'Name':
    if node[1] not in env:
      raise NameError(node[1])
    return env[node[1]]
  if kind == 'Attr':
    return getattr(interp(node[1], env), node[2])
  if kind == 'And':
    v = True
    for sub in node[1:]:
      v = interp(sub, env)
      if not v:
        return v
    return v
  if kind == 'Or':
    v = False
    for sub in node[1:]:
      v = interp(sub, env)
      if v:
        return v
    return v
  if kind == 'Not':
    (sub,) = node[1:]
    return not interp(sub, env)
  if kind in _BIN:
    (l, r) = node[1:]
    a = interp(l, env)
    b = interp(r, env)
    return _BIN[kind](a, b)
  if kind == 'List':
    return [interp(sub, env) for sub in node[1:]]
  if kind == 'Call':
    func = interp(node[1], env)
    args, kwargs = [], {}
    for sub in node[2:]:
      if sub[0] == 'keywords':
        for (k, v) in sub[1:]:
          if not isinstance(k, str):
            raise ValueError("keyword name is not a string")
          kwargs[k] = interp(v, env)
      else:
        args.append(interp(sub, env))
    return func(*args, **kwargs)
  if kind == 'Comment':
    (sub, _text) = node[1:]
    return interp(sub, env)
  raise ValueError("unknown node type %r" % (kind,))


def outcome(fn):
  try:
    with warnings.catch_warnings():
      warnings.simplefilter('ignore')
      return ('value', fn())
  except Exception as e:       # pylint: disable=broad-except
    return ('raises', type(e).__name__)


def same(a, b):
  """Type-strict deep equality; NaN == NaN; tuples and lists are not distinguished."""
  if isinstance(a, tuple):
    a = list(a)
  if isinstance(b, tuple):
    b = list(b)
  if a is b:
    return True
  if type(a) is not type(b):     # pylint: disable=unidiomatic-typecheck
    return False
  if isinstance(a, float):
    return a == b or (math.isnan(a) and math.isnan(b))
  if isinstance(a, list):
    return len(a) == len(b) and all(same(x, y) for x, y in zip(a, b))
  if isinstance(a, dict):
    return sorted(a) == sorted(b) and all(same(a[k], b[k]) for k in a)
  if hasattr(a, '__self__') and hasattr(b, '__self__'):       # bound methods, e.g. 'abc'.upper
    return a.__name__ == b.__name__ and same(a.__self__, b.__self__)
  return a == b


def _has_nonfinite(tree):
  if isinstance(tree, float):
    return math.isinf(tree) or math.isnan(tree)
  if isinstance(tree, (list, tuple)):
    return any(_has_nonfinite(x) for x in tree)
  return False


def check_supported(g, p, expected):
  """Returns None or (key, message)."""
  try:
    tree = predicate_formula.parse_predicate_formula(g)
  except Exception as e:       # pylint: disable=broad-except
    if isinstance(e, SyntaxError) and _has_nonfinite(expected):
      # A non-finite float literal (1e999) has no JSON form: refusing it with SyntaxError is the
      # only outcome compatible with "JSON-serializable" + "not mistranslated".
      return None
    return ('C40/supported-rejected/%s' % type(e).__name__,
            "parse_predicate_formula(%r) raised %s" % (g, H.exc_text(e)))
  try:
    text = json.dumps(tree, allow_nan=False)
  except (TypeError, ValueError) as e:
    detail = 'float-infinity' if 'range' in str(e) or 'compliant' in str(e) else type(e).__name__
    return ('C40/not-json/%s' % detail,
            "tree of %r is not JSON-serializable (%s): %r" % (g, H.exc_text(e), tree))
  back = json.loads(text)
  if not same(back, tree):
    return ('C40/json-roundtrip-differs', "tree of %r changes in a JSON round trip: %r -> %r" % (
        g, tree, back))
  if not same(tree, expected):
    return ('C40/wrong-tree/%s' % _first_diff(tree, expected),
            "parse_predicate_formula(%r) = %s, expected %s" % (g, json.dumps(tree), json.dumps(expected)))
  code = None
  try:
    with warnings.catch_warnings():
      warnings.simplefilter('ignore')
      code = compile(p, '<expr>', 'eval')
  except SyntaxError as e:
    return ('C40/harness/python-rejects', "python rejects %r: %s" % (p, e))
  for i, env in enumerate(environments()):
    want = outcome(lambda: eval(code, {'__builtins__': {}}, dict(env)))    # pylint: disable=eval-used
    got = outcome(lambda: interp(back, env))
    ok = want[0] == got[0] and (same(want[1], got[1]) if want[0] == 'value' else want[1] == got[1])
    if not ok:
      return ('C40/unfaithful/%s' % tree[0],
              "%r in environment %d: Python gives %r, the tree %s gives %r" % (
                  g, i + 1, want, json.dumps(tree), got))
  return None


def _is_node(x):
  return isinstance(x, list) and x and isinstance(x[0], str)


def _first_diff(tree, expected):
  """Type of the smallest expected node that contains all structural differences."""
  if not (_is_node(tree) and _is_node(expected)):
    return 'root'
  if tree[0] != expected[0] or len(tree) != len(expected):
    return str(expected[0])
  diffs = [(a, b) for a, b in zip(tree[1:], expected[1:]) if not same(a, b)]
  if len(diffs) == 1:
    (a, b) = diffs[0]
    if _is_node(a) and _is_node(b):
      return _first_diff(a, b)
  return str(expected[0])


def check_unsupported(label, group, text):
  """Returns None or (key, message)."""
  try:
    tree = predicate_formula.parse_predicate_formula(text)
  except SyntaxError:
    return None
  except Exception as e:       # pylint: disable=broad-except
    return ('C40/unsupported-other-error/%s/%s' % (group, type(e).__name__),
            "%r (%s) raised %s instead of SyntaxError" % (text, label, H.exc_text(e)))
  try:
    js = json.dumps(tree, allow_nan=False)
  except (TypeError, ValueError) as e:
    js = '<not JSON: %s>' % e
  return ('C40/unsupported-accepted/%s' % group,
          "%r (%s) did not raise SyntaxError; returned %r, as JSON: %s" % (text, label, tree, js))


# ----------------------------------------------------------------------------------------------

def _worker(job):
  tier, k, n = job
  E = Enum(PartReport('C40'), rule='')
  for i, x in enumerate(supported(tier)):
    if i % n != k:
      continue
    bad = check_supported(x.g, x.p, x.t)
    E.count(x.g, nontrivial=len(x.t) > 2 or x.t[0] != 'Const',
            sample={'formula': x.g, 'tree': x.t} if i % 4001 == 7 else None)
    if bad:
      E.fail(bad[0], bad[1], case={'kind': 'supported', 'g': x.g, 'p': x.p, 'expected': x.t})
    if i % 10 == 3 and x.g.isascii() and not bad:
      # the same text given as utf-8 bytes
      bad = check_supported(x.g.encode('utf8'), x.p, x.t)
      E.count('bytes:' + x.g)
      if bad:
        E.fail(bad[0] + '/bytes-input', bad[1], case={'kind': 'supported-bytes', 'g': x.g, 'p': x.p,
                                                      'expected': x.t})
  if k == 0:
    unsupported = 0
    for (label, group, text) in UNSUPPORTED:
      # plain invalid text is only tried as is: inside brackets '' or '# c' would become valid
      for ctx in (CONTEXTS if group != 'invalid' else ['%s', '%s ', ' %s']):
        full = ctx % text
        accepts = python_accepts(full)
        bad = check_unsupported(label, group, full)
        E.count('U:' + full, nontrivial=accepts,
                sample={'unsupported': full} if label == 'pow' and ctx == '%s' else None)
        unsupported += 1
        if bad:
          E.fail(bad[0], bad[1], case={'kind': 'unsupported', 'label': label, 'group': group, 'text': full})
    E.extra['unsupported_cases'] = unsupported
  return part_of(E)


def run(tier, report):
  E = Enum(report, rule=(
      'supported subset: every operator over a 10-leaf pool (depth 1), every operator over '
      '(%d representative depth-1 expressions x %d-leaf pool, and x the representatives) in both operand '
      'positions and in minimal and full parenthesisation (depth 2)%s, %d constant spellings, $col / rec.col / names / attributes, '
      'lists, tuples, calls with and without keywords, %d trailing-comment variants x representative '
      'expressions, every 10th text also as utf-8 bytes; unsupported menu: %d constructs x %d contexts '
      'must raise SyntaxError. Oracle: strict-JSON round trip, exact expected tree, and an independent '
      'interpreter of the node semantics vs Python eval in 3 environments. Non-trivial = tree has an '
      'operator node (supported) / Python itself accepts the text so the converter must reject it '
      '(unsupported).' % (
          len(reps1()), 10 if tier == 'thorough' else 5,
          ', every operator triple as left- and right-nested chain plus wrappers (depth 3)'
          if tier == 'thorough' else '', len(CONSTS), len(COMMENTS), len(UNSUPPORTED), len(CONTEXTS))), max_samples=6)
  n = 16 if tier == 'thorough' else 8
  for part in pmap(_worker, [(tier, k, n) for k in range(n)]):
    E.merge(part)
  E.finish(exhaustive=True)
  report.assumptions.append('`is`/`is not` right operands are singletons or environment objects (identity of '
                            'other literals is an implementation detail of CPython)')
  report.assumptions.append('tuples only appear where Python cannot tell them from lists (membership '
                            'right operand, call argument, list element is not compared)')


def replay(viol):
  c = viol['case']
  if c['kind'] == 'unsupported':
    bad = check_unsupported(c['label'], c['group'], c['text'])
  else:
    g = c['g'].encode('utf8') if c['kind'] == 'supported-bytes' else c['g']
    bad = check_supported(g, c['p'], c['expected'])
  print(bad)
  if bad:
    print("VIOLATION property=C40 replay=(this file) reproduced")
    return 1
  return 0
