"""C19 Invalid formulas are isolated and valid ones mean what they say (exhaustive enumeration).

Formula texts = a grammar of Python fragments (the shapes named by the property) UNION every string
of length <= 3 (quick) / <= 4 (thorough) over the alphabet {$ a ( ) " # newline space = :}.
Every text is set as the formula of column X of T(a:Int, b:Text, good1 = $a + 1,
good2 = $b.upper(), X) with 2 rows:

 * single mode: one text per fresh document (ModifyColumn), then a follow-up bundle that updates
   a row and adds a row ("the document keeps working");
 * batch mode: 16 texts per document (columns X01..X16, one bundle), consecutive and strided
   groupings, followed by the follow-up bundle and a save/load round trip.  Texts whose single
   run already failed are left out of the batches, so that a batch failure is a new finding.

Oracle (independent of codebuilder): the bundle succeeds; nothing but the cells of X (and the
formula text in X's metadata record) changes; the text is translated with `tokenize` (`$name` ->
`rec.name` for a `$` token directly followed by a name token, so never inside strings/comments),
parsed with `ast`, the last expression statement is turned into a `return`, arguments of the
lazy functions are wrapped in lambdas, the result is compiled as a function body *by AST
construction* (no textual indentation) and called with a plain record object.  Invalid text
(does not tokenize/parse/compile as a function body, assigns to rec / rec.attr, or has no
return and no final expression) must give an error in every row of X; valid text must give the
value (or the exception class) computed by the reference in every row.
"""
import ast
import io
import itertools
import json
import tokenize
import warnings

from mc import harness as H
from mc.enumprop import Enum, PartReport, part_of, pmap

LEVEL = 'exploration'
# Texts like `()()` compile with a SyntaxWarning, both here and in the engine: not of interest.
warnings.simplefilter('ignore', SyntaxWarning)
ALPHABET = ('$', 'a', '(', ')', '"', '#', '\n', ' ', '=', ':')
NBATCH = 16
XCOLS = ['X%02d' % i for i in range(1, NBATCH + 1)]
ROWS0 = [{'id': 1, 'a': 1, 'b': 'p'}, {'id': 2, 'a': 2, 'b': 'q'}]
FOLLOW = [["UpdateRecord", "T", 1, {"a": 5, "b": "zz"}], ["AddRecord", "T", None, {"a": 7, "b": "n"}]]
ROWS1 = [{'id': 1, 'a': 5, 'b': 'zz'}, {'id': 2, 'a': 2, 'b': 'q'}, {'id': 3, 'a': 7, 'b': 'n'}]

_SNAP = {}


def base_snap(mode):
  if mode not in _SNAP:
    doc = H.Doc.new()
    xs = ['X'] if mode == 'single' else XCOLS
    doc.apply([["AddTable", "T", [
        {"id": "a", "type": "Int", "isFormula": False},
        {"id": "b", "type": "Text", "isFormula": False},
        {"id": "good1", "type": "Any", "isFormula": True, "formula": "$a + 1"},
        {"id": "good2", "type": "Any", "isFormula": True, "formula": "$b.upper()"}] + [
            {"id": x, "type": "Any", "isFormula": True, "formula": ""} for x in xs]],
               ["BulkAddRecord", "T", [None, None], {"a": [1, 2], "b": ["p", "q"]}]])
    _SNAP[mode] = doc.snapshot()
  return _SNAP[mode]


# ----------------------------------------------------------------------------------------------
# The enumerated texts
# ----------------------------------------------------------------------------------------------

def grammar_texts():
  """List of (kind, text); kinds name the adversarial shapes of the property statement."""
  out = []

  def add(kind, *texts):
    for t in texts:
      out.append((kind, t))

  exprs = ['$a', '$b', '$a + 1', '$a * 2 + $good1', '$b + "x"', '$b.upper() + str($a)', '-$a', '($a)',
           '$a if $a > 1 else $b', '$a == 1', 'not $a', '$a > 1 and $b', 'len($b)', '[$a, $b]',
           '($a, $b)', '$a,', 'rec.a', 'rec.a + $a', '$a.real', '$b[0]', '$b[::-1]', '"%s" % $a',
           '"{}".format($a)', '1/0', '$a/0', '$a / ($a - 1)', '$a / 2', '$a // 2', '2.5 * $a',
           'undefined_name', '$nosuch', '$id', '$a.bit_length()', '(lambda x: x + $a)(1)',
           '$a.$b', '$', '$ a', '$1', '$a $b', '$$a', 'a$a', '$a$b', '$if', '$None', '$class', '1 $a',
           '"x"$a', '$a"x"', '$a +', '+ $a', '($a', '$a)', '$a[', '[$a', '$a]', '{$a', '$a ++ 1',
           '$a +* 1', '$a if', 'True', 'None', '[]', '[[]]', '(((((((((($a))))))))))',
           '(' * 30 + '$a' + ')' * 30, '$a\x00', '\x00']
  add('expr', *exprs)
  add('string', '"$a"', "'$a'", '"$a" + str($a)', '"it\'s $a"', "'say \"$a\"'", '"\\"$a"', 'r"\\$a"',
      '"$a" "$b"', '"#$a"', "'$a' # \"$a", '"$a # not comment"', '"$a', "'$a", '"$a\'', '"" "$a" ""',
      '"$a" if $a > 1 else \'$b\'', '"$" + "a"', '"$a"[1:]', '"\\\\" + "$a"', '"a\\nb$a"', 'u"$a"',
      '"$a".replace("$a", str($a))', "'\\'' + '$a'", '"\\$a"')
  add('comment', '$a # $b', '# $a\n$a', '$a\n# trailing $b', '# only comment $a', '#', '# a\n# b',
      '$a #', '#$a\n#$b\n$b', '$a # "unterminated', "$a # 'x", '$a # """', '# (\n$a', '$a #\\\n+ 1',
      '($a # c\n + 1)', '[$a, # one $b\n $b] # two')
  # multi-line BYTES literals and no multi-line str in the same formula (the un-indenting of
  # literals is switched on by a hint computed from the formula's constants)
  add('bytes-literal', 'len(b"""x\ny\nz""")', 'b"""a\n    b""".decode()', 'x = b"ab\\\n  cd"\nlen(x) + $a',
      '(b"a"\n b"b").decode()', 'b"""\n$a\n""".decode() + str($a)', 'len(b"""a\n    \nb""")',
      'if $a > 1:\n  x = b"""a\n  b"""\nelse:\n  x = b"c"\nlen(x)', 'len(rb"""a\n\\n""")', 'b"$a".decode()')
  add('triple-quoted', '"""$a"""', '"""line1\n$a\nline3"""', "'''a\n  $a\n    \nb'''",
      'x = """\n  $a\n"""\nx + str($a)', '"""a\n    \nb"""', '"""a\n  \nb"""', '"""a\n      \nb"""',
      '"""a\n \nb"""', '"""a\n     b\n    c\n   d"""', '"""\n    $a"""', '"""a\\\n    b"""',
      '"abc\\\n  def"', '"abc\\\n    def"', '"""a\n\n\nb"""', '"""a\n\t\n\tb"""', '"""a\n"""', '"""\n"""',
      '""""""', '"""a""', '"""a', "'''$a\n", '"""a\n#$a\n"""', 'x = """a\n    b"""\ny = """c\n    \n"""\nx + y',
      '("""a\n    b""",\n """c\n    \n    d""")', 'len("""\n    \n""")', '$b + """\n    """ + $b',
      'x = """a\n    b""" # c\nx', 'if $a > 1:\n  x = """a\n      b\n    c"""\nelse:\n  x = """\n    \n"""\nx',
      'def g():\n  return """a\n    \n      b"""\ng()', '"""a\r\nb"""', '"""\n  $a\n""" + f"""\n    {$a}\n    \n"""')
  add('if-return', 'if $a > 1:\n  return "big"\nelse:\n  return "small"',
      'if $a > 1:\n  return "big"\nreturn "small"', 'if $a > 1:\n  return "big"',
      'if $a > 1:\n\treturn 1\nreturn 2', 'if $a > 1:\n  return $a\nelif $b:\n  return $b\nelse:\n  return None',
      'if $a > 1: return $a\nreturn 0', 'for i in range(5):\n  if i == $a:\n    return i * 10',
      'while True:\n  return $a', 'try:\n  return 1 / ($a - 1)\nexcept ZeroDivisionError:\n  return "div"',
      'try:\n  x = 1 / ($a - 1)\nexcept ZeroDivisionError:\n  x = "div"\nx',
      'with open("/nonexistent-file") as f:\n  return 1', 'if $a > 1:\n  return "big"\nelse:\nreturn "small"',
      'if $a > 1:\nreturn "big"', 'if $a > 1\n  return "big"', 'if $a = 1:\n  return "big"')
  add('missing-return', 'x = $a', 'x = $a\ny = x', 'for i in range(3):\n  pass', 'pass', 'import math',
      'x = 1;', 'def g():\n  pass', 'while False:\n  pass', 'if $a > 1:\n  "big"\nelse:\n  "small"',
      'if $a > 1:\n  1\nelse:\n  2', 'x = y = $a', 'x: int = $a', 'x += 1', 'assert $a', 'del x',
      'raise ValueError($a)', 'class C:\n  pass', 'global x', 'x = $a == 1', 'with open("f") as f:\n  1',
      'try:\n  1\nexcept Exception:\n  2')
  add('rec-assign', 'rec = 1\n$a', '$a = 1', '$a = 1\n$a', 'rec.a = 1\n2', '$a += 1\n$a', 'rec, x = 1, 2\nx',
      '$a == 1', 'for rec in [1]:\n  pass\nreturn 1', '[rec for rec in [1, 2]]', 'x = rec\nx.a',
      'x = $a = 1\nx', '$a: int = 1\n$a', 'rec += 1\n1', 'x, $a = 1, 2\nx', '(rec) = 1\n1', 'rec: int = 1\n2',
      'for $a in [1]:\n  pass\nreturn 2', 'with open("f") as rec:\n  return 1', 'x.rec = 1\n1', 'rec.a.b = 1\n1',
      'rec[0] = 1\n1', 'return (rec := 1)', 'f($a=1)', 'dict(a=$a)["a"]', 'def $a(): pass\n1')
  add('lazy', 'IF($a > 1, 1, 1/0)', 'IF($a > 1, 1/0, "small")', 'IF($a > 1, $a, $b)',
      'IF($a, IF($b, $a, $b), $b)', 'IF($a > 1, IF($a > 5, "big", 1/0), "small")',
      'IF($a > 1,\n  "x",\n  "y")', 'IF($a > 1, "$a", \'$b\') # IF($a, 1, 2)', '"IF($a, 1, 2)"',
      'IFERROR(1/0, $a)', 'IFERROR($a, 1/0)', 'IFERROR(1 / ($a - 1), "err")', 'ISERROR(1 / ($a - 1))',
      'ISERROR($a)', 'IF(ISERROR(1 / ($a - 1)), $b, 1 / ($a - 1))', 'x = IF($a > 1, $a, 1/0)\nx',
      'IF($a > 1, [i * $a for i in range(2)], ($b, $b))', 'IF($a > 1, (1), (2))', 'IF($a > 1, 1, 2,)',
      'IF( $a > 1 , $a , $b )', 'IF($a > 1, $a\n, $b\n)', '[IF(i > $a, i, -i) for i in range(4)]',
      'IF($a > 1, lambda: 1, lambda: 2)()', 'IF($a > 1, "a" "b", "c"\n "d")', 'IF($a > 1, f"{$a}", f"{$b}")',
      'IF($a > 1, """a\n    b""", """c\n    \n""")', 'IF($a > 1, 1)', 'IF()', 'IF', 'IF($a > 1, $a, $b',
      'IF($a > 1, (yes), 2)', 'IFERROR(undefined_name, "undef")', 'IFERROR($nosuch, "nocol")')
  add('comprehension', '[x * $a for x in range(3)]', 'sum(x for x in range($a + 1))', '[$a for _ in "ab"]',
      '[y for y in [$a, $b] if y]', '[[$a * i for i in range(2)] for j in range(2)]',
      'sorted([$a, 3, 1])', '[c + $b for c in $b]', 'max(i for i in range(3) if i != $a)',
      '[$a for x in]', '[for x in $b]', 'list(map(lambda v: v + $a, [1, 2]))', '[(x, y) for x in [$a] for y in [$b]]',
      'any(c == "q" for c in $b)', 'len([x for x in range(10) if x % ($a + 1) == 0])')
  add('f-string', 'f"{$a}"', 'f"{$a} $b"', 'f"{$a + 1}{$b!r}"', 'f"{{$a}}"', 'f"{$a:>3}"', "f'{$b.upper()}'",
      'f"""{$a}\n  {$b}\n    \n"""', 'f"{\'$a\'}"', 'f"{$a!r:>{$a}}"', 'f"{$a"', 'f"{$a!z}"', 'f"{}"', 'f"$a"',
      'f"{$a}" "$b" f"{$b}"', 'f"{$a:{$a}}"', 'f"{ $a }"', 'f"{$b + "x"}"', 'f"{$a}{"$a"}"', 'rf"\\{$a}"',
      'f"{[$a for _ in range(2)]}"', 'f"{IF($a > 1, $a, 1/0)}"', 'f"""\n    {$a}"""', 'f"{$}"', 'F"{$a}"',
      'f"{$a}" # {$b}', 'f"{$a:$b}"', 'f"{$nosuch}"')
  add('whitespace', ' $a', '  $a + 1', '\t$a', '  x = $a\n  x + 1', '\n\n  $a', '  $a\n$b', '$a\n  $b',
      '  if $a:\n    return 1\n  return 2', ' # c\n $a', '  $a\n  \n  $b', '  $a\n\n  $b', '  $a  ', '$a\t',
      '\f$a', '$a\f', ' \t$a\n \t$b', '\t$a\n  $b', '  $a\n\t$b', '    $a\n      + 1', '  ($a\n+ 1)', '$a \\\n  + 1',
      '  $a \\\n+ 1', '\n', ' ', '', '\t\n  \n', '$a\n\n\n', '  \n  $a\n', '\n$a', '\\\n$a', '$a \\', ' \\\n $a',
      'x = $a\r\nx + 1', '$a\r\n', 'x = $a\rx + 1', '$a +\r$b', '$a\r', '# c\r$a', '$a +\x0c', '$a +\r\n', '  $a\r\n  ', '$a\x0b', '$a \n', ' $a\n $b\n',
      '        if $a > 1:\n            return 1\n        return 0')
  add('return', 'return $a', 'return', 'return $a, $b', 'return $a\n$b', 'x = $a\nreturn x * 2', 'return\n',
      'return $a;', 'return ($a\n  + 1)', 'return return $a', '  return $a', 'return $a if $a > 1 else None',
      'return "$a"', 'return # $a', 'return $', 'lambda: (return 1)', 'return $a\nreturn $b', 'return $a\nx = 1',
      'x = 1\nreturn')
  add('statements', 'x = $a\nx + 1', 'x = $a; x + 1', 'x = $a\ny = $b\n[x, y]', 'import math\nmath.floor($a / 2)',
      'def g(v):\n  return v * 2\ng($a)', 'x = $a\nif x:\n  x = 5\nx', '1\n2\n$a', 'x = $a\n\n\nx', 'x = $a # c\n# d\nx',
      'x = [$a,\n     $b]\nx', 'x = $a\nx +', 'x = $a\n  x', 'x = $a\nx\ny = 1', 'x = 1\n(x,\n $a)',
      'def g():\n  x = 1\ng()', 'from math import floor\nfloor($a / 2)', 'x = $a\nx if x > 1 else -x',
      'x = {"k": $a}\nx["k"]', 'x = $a\n"$a"', 'x = $a\n"""\n    """', '0\n"""\n"""')
  add('semicolon', '$a;', '$a; ', '$a;\n', 'x = 1; $a;', '$a;;', ';', ';$a', '$a; $b', '$a ;', 'x = $a;\nx;',
      'if $a: return 1;\nreturn 2;', '$a; # c', '$a;\n;')
  add('unicode', '"\u00e9$a"', '\u00e9 = $a\n\u00e9', '"\u65e5\u672c" + $b', '"\\u00e9"', "'\\N{BULLET}'",
      '"\U0001F600" * $a', 'x = "\u00fc"  # \u00fc $a\nx', '$a\u00a0+ 1', '\u201c$a\u201d', '"\u00e9" + """\n    \u00e9"""',
      '# \u00e9\n$a', 'f"\u00e9{$a}\u00e9"', '\u00e9\u00e9 = "\U0001F600$a"\n\u00e9\u00e9 + $b', '"\u2028" + $b', '$b + "\u0085x"',
      'x = "\u00e9"; y = $a\n[x, y]', '"\\N{nonexistent name}"', '\ufeff$a', '$a + \uff11',
      '"\u00e9" if $a > 1 else "\U0001F600$b" # \u00e9', 'IF($a > 1, "\u00e9\u00e9", "\U0001F600") # \U0001F600')
  add('compile-time', 'break', 'continue', 'nonlocal a\n$a', 'def f(a, a): pass\n1', '__debug__ = 1\n2',
      'x = 1\nglobal x\nx', 'await $a', 'class C:\n  return 1\n2', '*$a', 'from __future__ import annotations\n1',
      'from math import *\nfloor($a)', '[x := 1 for x in [1]]', '[x async for x in $b]', 'def g():\n  nonlocal q\n1',
      'async def g():\n  pass\n1', '[(yield) for x in [1]]', 'for i in [1]:\n  pass\nelse:\n  break\n1',
      'class C:\n  break\n1', 'def g():\n  continue\n1', 'x = 1\nnonlocal x\nx', 'del __debug__\n1',
      'lambda __debug__: 1', 'f(__debug__=1)', 'import __debug__\n1', 'x = [*$b]\nx', '"-".join([*$b])', 'max(*$b)',
      'return *$b, 1', 'x = *$b,\nx', '*x, y = $b + "cd"\ny', 'def g(): return 1\ng() = 2', 'None = 1', '1 = x',
      'f() += 1', 'async with a: pass\n1', 'with a as (yield): pass', 'x = yield', 'lambda: await x')
  return out


def alphabet_texts(maxlen):
  for n in range(0, maxlen + 1):
    for chars in itertools.product(ALPHABET, repeat=n):
      yield ''.join(chars)


def all_texts(tier):
  """Ordered list of distinct (kind, text)."""
  maxlen = 3 if tier == 'quick' else 4
  seen = set()
  out = []
  for kind, t in itertools.chain(grammar_texts(), (('alphabet', t) for t in alphabet_texts(maxlen))):
    if t not in seen:
      seen.add(t)
      out.append((kind, t))
  return out


# ----------------------------------------------------------------------------------------------
# Reference translator / evaluator
# ----------------------------------------------------------------------------------------------

LAZY = {'IF': slice(1, 3), 'ISERR': slice(0, 1), 'ISERROR': slice(0, 1), 'IFERROR': slice(0, 1)}


def _IF(cond, if_true, if_false):
  return if_true() if cond else if_false()


def _IFERROR(value, value_if_error=""):
  try:
    return value()
  except Exception:      # pylint: disable=broad-except
    return value_if_error


def _ISERROR(value):
  try:
    value()
    return False
  except Exception:      # pylint: disable=broad-except
    return True


class Unspecified(Exception):
  """The property statement does not determine the outcome for this text."""


class Invalid(Exception):
  def __init__(self, reason, detail=''):
    Exception.__init__(self, reason, detail)
    self.reason = reason


class Rec(object):
  def __init__(self, values):
    self.__dict__.update(values)


def dollar_translate(src):
  """`$name` -> `rec.name` where `$` is a token of its own directly followed by a name token."""
  try:
    toks = list(tokenize.generate_tokens(io.StringIO(src).readline))
  except (tokenize.TokenError, SyntaxError, ValueError) as e:
    raise Invalid('syntax', 'tokenize: %s' % e)
  starts = [0]
  for line in src.split('\n'):
    starts.append(starts[-1] + len(line) + 1)
  cuts = []
  prev = None
  for t, nxt in zip(toks, toks[1:]):
    if t.type == tokenize.OP and t.string == '$' and nxt.type == tokenize.NAME and nxt.start == t.end:
      if not (nxt.string[0].isascii() and (nxt.string[0].isalpha() or nxt.string[0] == '_')):
        raise Unspecified('$ before a non-ASCII name')
      if prev is not None and prev.type == tokenize.OP and prev.string == '.':
        # `x.$name`: a literal reading gives `x.rec.name`, but `$name` is not a value reference
        # there; the statement does not say which kind of error this is.
        raise Unspecified('$name in attribute position')
      pos = starts[t.start[0] - 1] + t.start[1]
      if src[pos:pos + 1] != '$' or not src.startswith(nxt.string, pos + 1):
        raise Unspecified('tokenize positions do not map back to the text')
      cuts.append(pos)
    prev = t
  out, last = [], 0
  for pos in cuts:
    out.append(src[last:pos])
    # `$name` is a token of its own: keep it apart from a token it touches (`a$a` is not `arec.a`).
    out.append(' rec.' if src[:pos].rsplit('\n', 1)[-1].strip() else 'rec.')
    last = pos + 1
  out.append(src[last:])
  return ''.join(out)


class _Lazy(ast.NodeTransformer):
  def visit_Call(self, node):
    self.generic_visit(node)
    if isinstance(node.func, ast.Name) and node.func.id in LAZY:
      sl = LAZY[node.func.id]
      if any(isinstance(a, ast.Starred) for a in node.args):
        raise Unspecified('starred argument of a lazy function')
      idx = range(len(node.args))[sl]
      for i in idx:
        node.args[i] = ast.Lambda(
            args=ast.arguments(posonlyargs=[], args=[], vararg=None, kwonlyargs=[], kw_defaults=[],
                               kwarg=None, defaults=[]), body=node.args[i])
    return node


def _own_nodes(stmts):
  """Nodes of the formula's own function scope (not descending into nested defs/lambdas/classes)."""
  stack = list(stmts)
  while stack:
    n = stack.pop()
    yield n
    if isinstance(n, (ast.FunctionDef, ast.AsyncFunctionDef, ast.Lambda, ast.ClassDef)):
      continue
    stack.extend(ast.iter_child_nodes(n))


def dedent(text):
  """
  Removes the leading whitespace shared by all lines that have content (documented: "extra indent
  should not be an error").  Without a shared margin the text is unchanged.
  """
  lines = text.split('\n')
  margins = [ln[:len(ln) - len(ln.lstrip(' \t'))] for ln in lines if ln.strip(' \t')]
  if not margins:
    return text
  margin = min(margins, key=len)
  while margin and not all(m.startswith(margin) for m in margins):
    margin = margin[:-1]
  if not margin:
    return text
  return '\n'.join(ln[len(margin):] if ln.startswith(margin) else ln.lstrip(' \t') for ln in lines)


def reference_function(text):
  """
  Returns a callable f(rec) for a valid text; raises Invalid(reason) or Unspecified(why).
  An empty (blank) text is valid and gives the column type's default (None for type Any).
  """
  if not text.strip():
    return lambda rec: None
  # Python reads source with universal newlines (also inside string literals).
  text = text.replace('\r\n', '\n').replace('\r', '\n')
  src = dedent(text)
  code = dollar_translate(src)
  try:
    tree = ast.parse(code)
  except (SyntaxError, ValueError) as e:
    raise Invalid('syntax', 'parse: %s' % e)
  if src != text and any(isinstance(n, (ast.Constant, ast.JoinedStr)) and
                         n.end_lineno != n.lineno for n in ast.walk(tree)):
    raise Unspecified('common indentation around a multi-line string')
  for n in ast.walk(tree):
    if isinstance(n, ast.Name) and n.id == 'rec' and isinstance(n.ctx, ast.Store):
      raise Invalid('rec-assignment')
    if (isinstance(n, ast.Attribute) and isinstance(n.ctx, ast.Store) and
        isinstance(n.value, ast.Name) and n.value.id == 'rec'):
      raise Invalid('rec-assignment')
  for n in ast.walk(tree):
    names = []
    if isinstance(n, ast.Name) and not isinstance(n.ctx, ast.Load):
      names.append(n.id)
    elif isinstance(n, ast.arg):
      names.append(n.arg)
    elif isinstance(n, ast.alias):
      names.append((n.asname or n.name).split('.')[0])
    elif isinstance(n, (ast.FunctionDef, ast.AsyncFunctionDef, ast.ClassDef, ast.ExceptHandler)):
      names.append(n.name)
    elif isinstance(n, (ast.Global, ast.Nonlocal)):
      names.extend(n.names)
    elif isinstance(n, (ast.MatchAs, ast.MatchStar)):
      names.append(n.name)
    if 'rec' in names:
      raise Unspecified('rec rebound other than by assignment')
  body = tree.body
  own = list(_own_nodes(body))
  # A formula that is a generator/coroutine: its "value" is not determined by the statement; it
  # is still invalid if it does not compile as a function body.
  gen = any(isinstance(n, (ast.Yield, ast.YieldFrom, ast.Await)) for n in own)
  if not body:
    body = [ast.Pass()]
  elif isinstance(body[-1], ast.Expr):
    body = body[:-1] + [ast.Return(value=body[-1].value)]
  elif not any(isinstance(n, ast.Return) for n in own):
    if any(isinstance(n, ast.Return) for n in ast.walk(tree)):
      raise Unspecified('return only inside a nested function')
    raise Invalid('missing-return')
  fdef = ast.FunctionDef(
      name='_formula', decorator_list=[], returns=None, type_comment=None, type_params=[], body=body,
      args=ast.arguments(posonlyargs=[], args=[ast.arg(arg='rec'), ast.arg(arg='table')], vararg=None,
                         kwonlyargs=[], kw_defaults=[], kwarg=None, defaults=[]))
  mod = ast.Module(body=[fdef], type_ignores=[])
  mod = _Lazy().visit(mod)
  ast.fix_missing_locations(mod)
  try:
    cobj = compile(mod, '<formula>', 'exec')
  except (SyntaxError, ValueError) as e:
    raise Invalid('compile', 'compile as a function body: %s' % e)
  if gen:
    raise Unspecified('yield/await in the formula')
  ns = {'IF': _IF, 'IFERROR': _IFERROR, 'ISERROR': _ISERROR, 'ISERR': _ISERROR}
  exec(cobj, ns)                # pylint: disable=exec-used
  func = ns['_formula']
  return lambda rec: func(rec, None)


SIMPLE = (type(None), bool, int, float, str)


def encode(v):
  """Encoded cell value of a Python value, for the value types the grammar produces."""
  if isinstance(v, SIMPLE):
    return v
  if isinstance(v, (list, tuple)):
    return ['L'] + [encode(x) for x in v]
  raise Unspecified('value of type %s' % type(v).__name__)


def same(x, y):
  if isinstance(x, list) and isinstance(y, list):
    return len(x) == len(y) and all(same(p, q) for p, q in zip(x, y))
  return type(x) is type(y) and x == y


def is_error(cell):
  return isinstance(cell, list) and len(cell) >= 2 and cell[0] == 'E'


def expected_cells(text, rows):
  """
  ('invalid', reason) | ('unspecified', why) | ('valid', [per row: ('val', encoded) |
  ('err', exception class name) | ('any', why)])
  """
  try:
    func = reference_function(text)
  except Invalid as e:
    return ('invalid', e.reason)
  except Unspecified as e:
    return ('unspecified', str(e))
  except (RecursionError, MemoryError) as e:
    return ('unspecified', type(e).__name__)
  cells = []
  for r in rows:
    vals = dict(r)
    vals['good1'] = r['a'] + 1
    vals['good2'] = r['b'].upper()
    vals['manualSort'] = float(r['id'])
    try:
      cells.append(('val', encode(func(Rec(vals)))))
    except Unspecified as e:
      cells.append(('any', str(e)))
    except Exception as e:      # pylint: disable=broad-except
      cells.append(('err', type(e).__name__))
  return ('valid', cells)


def rejected_feature(text):
  """Root-cause detail for a valid formula whose cell holds a syntax error: the control character
  Python's tokenizer treats specially, else the construct as for wrong values."""
  if '\x00' in text:
    return 'NUL'
  if '\r' in text.replace('\r\n', ''):
    return 'lone-CR'
  if '\x0c' in text:
    return 'form-feed'
  return value_feature(text)


def value_feature(text):
  """Root-cause detail for a wrong value: the most specific construct the text contains."""
  try:
    tree = ast.parse(dollar_translate(dedent(text.replace('\r\n', '\n').replace('\r', '\n'))))
  except Exception:      # pylint: disable=broad-except
    return 'other'
  nodes = list(ast.walk(tree))
  if any(isinstance(n, (ast.Constant, ast.JoinedStr)) and n.end_lineno != n.lineno for n in nodes):
    return 'multi-line-string'
  if any(isinstance(n, ast.Call) and isinstance(n.func, ast.Name) and n.func.id in LAZY for n in nodes):
    return 'lazy-function'
  if any(isinstance(n, ast.JoinedStr) for n in nodes):
    return 'f-string'
  return 'other'


def check_cells(text, rows, actual):
  """Compares the cells of the X column with the reference. Returns (verdict, None | (key, msg))."""
  exp = expected_cells(text, rows)
  if len(actual) != len(rows):
    return exp, ('C19/wrong-row-count', "%d cells for %d rows" % (len(actual), len(rows)))
  if exp[0] == 'unspecified':
    return exp, None
  if exp[0] == 'invalid':
    good = [c for c in actual if not is_error(c)]
    if good:
      return exp, ('C19/invalid-not-error/' + exp[1],
                   "formula %r is invalid (%s) but its column holds %r" % (text, exp[1], actual))
    return exp, None
  for i, (e, cell) in enumerate(zip(exp[1], actual)):
    if e[0] == 'any':
      continue
    if e[0] == 'err':
      if not is_error(cell):
        return exp, ('C19/wrong-value/error-expected', "formula %r row %d: the text raises %s but the cell is %r"
                     % (text, i + 1, e[1], cell))
      if cell[1] != e[1]:
        kind = ('valid-rejected/' + rejected_feature(text) if cell[1] in ('SyntaxError', 'IndentationError')
                else 'wrong-value/error-class')
        return exp, ('C19/' + kind, "formula %r row %d: the text raises %s but the cell is %r" % (
            text, i + 1, e[1], cell))
    else:
      if is_error(cell):
        kind = ('valid-rejected/' + rejected_feature(text) if cell[1] in ('SyntaxError', 'IndentationError')
                else 'wrong-value/unexpected-error')
        return exp, ('C19/' + kind, "formula %r row %d: the text means %r but the cell is %r" % (
            text, i + 1, e[1], cell))
      if not same(e[1], cell):
        return exp, ('C19/wrong-value/' + value_feature(text), "formula %r row %d: the text means %r but the cell is %r" % (
            text, i + 1, e[1], cell))
  return exp, None


# ----------------------------------------------------------------------------------------------
# Running texts through the engine
# ----------------------------------------------------------------------------------------------

def column_cells(doc, col):
  rep = doc.fetch('T')
  return rep[2], rep[3][col]


def isolation_diff(before, after, xcols, formula_rows):
  """Differences between two dumps other than cells of xcols and the formula text of xcols."""
  b = json.loads(json.dumps(before))
  a = json.loads(json.dumps(after))
  for d in (b, a):
    for row in d['T']['rows'].values():
      for x in xcols:
        row.pop(x, None)
    for rid in formula_rows:
      d['_grist_Tables_column']['rows'][str(rid)].pop('formula', None)
  return H.diff_dumps(b, a)


def xcol_rows(doc, xcols):
  rep = doc.fetch('_grist_Tables_column')
  return [r for r, c in zip(rep[2], rep[3]['colId']) if c in xcols]


def expected_good(rows):
  return {'a': [r['a'] for r in rows], 'b': [r['b'] for r in rows],
          'good1': [r['a'] + 1 for r in rows], 'good2': [r['b'].upper() for r in rows]}


def text_class(texts, err):
  """Root-cause detail for a failed bundle: a control character Python treats specially, or what
  the reference says about the (single) text plus the exception class."""
  if len(texts) != 1:
    return 'batch/' + type(err).__name__
  text = texts[0]
  if '\x00' in text:
    return 'NUL'
  if '\r' in text.replace('\r\n', ''):
    return 'lone-CR'
  if '\x0c' in text:
    return 'form-feed'
  exp = expected_cells(text, ROWS0)
  if exp[0] == 'invalid':
    cls = {'compile': 'compile-time-only-error', 'syntax': 'syntax-error'}.get(exp[1], exp[1])
  else:
    cls = exp[0] + '-text'
  return '%s/%s' % (cls, type(err).__name__)


def run_texts(mode, texts, reload_check=False):
  """
  Sets texts[i] as the formula of the i-th X column of a fresh document in one bundle and checks
  everything.  Returns (verdicts, failures) with failures = [(key, message)].
  """
  xcols = ['X'] if mode == 'single' else XCOLS[:len(texts)]
  allx = ['X'] if mode == 'single' else XCOLS
  doc = H.Doc.load(base_snap(mode))
  before = doc.dump()
  frows = xcol_rows(doc, allx)
  fails = []
  verdicts = []
  bundle = [["ModifyColumn", "T", x, {"formula": t}] for x, t in zip(xcols, texts)]
  _, err = doc.try_apply(bundle)
  if err is not None:
    fails.append(('C19/bundle-failed/%s' % text_class(texts, err),
                  "setting formula(s) %r failed: %s" % (texts if len(texts) > 1 else texts[0],
                                                        H.exc_text(err))))
    return verdicts, fails
  after = doc.dump()
  diff = isolation_diff(before, after, allx, frows)
  if diff:
    fails.append(('C19/other-column-changed', "formula(s) %r changed more than their own column: %s" % (
        texts if len(texts) > 1 else texts[0], '; '.join(diff[:4]))))
  for x in set(allx) - set(xcols):
    if any(c is not None for c in column_cells(doc, x)[1]):
      fails.append(('C19/other-column-changed', "unused column %s changed" % x))
  bad_texts = set()
  for x, t in zip(xcols, texts):
    verdict, bad = check_cells(t, ROWS0, column_cells(doc, x)[1])
    verdicts.append(verdict)
    if bad:
      fails.append(bad)
      bad_texts.add(t)
  # The document keeps working: update a row, add a row.
  _, err = doc.try_apply(FOLLOW)
  if err is not None:
    fails.append(('C19/followup-failed/' + type(err).__name__,
                  "after formula(s) %r, updating and adding rows failed: %s" % (
                      texts if len(texts) > 1 else texts[0], H.exc_text(err))))
    return verdicts, fails
  rep = doc.fetch('T')
  good = expected_good(ROWS1)
  for c, vals in good.items():
    if not same(list(rep[3][c]), vals) or list(rep[2]) != [1, 2, 3]:
      fails.append(('C19/followup-other-column-wrong', "after formula(s) %r and an update, T.%s = %r, expected %r"
                    % (texts if len(texts) > 1 else texts[0], c, rep[3][c], vals)))
  for x, t in zip(xcols, texts):
    if t in bad_texts:
      continue       # already reported; the follow-up is there to find what shows only after a change
    _, bad = check_cells(t, ROWS1, rep[3][x])
    if bad:
      fails.append((bad[0].replace('C19/', 'C19/followup-', 1), "after an update: " + bad[1]))
  if reload_check:
    d1 = doc.dump()
    saved = H.docmodel_mod.global_docmodel
    try:
      doc2 = H.Doc.load(doc.snapshot())
      d2 = doc2.dump()
      diff = H.diff_dumps(d1, d2)
      if diff:
        fails.append(('C19/reload-differs', "formulas %r: saved and reloaded document differs: %s" % (
            texts, '; '.join(diff[:4]))))
    except Exception as e:      # pylint: disable=broad-except
      fails.append(('C19/reload-failed/' + type(e).__name__, "formulas %r: reloading the saved document "
                    "failed: %s" % (texts, H.exc_text(e))))
    finally:
      H.docmodel_mod.global_docmodel = saved
  return verdicts, fails


def _count(E, kind, text, verdict):
  valid = verdict is not None and verdict[0] == 'valid'
  E.count(text, nontrivial=valid,
          sample={'kind': kind, 'text': text, 'verdict': verdict[0]} if valid and '$' in text and
          kind != 'alphabet' else None)
  name = 'bundle-failed' if verdict is None else verdict[0]
  E.extra['texts_' + name] = E.extra.get('texts_' + name, 0) + 1
  if valid:
    for c in verdict[1]:
      k = {'val': 'rows_value_compared', 'err': 'rows_exception_compared', 'any': 'rows_unspecified'}[c[0]]
      E.extra[k] = E.extra.get(k, 0) + 1


def single_worker(chunk):
  E = Enum(PartReport('C19'), rule='')
  failed = []
  for kind, text in chunk:
    verdicts, fails = run_texts('single', [text])
    _count(E, kind, text, verdicts[0] if verdicts else None)
    for key, msg in fails:
      E.fail(key, msg, case={'mode': 'single', 'texts': [text]})
    if fails:
      failed.append(text)
  part = part_of(E)
  part['failed'] = failed
  return part


def batch_worker(groups):
  E = Enum(PartReport('C19'), rule='')
  for texts in groups:
    _, fails = run_texts('batch', texts, reload_check=True)
    E.count(None, nontrivial=False)
    E.extra['batches'] = E.extra.get('batches', 0) + 1
    for key, msg in fails:
      E.fail(key, msg, case={'mode': 'batch', 'texts': texts})
  return part_of(E)


def chunks(seq, n):
  return [seq[i:i + n] for i in range(0, len(seq), n)]


def run(tier, report):
  maxlen = 3 if tier == 'quick' else 4
  texts = all_texts(tier)
  E = Enum(report, max_samples=6, rule=(
      'formula texts = %d grammar fragments (expr, string, comment, triple-quoted, if-return, '
      'missing-return, rec-assign, lazy IF/IFERROR/ISERROR, comprehension, f-string, whitespace, return, '
      'statements, semicolon, unicode, compile-time-only errors) UNION all %d strings of length <= %d over '
      '{$ a ( ) " # newline space = :}; each text once alone in a fresh document (ModifyColumn X + '
      'follow-up update/add bundle) and, unless it failed alone, in batches of %d columns per document '
      '(consecutive and strided groupings, plus save/load round trip); non-trivial = text valid per '
      'the reference translator, so its value/exception class is compared in every row'
      % (len(grammar_texts()), sum(len(ALPHABET) ** n for n in range(maxlen + 1)),
         maxlen, NBATCH)))
  base_snap('single')
  base_snap('batch')
  failed = set()
  for part in pmap(single_worker, chunks(texts, 40)):
    failed.update(part.pop('failed'))
    E.merge(part)
  ok = [t for _, t in texts if t not in failed]
  groups = chunks(ok, NBATCH)
  nb = len(groups)
  strided = [ok[i::nb] for i in range(nb)] if nb > 1 else []
  allgroups = groups + [g for g in strided if g]
  for part in pmap(batch_worker, chunks(allgroups, 8)):
    E.merge(part)
  E.extra['texts_failed_alone_excluded_from_batches'] = len(failed)
  E.finish(exhaustive=True)
  report.assumptions.append('column X has type Any; record values are Int/Text; names available to the '
                            'reference are the builtins plus IF/IFERROR/ISERROR/ISERR')
  report.assumptions.append('outcome left unspecified (isolation still checked): rec rebound other than by '
                            'assignment, return only inside a nested def, yield/await, common indentation '
                            'around a multi-line string, values other than None/bool/int/float/str/list/tuple')


def replay(viol):
  c = viol['case']
  texts = c['texts']
  mode = c['mode']
  base_snap(mode)
  verdicts, fails = run_texts(mode, texts, reload_check=(mode == 'batch'))
  print("texts=%r" % (texts,))
  print("reference verdicts=%r" % (verdicts,))
  for key, msg in fails:
    print("%s: %s" % (key, msg))
  if fails:
    print("VIOLATION property=C19 replay=(this file) reproduced")
    return 1
  return 0
