"""C09 Metadata references always resolve."""
from mc.histprop import HistProp
from mc import worlds as W
from mc.monitors2 import MetaRefs

LEVEL = 'model_checking'
NAMES = ['W_schema', 'W_sum', 'W_2way', 'W_sumsum', 'W_views']
D = W.depths_for(NAMES, quick=2, thorough=3, overrides={'quick': {'W_sum': 1, 'W_2way': 1, 'W_sumsum': 1, 'W_views': 2},
                                                         'thorough': {'W_sum': 2, 'W_2way': 2, 'W_sumsum': 2, 'W_views': 3}})
P = HistProp('C09', lambda t: W.make(NAMES), lambda w, t: [MetaRefs()], D,
             rule='all histories of table/column/view/section/field/summary actions incl. removals; '
                  'after every successful bundle: columns->table, fields->section and a column of '
                  'that section\'s table, sections->table/view, tables->raw/record-card sections, '
                  'display/rule helper columns still used, one metadata record + raw section per '
                  'user table, and every other Ref/RefList cell of the metadata tables resolves; W_views adds '
                  'widgets linked across tables, a saved filter, a field rule on a summary widget, a '
                  'display formula on a record-card field, and the removals/regroupings that orphan them')
run, replay = P.run, P.replay
