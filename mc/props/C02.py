"""C02 Emitted doc actions are a faithful persistence delta."""
from mc.histprop import HistProp
from mc import worlds as W
from mc.monitors import Interp

LEVEL = 'model_checking'

P = HistProp('C02', W.history_worlds, lambda w, t: [Interp()],
             {t: W.depths(t) for t in ('quick', 'thorough')},
             origins={'quick': ('L', 'I'), 'thorough': ('L', 'I')},
             depth_by_origin={'quick': {'I': 1}, 'thorough': {'I': 2}},
             rule='stored actions of every bundle (from InitNewDoc for origin I, from the reloaded '
                  'base for origin L) are replayed into an independent 80-line doc-action '
                  'interpreter; after every bundle table set, row ids and every reported cell must '
                  'agree; non-trivial = bundle succeeded and changed the document')
run, replay = P.run, P.replay
