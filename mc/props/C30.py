"""
C30 Outputs are deterministic across processes.

All histories of the worlds up to the tier depth are executed in separate interpreter processes
started with different PYTHONHASHSEED values (quick: 4 seeds, thorough: 16; the set is rotated by
VERIF_SEED).  For every history the SHA-256 of the reply of every bundle (stored, undo, direct,
retValues, calc; action order preserved) and of the final dump must be identical in all processes.
The seed space (2**32) is only sampled at these values; the history space is exhaustive within
the depth.  (Hash seeds are the one place where a small fixed set of environment values stands in
for a quantifier the technique cannot enumerate; said so in the evidence.)
"""
import os
import sys
import json
import hashlib
import subprocess
import tempfile

from mc import harness as H
from mc.explore import Monitor
from mc.histprop import HistProp
from mc import worlds as W
from mc import refmodels as R
from mc.evidence import Report, VERIF

LEVEL = 'model_checking'


def _worlds(tier):
  if tier == 'quick':
    ws = [W.WRec(reduced=True), W.WSchema(), W.WSum(), W.W2Way(), W.WSumSum()]
  else:
    ws = [W.WRec(), W.WSchema(), W.WSum(), W.W2Way(), W.WTrig(), W.WSumSum()]
  # Every second process explores the worlds in reverse order, so that what a pool worker has
  # executed before a given history differs between processes too (address-based hashing and
  # module-level caches are process-history dependent, not hash-seed dependent).
  if os.environ.get('C30_REVERSE'):
    ws.reverse()
  return ws


D = {'quick': {'W_rec': 2, 'W_schema': 1, 'W_sum': 1, 'W_2way': 1, 'W_sumsum': 1},
     'thorough': {'W_rec': 2, 'W_schema': 2, 'W_sum': 2, 'W_2way': 2, 'W_trig': 2, 'W_sumsum': 2}}


def seeds(tier):
  n = 4 if tier == 'quick' else 16
  base = int(os.environ.get('VERIF_SEED', '0') or 0)
  # seed 0 is always included (the value every other check pins)
  return [0] + [(base * 7919 + i * 104729 + 1) % (2 ** 32) for i in range(1, n)]


class Digest(Monitor):
  name = 'digest'

  def check(self, ctx):
    key = '%s|%s|%s' % (ctx.world.name, ctx.origin,
                        ' > '.join([l for (l, _b) in ctx.hist] + [ctx.label]))
    if ctx.exc is not None:
      reply = 'exc:' + H.exc_text(ctx.exc)
    else:
      r = ctx.group.get_repr()
      reply = json.dumps(H.norm([r['stored'], r['undo'], r['direct'],
                                 H.enc(r['retValues']) if False else _enc(r['retValues']), r['calc']]),
                         sort_keys=True)
    dump = H.canon_of_dump(ctx.post_dump)
    dig = hashlib.sha256((reply + '|' + dump).encode('utf8')).hexdigest()[:24]
    ctx.extra['digests'] = [[key, dig]]
    return ()


def _enc(v):
  import actions
  return actions.encode_objects(v)


P = HistProp('C30', _worlds, lambda w, t: [Digest()], D,
             origins={'quick': ('L',), 'thorough': ('L',)}, rule='')


def worker_main(tier, outfile):
  rep = Report('C30', tier, LEVEL)
  P.run(tier, rep)
  digs = rep.coverage.pop('digests', [])
  out = {'digests': dict((k, d) for k, d in digs), 'histories': rep.coverage.get('histories', 0),
         'states': rep.coverage.get('states', 0), 'transitions': rep.coverage.get('transitions', 0),
         'errors': [v['message'] for v in rep.violations.values()],
         'samples': rep.coverage.get('samples', []),
         'hashseed': os.environ.get('PYTHONHASHSEED')}
  with open(outfile, 'w') as f:
    json.dump(out, f)


def spawn(tier, seed, outfile, extra_env=None):
  env = dict(os.environ)
  env['PYTHONHASHSEED'] = str(seed)
  env.update(extra_env or {})
  cmd = [sys.executable, '-B', '-m', 'mc.props.C30', '--worker', tier, outfile]
  return subprocess.run(cmd, cwd=VERIF, env=env, stdout=subprocess.PIPE, stderr=subprocess.STDOUT,
                        universal_newlines=True)


def run(tier, report):
  ss = seeds(tier)
  results = {}
  tmpdir = tempfile.mkdtemp(prefix='c30_')
  try:
    for i, s in enumerate(ss):
      out = os.path.join(tmpdir, 'seed_%d.json' % s)
      r = spawn(tier, s, out, {'C30_REVERSE': '1'} if i % 2 else None)
      if r.returncode != 0 or not os.path.exists(out):
        report.add_violation('C30/worker-failed', "worker with PYTHONHASHSEED=%s failed:\n%s" % (
            s, r.stdout[-1500:]))
        continue
      with open(out) as f:
        results[s] = json.load(f)
  finally:
    for fn in os.listdir(tmpdir):
      os.unlink(os.path.join(tmpdir, fn))
    os.rmdir(tmpdir)
  if not results:
    return
  ref_seed = ss[0]
  ref = results[ref_seed]['digests']
  mismatches = 0
  for s, res in results.items():
    for e in res['errors']:
      report.add_violation('C30/worker-error', "seed %s: %s" % (s, e[:600]))
    if s == ref_seed:
      continue
    d = res['digests']
    if set(d) != set(ref):
      only = sorted(set(d) ^ set(ref))[:3]
      report.add_violation('C30/history-sets-differ', "the set of explored histories differs between "
                           "PYTHONHASHSEED=%s and %s (alphabets depend on the seed?): %s" % (ref_seed, s, only))
    for k in sorted(set(d) & set(ref)):
      if d[k] != ref[k]:
        mismatches += 1
        world, origin, labels = k.split('|', 2)
        last = labels.split(' > ')[-1]
        report.add_violation('C30/reply-or-data-differs/%s/%s' % (world, R.strip_numbers(last)),
                             "history %s gives different replies/data under PYTHONHASHSEED=%s and %s" % (
                                 k, ref_seed, s),
                             world=world, origin=origin, labels=labels.split(' > '), seeds=[ref_seed, s])
  any_res = results[ref_seed]
  report.coverage.update({
      'states': any_res['states'], 'transitions': any_res['transitions'] * len(results),
      'traces_validated_against_impl': len(ref) * len(results),
      'histories': len(ref), 'hash_seeds': sorted(results), 'processes': len(results),
      'mismatching_histories': mismatches,
      'evaluations': len(ref) * len(results), 'distinct_nontrivial': len(set(ref.values())),
      'samples': any_res['samples'] or [{'note': 'no sample'}],
      'rule': 'every history up to depth %s over %s, executed in %d separate processes with '
              'PYTHONHASHSEED in %s; SHA-256 of every reply (stored, undo, direct, retValues, calc in '
              'order) and of the final dump compared across processes' % (
                  D[tier], [w.name for w in _worlds(tier)], len(results), sorted(results)),
      'exhaustive': False,
  })
  report.caps.append('PYTHONHASHSEED ranges over 2**32 values; only %d are run' % len(results))
  report.assumptions.append('no time- or randomness-dependent formulas in the worlds')


def replay(viol):
  """Re-runs the single history under the two seeds and prints whether the digests differ."""
  if 'labels' not in viol:
    print("nothing to replay")
    return 0
  tier = 'thorough'
  tmpdir = tempfile.mkdtemp(prefix='c30r_')
  digs = []
  try:
    for s in viol['seeds']:
      out = os.path.join(tmpdir, 's%d.json' % s)
      r = spawn(tier, s, out, {'C30_ONLY': json.dumps([viol['world'], viol['labels']])})
      with open(out) as f:
        res = json.load(f)
      key = '%s|%s|%s' % (viol['world'], viol['origin'], ' > '.join(viol['labels']))
      digs.append(res['digests'].get(key))
  finally:
    for fn in os.listdir(tmpdir):
      os.unlink(os.path.join(tmpdir, fn))
    os.rmdir(tmpdir)
  print("digests under seeds %s: %s" % (viol['seeds'], digs))
  if digs[0] != digs[1]:
    print("VIOLATION property=C30 replay=(this file) reproduced")
    return 1
  return 0


if __name__ == '__main__':
  if len(sys.argv) >= 4 and sys.argv[1] == '--worker':
    only = os.environ.get('C30_ONLY')
    if only:
      wname, labels = json.loads(only)
      os.environ['VERIF_WORLDS'] = wname
    worker_main(sys.argv[2], sys.argv[3])
