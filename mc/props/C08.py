"""C08 Internal schema always matches the metadata (after success and after rollback)."""
from mc.histprop import HistProp
from mc import worlds as W
from mc.monitors import SchemaMatch

LEVEL = 'model_checking'
NAMES = ['W_schema', 'W_sum', 'W_2way']
D = W.depths_for(NAMES, quick=2, thorough=3, overrides={'quick': {'W_sum': 1, 'W_2way': 2},
                                                         'thorough': {'W_sum': 2}})
P = HistProp('C08', lambda t: W.make(NAMES), lambda w, t: [SchemaMatch()], D,
             rule='all histories of schema-affecting bundles (incl. naturally failing ones) over '
                  'W_schema/W_sum/W_2way; after every bundle, successful or rolled back, an '
                  'independently built schema {table:{col:(type,isFormula,formula,reverseColId)}} '
                  'from the _grist_Tables/_grist_Tables_column rows must equal engine.schema, and no '
                  'column record may have a parentId without a table record')
run, replay = P.run, P.replay
