"""C27 Row id allocation never collides or creates ghost rows (exhaustive enumeration).

Every id list of a small length over a domain of adversarial ids is given to AddRecord /
BulkAddRecord / ReplaceTableData on tables in several prior states; the outcome (rejection or
returned ids + resulting tables) is compared with a reference written from the property statement.
"""
import copy
import itertools
import json

from mc import harness as H
from mc.enumprop import Enum, PartReport, part_of, pmap

LEVEL = 'exploration'
LIMIT = 1000000

# Prior states of table T, each built by a little history (so that "max id ever used" and
# "max id now" differ in some of them).
STATES = {
    'empty': [],
    'r1': [["BulkAddRecord", "T", [None], {"v": ["p1"]}]],
    'r125': [["BulkAddRecord", "T", [1, 2, 5], {"v": ["p1", "p2", "p5"]}]],
    'r2_after_remove1': [["BulkAddRecord", "T", [None, None], {"v": ["p1", "p2"]}],
                         ["RemoveRecord", "T", 1]],
    'r1_after_remove23': [["BulkAddRecord", "T", [None, None, None], {"v": ["p1", "p2", "p3"]}],
                          ["BulkRemoveRecord", "T", [2, 3]]],
}
STATE_ORDER = ['empty', 'r1', 'r125', 'r2_after_remove1', 'r1_after_remove23']

_SNAPS = {}


def base_snap(state):
  if state not in _SNAPS:
    doc = H.Doc.new()
    doc.apply([["AddTable", "T", [{"id": "v", "type": "Text"}]]])
    doc.apply([["AddTable", "Agg", [{"id": "ids", "type": "Any", "isFormula": True,
                                     "formula": "sorted(r.id for r in T.all)"},
                                    {"id": "n", "type": "Any", "isFormula": True,
                                     "formula": "len(T.lookupRecords())"}]]])
    doc.apply([["AddRecord", "Agg", None, {}]])
    for ua in STATES[state]:
      doc.apply([ua])
    _SNAPS[state] = doc.snapshot()
  return _SNAPS[state]


# ----------------------------------------------------------------------------------------------
# Reference
# ----------------------------------------------------------------------------------------------

def is_auto(i):
  return i is None or (not isinstance(i, bool) and i < 0)


def invalid_reason(ids, prior_ids, replace):
  """Why the request cannot create exactly the requested distinct rows (None if it can)."""
  explicit = [int(i) for i in ids if not is_auto(i)]
  if any(i > LIMIT for i in explicit):
    return 'over-limit-id'
  if not replace and any(i in prior_ids for i in explicit):
    return 'existing-id'
  if any(i == 0 for i in explicit):
    return 'explicit-id-0'
  if len(set(explicit)) != len(explicit):
    return 'repeated-id'
  return None


def naive_collision(ids, prior_ids, replace):
  """
  True if filling automatic ids left to right with "one more than everything seen so far" runs
  into an explicit id that comes later in the same request.  Such a (valid) request may either
  be satisfied with other ids or be rejected cleanly; it must not produce colliding rows.
  """
  seen = set() if replace else set(prior_ids)
  explicit = set(int(i) for i in ids if not is_auto(i))
  used = set()
  for i in ids:
    if is_auto(i):
      nxt = max(seen | used | {0}) + 1
      if nxt in explicit:
        return True
      used.add(nxt)
    else:
      used.add(int(i))
  return False


def t_rows(dump):
  return {r: row['v'] for r, row in dump['T']['rows'].items()}


def check_case(case):
  """Runs one case on a fresh document; returns (outcome_tag, None | (key, message))."""
  doc = H.Doc.load(base_snap(case['state']))
  before = doc.dump()
  bundle = case['bundle']
  has_bool = any(isinstance(i, bool) for ua in bundle for i in ua['ids'])

  # Reference pass over the requests, as far as it can go without the returned ids.  `model`
  # holds the ids that certainly exist (old rows + explicit ids); `sim` adds the automatic ids a
  # left-to-right "max + 1" filling would give -- used only to be lenient (see naive_collision).
  model = set(t_rows(before))
  sim = set(model)
  reason = None
  collide = False
  for ua in bundle:
    replace = ua['kind'] == 'ReplaceTableData'
    reason = reason or invalid_reason(ua['ids'], model, replace)
    collide = collide or naive_collision(ua['ids'], sim, replace)
    if reason:
      break
    if replace:
      model, sim = set(), set()
    for i in ua['ids']:
      if is_auto(i):
        sim.add(max(sim | {0}) + 1)
      else:
        model.add(int(i))
        sim.add(int(i))

  user_actions = []
  for ua in bundle:
    vals = [ua['tag'] + str(pos) for pos in range(len(ua['ids']))]
    if ua['kind'] == 'AddRecord':
      user_actions.append(["AddRecord", "T", ua['ids'][0], {"v": vals[0]}])
    else:
      user_actions.append([ua['kind'], "T", list(ua['ids']), {"v": vals}])

  g, exc = doc.try_apply(user_actions)
  after = doc.dump()

  if exc is not None:
    if after != before:
      return 'rejected', ('C27/rejected-with-trace/' + (reason or 'valid-request'),
                          "%s rejected (%s) but the document changed: %s" % (
                              json.dumps(user_actions), H.exc_text(exc),
                              H.diff_dumps(before, after)))
    g2 = doc.apply([["Calculate"]])
    if g2.stored:
      return 'rejected', ('C27/rejected-with-trace/' + (reason or 'valid-request'),
                          "%s rejected (%s) but a following Calculate stores %s" % (
                              json.dumps(user_actions), H.exc_text(exc),
                              H.stored_reprs(g2)[:3]))
    if reason or collide or has_bool:
      return 'rejected', None
    if len(bundle) > 1 and late_existing_possible(bundle, before):
      return 'rejected', None
    return 'rejected', ('C27/valid-request-rejected',
                        "%s on rows %s is a valid request but was rejected: %s" % (
                            json.dumps(user_actions), sorted(t_rows(before)), H.exc_text(exc)))

  # ---- accepted ----
  rets = H.group_repr(g)['retValues']
  if reason:
    return 'accepted', ('C27/%s-accepted' % reason,
                        "%s on rows %s must be rejected (%s) but returned %s; rows now %s" % (
                            json.dumps(user_actions), sorted(t_rows(before)), reason,
                            json.dumps(rets), json.dumps(sorted(t_rows(after).items()))))

  def bad(kind, msg):
    if has_bool:
      key = 'C27/bool-id-accepted'
    elif collide:
      key = 'C27/auto-id-collides-with-explicit'
    else:
      key = 'C27/' + kind
    return 'accepted', (key, "%s on rows %s: %s; returned %s; rows now %s" % (
        json.dumps(user_actions), sorted(t_rows(before)), msg, json.dumps(rets),
        json.dumps(sorted(t_rows(after).items()))))

  model = dict(t_rows(before))
  for ua, ret in zip(bundle, rets):
    ids = ua['ids']
    markers = [ua['tag'] + str(pos) for pos in range(len(ids))]
    prior_ids = set(model)
    if ua['kind'] == 'ReplaceTableData':
      if ret is not None:
        return bad('wrong-return', "ReplaceTableData returned a value")
      # Returned ids are not available: the final table decides (ReplaceTableData is only
      # enumerated as the last action).
      actual = t_rows(after)
      if len(actual) != len(ids):
        return bad('wrong-rows', "%d rows requested, %d exist" % (len(ids), len(actual)))
      rest = dict(actual)
      for pos, i in enumerate(ids):
        if not is_auto(i):
          if rest.pop(int(i), None) != markers[pos]:
            return bad('wrong-rows', "row %s does not hold the values given for it" % i)
      auto_markers = sorted(m for pos, m in enumerate(markers) if is_auto(ids[pos]))
      if sorted(rest.values()) != auto_markers or any(r < 1 for r in rest):
        return bad('wrong-rows', "automatic rows %s do not hold exactly %s" % (rest, auto_markers))
      model = dict(actual)
      continue
    if ua['kind'] == 'AddRecord':
      ret = [ret]
    if not isinstance(ret, list) or len(ret) != len(ids):
      return bad('wrong-return', "returned ids do not match the request")
    if any(isinstance(r, dict) or not isinstance(r, int) for r in ret):
      return bad('wrong-return', "returned ids are not plain integers")
    if len(set(ret)) != len(ret):
      return bad('duplicate-ids-returned', "returned ids repeat")
    top = max(prior_ids | {0})
    for pos, (i, r) in enumerate(zip(ids, ret)):
      if r in prior_ids:
        return bad('existing-id-returned', "returned id %s existed already" % r)
      if is_auto(i):
        if r <= top:
          return bad('auto-id-not-above-existing', "automatic id %s <= existing %s" % (r, top))
      elif r != i:
        return bad('wrong-return', "explicit id %s came back as %s" % (i, r))
      model[r] = markers[pos]

  if t_rows(after) != model:
    return bad('wrong-rows', "expected rows %s" % json.dumps(sorted(model.items())))
  # Nothing else may differ: old rows keep every cell, other tables are untouched (Agg shows
  # the engine's own view of T's rows: no ghosts in `T.all` / lookups).
  expect = copy.deepcopy(before)
  expect['T'] = after['T']
  for r, row in before['T']['rows'].items():
    if r in model and model[r] == row['v'] and after['T']['rows'].get(r) != row:
      return bad('old-row-changed', "row %s changed: %s -> %s" % (r, row, after['T']['rows'].get(r)))
  expect['Agg']['rows'][1]['ids'] = ['L'] + sorted(model)
  expect['Agg']['rows'][1]['n'] = len(model)
  if after != expect:
    return bad('ghost-or-side-effect', "unexpected differences (expected vs actual): %s" % (
        H.diff_dumps(expect, after)))
  return 'accepted', None


def late_existing_possible(bundle, before):
  """
  For two-action bundles: the second request may name an id that the first one allocated
  automatically (then rejecting is right).  Automatic ids are 'above everything', so any explicit
  id of action 2 above the prior maximum could be such an id.
  """
  top = max(set(t_rows(before)) | {0})
  first, second = bundle[0], bundle[1]
  if not any(is_auto(i) for i in first['ids']):
    return False
  if second['kind'] == 'ReplaceTableData':
    return False
  return any((not is_auto(i)) and int(i) > top for i in second['ids'])


# ----------------------------------------------------------------------------------------------
# Enumeration
# ----------------------------------------------------------------------------------------------

DOMAIN = [None, -1, -2, 0, 1, 2, 5, LIMIT, LIMIT + 1, True]
DOMAIN2 = [None, -1, 1, 2, 6]          # id lists of the two-action bundles


def id_lists(domain, maxlen, minlen=0):
  for n in range(minlen, maxlen + 1):
    for ids in itertools.product(domain, repeat=n):
      yield list(ids)


def slow_ok(ids, state, tier):
  """
  A case that really creates row 1,000,000 costs ~1.5 s (every column grows to 10^6 cells), so
  lists containing that id are enumerated over a smaller sub-space (stated in `rule`).
  """
  if LIMIT not in [i for i in ids if not isinstance(i, bool)]:
    return True
  small = all(i in (None, 1, LIMIT) and not isinstance(i, bool) for i in ids)
  if tier == 'quick':
    return state == 'r125' and small
  return len(ids) <= 2 or (state in ('empty', 'r125') and small)


def cases(tier):
  maxlen = 2 if tier == 'quick' else 3
  for state in STATE_ORDER:
    for ids in id_lists(DOMAIN, maxlen):
      if not slow_ok(ids, state, tier):
        continue
      kinds = ['BulkAddRecord', 'ReplaceTableData'] + (['AddRecord'] if len(ids) == 1 else [])
      for kind in kinds:
        yield {'state': state, 'bundle': [{'kind': kind, 'ids': ids, 'tag': 'a'}]}
  # Histories inside one bundle: an add followed by another add / replace.
  states2 = ['r125'] if tier == 'quick' else ['empty', 'r125', 'r1_after_remove23']
  dom2 = [None, 1, 6] if tier == 'quick' else DOMAIN2
  for state in states2:
    for ids1 in id_lists(dom2, 2, 1):
      for ids2 in id_lists(dom2, 2, 1):
        for kind2 in ('BulkAddRecord', 'ReplaceTableData'):
          yield {'state': state, 'bundle': [{'kind': 'BulkAddRecord', 'ids': ids1, 'tag': 'a'},
                                            {'kind': kind2, 'ids': ids2, 'tag': 'b'}]}


def simplicity(case):
  """Simple cases first, so that the recorded sample of a finding is a readable one."""
  ids = [i for ua in case['bundle'] for i in ua['ids']]
  return (any(isinstance(i, bool) for i in ids), len(case['bundle']), len(ids),
          any(i == LIMIT for i in ids), STATE_ORDER.index(case['state']))


def work(chunk):
  E = Enum(PartReport('C27'), rule='')
  for case in chunk:
    try:
      tag, bad = check_case(case)
    except Exception as e:   # pylint: disable=broad-except
      tag, bad = 'error', ('C27/check-error/' + type(e).__name__,
                           "case %s: %s" % (json.dumps(case), H.exc_text(e)))
    E.count(json.dumps(case, sort_keys=True), nontrivial=(tag == 'accepted'),
            sample={'case': case, 'outcome': tag} if len(case['bundle'][0]['ids']) >= 2 else None)
    E.extra[tag] = E.extra.get(tag, 0) + 1
    if bad:
      E.fail(bad[0], bad[1], case=case)
  return part_of(E)


def split(all_cases, nchunks):
  """Round-robin over the simplicity order (which also spreads the slow cases evenly)."""
  all_cases = sorted(all_cases, key=simplicity)
  chunks = [[] for _ in range(nchunks)]
  for i, c in enumerate(all_cases):
    chunks[i % nchunks].append(c)
  return [c for c in chunks if c]


def run(tier, report):
  maxlen = 2 if tier == 'quick' else 3
  E = Enum(report, rule=(
      'one bundle per case on a fresh copy of a document with table T(v) and a formula table '
      'listing T.all: {AddRecord (1 id), BulkAddRecord, ReplaceTableData} x every id list of '
      'length <= %d over {None,-1,-2,0,1,2,5,10^6,10^6+1,True} x prior states {empty, {1}, '
      '{1,2,5}, {2} after removing 1, {1} after removing 2,3}; plus two-action bundles '
      'BulkAddRecord;(BulkAddRecord|ReplaceTableData) with id lists of length 1..2 over %s on %s '
      'prior states. Lists containing 10^6 (1.5 s each: columns grow to 10^6 cells) are limited to %s. Oracle: invalid requests (existing / repeated / >10^6 / 0 explicit id) must '
      'raise, leave dump() identical and a following Calculate without stored actions; accepted '
      'requests: returned ids distinct, new, explicit ones as asked, automatic ones above every '
      'existing id, resulting rows = old rows + exactly the returned ids each holding the values '
      'given at its position, T.all / lookupRecords agree, nothing else changes. non-trivial = '
      'accepted request' % (maxlen, '{None,1,6}' if tier == 'quick' else '{None,-1,1,2,6}',
                            1 if tier == 'quick' else 3,
                            'lists over {None,1,10^6} on state {1,2,5}' if tier == 'quick'
                            else 'length <= 2 (all states), or length 3 over {None,1,10^6} on states '
                                 'empty and {1,2,5}')))
  for s in STATE_ORDER:
    base_snap(s)        # build before forking
  all_cases = list(cases(tier))
  parts = pmap(work, split(all_cases, 48))
  # Report, for each finding key, the simplest failing case (not the one of the first chunk).
  viols = sorted((v for part in parts for v in part['violations']),
                 key=lambda v: simplicity(v['case']))
  for part in parts:
    part['violations'] = []
    E.merge(part)
  E.merge({'evaluations': 0, 'nontrivial': [], 'nontrivial_count': 0, 'samples': [],
           'violations': viols, 'extra': {}})
  E.finish(exhaustive=True)
  report.assumptions.append('an id list is taken as invalid only for the four reasons the property '
                            'names; a valid request whose left-to-right automatic ids would run '
                            'into a later explicit id may be rejected cleanly or satisfied')
  report.assumptions.append('a table already holding row 1,000,000 (automatic id above the limit) '
                            'is not enumerated')


def replay(viol):
  for s in STATE_ORDER:
    base_snap(s)
  tag, bad = check_case(viol['case'])
  print("outcome=%s -> %s" % (tag, bad))
  if bad:
    print("VIOLATION property=C27 replay=(this file) reproduced")
    return 1
  return 0
