"""
C25 Migrations are total and reach the current schema.

Enumeration: starting version v in 0..SCHEMA_VERSION(+1) x document flavour x deviations of single
cells (thorough: also pairs) of a referentially consistent version-v document.

How a version-v document is built (no repo test code is used): the version-0 metadata schema is
re-stated below (SCHEMA_V0, a historical fact); an EMPTY document is migrated step by step with the
registered migration functions and the doc actions they return are applied to an independent
interpreter (mc.refmodels.RefInterp extended to remember column infos); its schema after step v is
"the schema at version v".  The document is then populated from the DEFAULT WORLD below, keeping
for each metadata table only the columns that exist at v.

Oracle: migrations.create_migrations(all_tables) returns; the returned doc actions (in the
wire form given to Node) apply cleanly to the independent interpreter loaded with the version-v
document (row id None in BulkAddRecord = SQLite assigns the next id; an update of a row id that
does not exist, e.g. None, is an error); the resulting metadata schema equals
schema.schema_create_actions(); _grist_DocInfo.schemaVersion is current; cells of user tables are
untouched (except the documented Image -> Attachments conversion of migration 17); a current (or
newer) document gets exactly the single schemaVersion update; with metadata_only=True the result is
the same from v >= 17 on and the documented "need all tables" refusal before that.
"""
import sys
import json
import copy
import traceback
import itertools

from mc import harness as H
from mc.enumprop import Enum, PartReport, part_of, pmap
from mc.refmodels import RefInterp, InterpError

import actions            # repo: action tuples (input construction / wire form)
import schema             # repo: SCHEMA_VERSION, schema_create_actions (the target)
import migrations         # code under test
import table_data_set     # used ONLY to run single migration steps on the empty document

LEVEL = 'exploration'
INF = float('inf')


# ----------------------------------------------------------------------------------------------
# Version-0 schema, re-stated (historical snapshot of the metadata tables before migration 1)
# ----------------------------------------------------------------------------------------------

def _c(col_id, col_type, formula='', is_formula=False):
  return {'id': col_id, 'type': col_type, 'isFormula': is_formula, 'formula': formula}

SCHEMA_V0 = [
  ('_grist_DocInfo', [_c('docId', 'Text'), _c('peers', 'Text'), _c('schemaVersion', 'Int')]),
  ('_grist_Tables', [_c('tableId', 'Text')]),
  ('_grist_Tables_column', [
      _c('parentId', 'Ref:_grist_Tables'), _c('parentPos', 'PositionNumber'), _c('colId', 'Text'),
      _c('type', 'Text'), _c('widgetOptions', 'Text'), _c('isFormula', 'Bool'),
      _c('formula', 'Text'), _c('label', 'Text')]),
  ('_grist_Imports', [
      _c('tableRef', 'Ref:_grist_Tables'), _c('origFileName', 'Text'),
      _c('parseFormula', 'Text', 'grist.parseImport(rec, table._engine)', True),
      _c('delimiter', 'Text', "','"), _c('doublequote', 'Bool', 'True'), _c('escapechar', 'Text'),
      _c('quotechar', 'Text', "'\"'"), _c('skipinitialspace', 'Bool'),
      _c('encoding', 'Text', "'utf8'"), _c('hasHeaders', 'Bool')]),
  ('_grist_External_database', [
      _c('host', 'Text'), _c('port', 'Int'), _c('username', 'Text'), _c('dialect', 'Text'),
      _c('database', 'Text'), _c('storage', 'Text')]),
  ('_grist_External_table', [
      _c('tableRef', 'Ref:_grist_Tables'), _c('databaseRef', 'Ref:_grist_External_database'),
      _c('tableName', 'Text')]),
  ('_grist_TabItems', [_c('tableRef', 'Ref:_grist_Tables'), _c('viewRef', 'Ref:_grist_Views')]),
  ('_grist_Views', [_c('name', 'Text'), _c('type', 'Text'), _c('layoutSpec', 'Text')]),
  ('_grist_Views_section', [
      _c('tableRef', 'Ref:_grist_Tables'), _c('parentId', 'Ref:_grist_Views'),
      _c('parentKey', 'Text'), _c('title', 'Text'), _c('defaultWidth', 'Int', '100'),
      _c('borderWidth', 'Int', '1'), _c('theme', 'Text'), _c('chartType', 'Text'),
      _c('layoutSpec', 'Text'), _c('filterSpec', 'Text'), _c('sortColRefs', 'Text'),
      _c('linkSrcSectionRef', 'Ref:_grist_Views_section'),
      _c('linkSrcColRef', 'Ref:_grist_Tables_column'),
      _c('linkTargetColRef', 'Ref:_grist_Tables_column')]),
  ('_grist_Views_section_field', [
      _c('parentId', 'Ref:_grist_Views_section'), _c('parentPos', 'PositionNumber'),
      _c('colRef', 'Ref:_grist_Tables_column'), _c('width', 'Int'), _c('widgetOptions', 'Text')]),
  ('_grist_Validations', [_c('formula', 'Text'), _c('name', 'Text'), _c('tableRef', 'Int')]),
  ('_grist_REPL_Hist', [_c('code', 'Text'), _c('outputText', 'Text'), _c('errorText', 'Text')]),
  ('_grist_Attachments', [
      _c('fileIdent', 'Text'), _c('fileName', 'Text'), _c('fileType', 'Text'),
      _c('fileSize', 'Int'), _c('timeUploaded', 'DateTime')]),
]

# Python-level defaults of the column types (what an omitted cell holds).
PY_DEFAULTS = {
    'Any': None, 'Attachments': None, 'Blob': None, 'Bool': False, 'Choice': '',
    'ChoiceList': None, 'Date': None, 'DateTime': None, 'Id': 0, 'Int': 0, 'ManualSortPos': INF,
    'Numeric': 0.0, 'PositionNumber': INF, 'Ref': 0, 'RefList': None, 'Text': '',
}


def py_default(col_type):
  return PY_DEFAULTS.get((col_type or 'Any').split(':')[0])


# ----------------------------------------------------------------------------------------------
# Independent interpreter (Node/SQLite view of doc actions), remembering column infos
# ----------------------------------------------------------------------------------------------

INFO_KEYS = ('type', 'isFormula', 'formula')


class Interp(RefInterp):
  def __init__(self):
    super(Interp, self).__init__()
    self.infos = {}     # table_id -> {col_id: {type, isFormula, formula}}

  @staticmethod
  def _info(info):
    return {'type': info.get('type', 'Any'), 'isFormula': bool(info.get('isFormula', False)),
            'formula': info.get('formula', '')}

  def _AddTable(self, tid, columns):
    super(Interp, self)._AddTable(tid, columns)
    self.infos[tid] = {c['id']: self._info(c) for c in columns}

  def _RemoveTable(self, tid):
    super(Interp, self)._RemoveTable(tid)
    del self.infos[tid]

  def _RenameTable(self, old, new):
    super(Interp, self)._RenameTable(old, new)
    self.infos[new] = self.infos.pop(old)

  def _AddColumn(self, tid, cid, info):
    super(Interp, self)._AddColumn(tid, cid, info)
    self.infos[tid][cid] = self._info(info)

  def _RemoveColumn(self, tid, cid):
    super(Interp, self)._RemoveColumn(tid, cid)
    del self.infos[tid][cid]

  def _RenameColumn(self, tid, old, new):
    super(Interp, self)._RenameColumn(tid, old, new)
    self.infos[tid][new] = self.infos[tid].pop(old)

  def _ModifyColumn(self, tid, cid, info):
    super(Interp, self)._ModifyColumn(tid, cid, info)
    for k in INFO_KEYS:
      if k in info:
        self.infos[tid][cid][k] = info[k]

  def _BulkAddRecord(self, tid, rids, cols):
    # SQLite assigns max(rowid)+1 to a row inserted with a NULL id.
    t = self._t(tid)
    nxt = max(list(t['rows']) + [0]) + 1
    out = []
    for r in rids:
      if r is None:
        r = nxt
      out.append(r)
      if isinstance(r, int):
        nxt = max(nxt, r + 1)
    super(Interp, self)._BulkAddRecord(tid, out, cols)


# ----------------------------------------------------------------------------------------------
# Schema at each version, from migrating an empty document
# ----------------------------------------------------------------------------------------------

_SCHEMAS = {}


def schema_at(v):
  """{table_id: {col_id: info}} of the metadata tables at version v (v capped at current)."""
  if not _SCHEMAS:
    it = Interp()
    tdset = table_data_set.TableDataSet()
    for (tid, cols) in SCHEMA_V0:
      a = actions.AddTable(tid, copy.deepcopy(cols))
      tdset.apply_doc_action(a)
      it.apply(actions.get_action_repr(a))
    a = actions.AddRecord('_grist_DocInfo', 1, {})
    tdset.apply_doc_action(a)
    it.apply(actions.get_action_repr(a))
    _SCHEMAS[0] = copy.deepcopy(it.infos)
    for k in range(1, schema.SCHEMA_VERSION + 1):
      fn = migrations.all_migrations.get(k, migrations.noop_migration)
      for a in fn(tdset):
        it.apply(actions.get_action_repr(a))
      _SCHEMAS[k] = copy.deepcopy(it.infos)
  return _SCHEMAS[min(v, schema.SCHEMA_VERSION)]


def target_schema():
  return {a.table_id: {c['id']: Interp._info(c) for c in a.columns}    # pylint: disable=protected-access
          for a in schema.schema_create_actions()}


# ----------------------------------------------------------------------------------------------
# The default world: a small referentially consistent document, stated with every column any
# version knows; build_doc() keeps the columns existing at v.
# ----------------------------------------------------------------------------------------------

GOOD_COMMENT = json.dumps({'text': 'hi', 'timeCreated': 1700000000000, 'timeUpdated': 1700000001000,
                           'resolved': True})
GOOD_ACL_PARSED = json.dumps(['Comment', ['Eq', ['Attr', ['Name', 'user'], 'Access'],
                                          ['Name', 'OWNER']], 'owners only'])


def world(v, flavour):
  """
  Returns (meta, user): meta = {table_id: {row_id: {col: value}}} (only the cells that are not
  type defaults), user = {table_id: (columns [(col_id, type, isFormula, formula)], {row_id: cells})}.
  Versions matter only where a cell's MEANING changed (a Ref column that did not exist earlier is
  simply dropped by build_doc).
  """
  # pylint: disable=too-many-locals,too-many-statements
  image_type = 'Image' if v < 17 else 'Attachments'
  photo = (lambda n: n) if v < 17 else (lambda n: [n] if n else None)
  t_orders, t_cust, t_sum = 1, 2, 3
  tables = {
      t_orders: {'tableId': 'Orders', 'primaryViewId': 1, 'rawViewSectionRef': 3,
                 'recordCardViewSectionRef': 4},
      t_cust: {'tableId': 'Customers', 'primaryViewId': 0, 'rawViewSectionRef': 0},
  }
  cols = {
      1: {'parentId': t_orders, 'parentPos': 1.0, 'colId': 'manualSort', 'type': 'ManualSortPos',
          'label': 'manualSort'},
      2: {'parentId': t_orders, 'parentPos': 2.0, 'colId': 'customer', 'type': 'Ref:Customers',
          'label': 'Customer', 'widgetOptions': '{"visibleCol":"name","alignment":"left"}',
          'visibleCol': 5},
      3: {'parentId': t_orders, 'parentPos': 3.0, 'colId': 'amount', 'type': 'Numeric',
          'label': 'Amount', 'widgetOptions': '{"decimals":2}'},
      4: {'parentId': t_orders, 'parentPos': 4.0, 'colId': 'photo', 'type': image_type,
          'label': 'Photo'},
      5: {'parentId': t_cust, 'parentPos': 5.0, 'colId': 'name', 'type': 'Text', 'label': 'Name'},
      6: {'parentId': t_cust, 'parentPos': 6.0, 'colId': 'vip', 'type': 'Bool', 'label': 'VIP',
          'widgetOptions': '{"widget":"CheckBox","rulesOptions":[{"fillColor":"#f00"}]}',
          'rules': '[7]'},        # RefList cells reach migrations as the JSON text SQLite holds
      7: {'parentId': t_cust, 'parentPos': 7.0, 'colId': 'gristHelper_ConditionalRule',
          'type': 'Any', 'isFormula': True, 'formula': '$vip and len($name) > 2'},
      14: {'parentId': t_cust, 'parentPos': 8.0, 'colId': 'total', 'type': 'Numeric',
           'isFormula': True, 'label': 'Total',
           'formula': 'sum(r.amount for r in Orders.lookupRecords(customer=$id))'},
  }
  user = {
      'Orders': ([('manualSort', 'ManualSortPos', False, ''), ('customer', 'Ref:Customers', False, ''),
                  ('amount', 'Numeric', False, ''), ('photo', image_type, False, '')],
                 {1: {'manualSort': 1.0, 'customer': 1, 'amount': 10.5, 'photo': photo(3)},
                  2: {'manualSort': 2.0, 'customer': 2, 'amount': 0.0, 'photo': photo(0)},
                  5: {'manualSort': 3.0, 'customer': 0, 'amount': -1.0, 'photo': photo(1)}}),
      'Customers': ([('name', 'Text', False, ''), ('vip', 'Bool', False, ''),
                     ('gristHelper_ConditionalRule', 'Any', True, '$vip and len($name) > 2'),
                     ('total', 'Numeric', True,
                      'sum(r.amount for r in Orders.lookupRecords(customer=$id))')],
                    {1: {'name': 'Ann', 'vip': True, 'gristHelper_ConditionalRule': True,
                         'total': 10.5},
                     2: {'name': u'Böb', 'vip': False, 'gristHelper_ConditionalRule': False,
                         'total': 0.0}}),
  }
  acl_resource_table = 'Orders'
  if flavour == 'summary':
    if v < 7:
      # Old-style summary table "Summary_<Source>_<groupby colrefs>" plus the helper column in the
      # source table named after it.
      sname = 'Summary_Orders_2'
      derived = 'Derived' if v < 3 else 'Ref:Customers'
      look = ('Summary_Orders_2.lookupOrAddDerived($customer)' if v < 3 else
              'Summary_Orders_2.lookupOrAddDerived(customer=$customer)')
      tables[t_sum] = {'tableId': sname}
      cols.update({
          8: {'parentId': t_sum, 'parentPos': 8.0, 'colId': 'customer', 'type': derived,
              'label': 'customer'},
          9: {'parentId': t_sum, 'parentPos': 9.0, 'colId': 'group', 'type': 'Any',
              'isFormula': True, 'formula': 'Orders.lookupRecords(Summary_Orders_2=$id)',
              'label': 'group'},
          10: {'parentId': t_sum, 'parentPos': 10.0, 'colId': 'count', 'type': 'Int',
               'isFormula': True, 'formula': 'len($group)', 'label': 'count'},
          11: {'parentId': t_sum, 'parentPos': 11.0, 'colId': 'manualSort',
               'type': 'ManualSortPos', 'label': 'manualSort'},
          12: {'parentId': t_orders, 'parentPos': 12.0, 'colId': sname, 'type': 'Ref:' + sname,
               'isFormula': True, 'formula': look, 'label': sname},
      })
      user['Orders'][0].append((sname, 'Ref:' + sname, True, look))
      for r, cells in user['Orders'][1].items():
        cells[sname] = 1 if r == 1 else 2
      user[sname] = ([('customer', derived, False, ''),
                      ('group', 'Any', True, 'Orders.lookupRecords(Summary_Orders_2=$id)'),
                      ('count', 'Int', True, 'len($group)'),
                      ('manualSort', 'ManualSortPos', False, '')],
                     {1: {'customer': 1, 'group': None, 'count': 1, 'manualSort': 1.0},
                      2: {'customer': 2, 'group': None, 'count': 1, 'manualSort': 2.0}})
    else:
      sname = 'GristSummary_6_Orders' if v < 31 else 'Orders_summary_customer'
      tables[t_sum] = {'tableId': sname, 'summarySourceTable': t_orders,
                       'rawViewSectionRef': 5 if v >= 30 else 0}
      cols.update({
          8: {'parentId': t_sum, 'parentPos': 8.0, 'colId': 'customer', 'type': 'Ref:Customers',
              'label': 'customer', 'summarySourceCol': 2, 'visibleCol': 5},
          9: {'parentId': t_sum, 'parentPos': 9.0, 'colId': 'group', 'type': 'RefList:Orders',
              'isFormula': True, 'formula': 'table.getSummarySourceGroup(rec)', 'label': 'group'},
          10: {'parentId': t_sum, 'parentPos': 10.0, 'colId': 'count', 'type': 'Int',
               'isFormula': True, 'formula': 'len($group)', 'label': 'count'},
          13: {'parentId': t_cust, 'parentPos': 13.0, 'colId': 'orders', 'type': 'Any',
               'isFormula': True, 'label': 'orders',
               'formula': '%s.lookupOne(customer=$id).count + len(x%s)' % (sname, sname)},
      })
      user['Customers'][0].append(('orders', 'Any', True, cols[13]['formula']))
      for r, cells in user['Customers'][1].items():
        cells['orders'] = r
      user[sname] = ([('customer', 'Ref:Customers', False, ''),
                      ('group', 'RefList:Orders', True, 'table.getSummarySourceGroup(rec)'),
                      ('count', 'Int', True, 'len($group)')],
                     {1: {'customer': 1, 'group': '[1]', 'count': 1},
                      2: {'customer': 2, 'group': '[2]', 'count': 1}})
      acl_resource_table = sname
  elif flavour.startswith('name:'):
    # A plain user table whose NAME looks like an old-style summary table.
    nm = flavour[5:]
    tables[t_sum] = {'tableId': nm}
    cols[8] = {'parentId': t_sum, 'parentPos': 8.0, 'colId': 'note', 'type': 'Text',
               'label': 'note'}
    user[nm] = ([('note', 'Text', False, '')], {1: {'note': 'x'}})

  meta = {
      '_grist_DocInfo': {1: {'docId': 'doc', 'schemaVersion': v, 'timezone': 'Europe/Paris',
                             'documentSettings': '{"locale":"fr-FR"}'}},
      '_grist_Tables': tables,
      '_grist_Tables_column': cols,
      '_grist_Views': {1: {'name': 'Orders', 'type': 'raw_data'},
                       2: {'name': 'Dashboard', 'type': 'raw_data'}},
      '_grist_Views_section': {
          1: {'tableRef': t_orders, 'parentId': 1, 'parentKey': 'record', 'title': 'ORDERS',
              'filterSpec': '{"2":[1,2],"3":[10.5]}', 'options': '{"filterBar":true}',
              'sortColRefs': '[3]', 'defaultWidth': 100, 'borderWidth': 1},
          2: {'tableRef': t_cust, 'parentId': 2, 'parentKey': 'detail', 'title': '',
              'linkSrcSectionRef': 1, 'linkSrcColRef': 2, 'linkTargetColRef': 0,
              'options': '', 'defaultWidth': 100, 'borderWidth': 1},
          # raw / record-card sections (referenced from _grist_Tables where those columns exist)
          3: {'tableRef': t_orders, 'parentId': 0, 'parentKey': 'record', 'title': '',
              'defaultWidth': 100, 'borderWidth': 1},
          4: {'tableRef': t_orders, 'parentId': 0, 'parentKey': 'single', 'title': '',
              'defaultWidth': 100, 'borderWidth': 1},
      },
      '_grist_Views_section_field': {
          1: {'parentId': 1, 'parentPos': 1.0, 'colRef': 2, 'width': 100,
              'widgetOptions': '{"visibleCol":"name"}', 'filter': '{"included":[1]}',
              'visibleCol': 5},
          2: {'parentId': 1, 'parentPos': 2.0, 'colRef': 3, 'width': 80, 'filter': ''},
          3: {'parentId': 2, 'parentPos': 3.0, 'colRef': 5, 'width': 80,
              'filter': '{"excluded":["Ann"]}'},
          4: {'parentId': 3, 'parentPos': 4.0, 'colRef': 3, 'width': 80},
      },
      '_grist_TabItems': {1: {'tableRef': t_orders, 'viewRef': 1}},
      '_grist_TabBar': {1: {'viewRef': 1, 'tabPos': 1.0}, 2: {'viewRef': 2, 'tabPos': 2.0}},
      '_grist_TableViews': {1: {'tableRef': t_cust, 'viewRef': 2}},
      '_grist_Pages': {1: {'viewRef': 1, 'pagePos': 1.0, 'indentation': 0},
                       2: {'viewRef': 2, 'pagePos': 2.0, 'indentation': 1}},
      '_grist_Attachments': {1: {'fileIdent': 'abc.png', 'fileName': 'a.png', 'fileType': 'image/png',
                                 'fileSize': 10, 'timeUploaded': 1600000000.0},
                             3: {'fileIdent': 'def.png', 'fileName': 'd.png'}},
      '_grist_Validations': {1: {'formula': '$amount >= 0', 'name': 'positive', 'tableRef': 1}},
      '_grist_ACLPrincipals': {1: {'type': 'group', 'groupName': 'Owners'},
                               2: {'type': 'group', 'groupName': 'Admins'},
                               3: {'type': 'group', 'groupName': 'Editors'},
                               4: {'type': 'group', 'groupName': 'Viewers'}},
      '_grist_ACLResources': {1: {'tableId': '', 'colIds': ''},
                              2: {'tableId': acl_resource_table, 'colIds': '*'}},
      '_grist_ACLRules': {
          1: {'resource': 1, 'permissions': 0x3F, 'principals': '[1]'},
          2: {'resource': 2, 'aclFormula': '# owners only\nuser.Access == OWNER',
              'aclFormulaParsed': GOOD_ACL_PARSED, 'permissionsText': '+R', 'rulePos': 1.0},
      },
      '_grist_Filters': {1: {'viewSectionRef': 1, 'colRef': 2, 'filter': '{"included":[1]}',
                             'pinned': True},
                         2: {'viewSectionRef': 3, 'colRef': 3, 'filter': '{"excluded":[0]}'}},
      '_grist_Triggers': {1: {'tableRef': t_orders, 'eventTypes': '["add"]', 'isReadyColRef': 0,
                              'actions': '[]', 'enabled': True, 'label': 'hook'}},
      '_grist_Cells': {1: {'tableRef': t_orders, 'colRef': 3, 'rowId': 1, 'root': True, 'parentId': 0,
                           'type': 1, 'content': GOOD_COMMENT, 'userRef': 'u1'},
                       2: {'tableRef': t_orders, 'colRef': 3, 'rowId': 1, 'root': False,
                           'parentId': 1, 'type': 1, 'content': '{"text":"reply"}', 'userRef': 'u2'}},
      '_grist_Shares': {1: {'linkId': 'x', 'options': '{}', 'label': 'share'}},
  }
  if t_sum in tables and 'rawViewSectionRef' in tables[t_sum] and tables[t_sum]['rawViewSectionRef']:
    meta['_grist_Views_section'][5] = {'tableRef': t_sum, 'parentId': 0, 'parentKey': 'record',
                                       'title': '', 'defaultWidth': 100, 'borderWidth': 1}
  return meta, user


def build_doc(v, flavour, deviations=()):
  """
  Returns all_tables as plain data {table_id: (row_ids, {col: [values]})}, metadata first, for the
  version-v document of the given flavour with the given deviations [(table, row, col, value)].
  A metadata table or column the version does not have is dropped.
  """
  sch = schema_at(v)
  meta, user = world(v, flavour)
  for (t, r, c, val) in deviations:
    if t in meta and r in meta[t]:
      meta[t][r][c] = val
  doc = {}
  for tid, cols in sch.items():
    rows = meta.get(tid, {})
    # Drop rows whose references need a table that does not exist yet: keep it simple and keep
    # all rows; a reference column that does not exist at v is dropped with the column.
    rids = sorted(rows)
    doc[tid] = (rids, {c: [rows[r].get(c, py_default(info['type'])) for r in rids]
                       for c, info in cols.items()})
  for tid, (cols, rows) in user.items():
    rids = sorted(rows)
    doc[tid] = (rids, {c[0]: [rows[r].get(c[0], py_default(c[1])) for r in rids] for c in cols})
  return doc


def doc_to_all_tables(doc, only_meta=False):
  out = {}
  for tid, (rids, cols) in doc.items():
    if only_meta and not tid.startswith('_grist_'):
      continue
    out[tid] = actions.TableData(tid, list(rids), {c: [decode(x) for x in vals]
                                                   for c, vals in cols.items()})
  return out


def decode(x):
  """World values are written in encoded form (['L', ...] for lists); the sandbox decodes them."""
  if isinstance(x, list) and x[:1] == ['L']:
    return list(x[1:])
  return copy.deepcopy(x)


def load_interp(v, doc, user_schema):
  it = Interp()
  sch = schema_at(v)
  for tid, cols in sch.items():
    it.apply(['AddTable', tid, [dict(info, id=c) for c, info in cols.items()]])
  for tid, cols in user_schema.items():
    it.apply(['AddTable', tid, [{'id': c, 'type': ty, 'isFormula': isf, 'formula': f}
                                for (c, ty, isf, f) in cols]])
  for tid, (rids, cols) in doc.items():
    if rids:
      it.apply(['BulkAddRecord', tid, list(rids), copy.deepcopy(cols)])
  return it


# ----------------------------------------------------------------------------------------------
# One case
# ----------------------------------------------------------------------------------------------

ORDINARY = ('Orders', 'Customers')


def migration_in_traceback(tb):
  """Number of the migration function the exception passed through (0: create_migrations itself)."""
  n = 0
  for fs in traceback.extract_tb(tb):
    if fs.name.startswith('migration') and fs.name[9:].isdigit():
      n = int(fs.name[9:])
  return n


def expected_user_cells(v, doc, user):
  """{table: {row: {col: normalised value}}} the ordinary user tables must show afterwards."""
  out = {}
  for tid in ORDINARY:
    cols, _rows = user[tid]
    rids, data = doc[tid]
    exp = {}
    for i, r in enumerate(rids):
      row = {}
      for (c, ty, _isf, _f) in cols:
        val = data[c][i]
        if ty == 'Image':
          # migration 17: "Convert Image columns to Attachments columns": a positive attachment
          # id becomes a one-element list, anything else the empty list.
          val = ['L', val] if isinstance(val, int) and not isinstance(val, bool) and val > 0 else ['L']
        row[c] = H.norm(val)
      exp[r] = row
    out[tid] = exp
  return out


def evaluate(v, flavour, deviations=(), want_actions=False):
  """Returns list of (key_suffix, message); key_suffix is appended to 'C25/'."""
  # pylint: disable=too-many-locals,too-many-branches,too-many-statements,too-many-return-statements
  doc = build_doc(v, flavour, deviations)
  _meta, user = world(v, flavour)
  bad = []
  try:
    acts = migrations.create_migrations(doc_to_all_tables(doc))
  except Exception as e:   # pylint: disable=broad-except
    n = migration_in_traceback(sys.exc_info()[2])
    last = traceback.extract_tb(sys.exc_info()[2])[-1]
    return [('raised', n, type(e).__name__,
             'create_migrations raised %s in %s (%s:%s `%s`)' % (
                 H.exc_text(e), 'migration%d' % n if n else 'create_migrations',
                 last.filename.split('/')[-1], last.lineno, last.line))]
  reprs = [actions.get_action_repr(a) for a in acts]
  if want_actions:
    return reprs

  # A current (or newer) document: exactly the schemaVersion update.
  cur = schema.SCHEMA_VERSION
  if v >= cur:
    want = [['UpdateRecord', '_grist_DocInfo', 1, {'schemaVersion': cur}]]
    if reprs != want:
      bad.append(('current-doc-not-only-version', 0, '',
                  'document at version %d: expected exactly %s, got %s' % (v, want, str(reprs)[:300])))

  # metadata_only mode: same result when no migration needs user tables, documented refusal else.
  try:
    acts2 = migrations.create_migrations(doc_to_all_tables(doc, only_meta=True), metadata_only=True)
    reprs2 = [actions.get_action_repr(a) for a in acts2]
    if v < 17:
      bad.append(('metadata-only-not-refused', 17, '',
                  'metadata_only=True from version %d did not ask for all tables although '
                  'migration 17 needs them' % v))
    elif H.norm(reprs2) != H.norm(reprs):
      bad.append(('metadata-only-differs', 0, '',
                  'metadata_only=True gives different actions than the full run'))
  except Exception as e:   # pylint: disable=broad-except
    if not (v < 17 and 'need all tables' in str(e)):
      bad.append(('metadata-only-raised', migration_in_traceback(sys.exc_info()[2]),
                  type(e).__name__, 'metadata_only=True run raised %s' % H.exc_text(e)))

  # Apply the way Node would.
  it = load_interp(v, doc, {t: c for t, (c, _r) in user.items()})
  for i, a in enumerate(reprs):
    try:
      it.apply(copy.deepcopy(a))
    except InterpError as e:
      if a[0] in ('UpdateRecord', 'BulkUpdateRecord') and ': no row ' in str(e):
        # SQLite would silently update nothing; the migration's intent is lost.  Go on.
        bad.append(('update-of-missing-row', 0, str(a[1]),
                    'returned action #%d %s updates a row that does not exist in the version-%d '
                    'document as migrated so far (%s); Node applies it as a silent no-op' % (
                        i, str(a)[:200], v, e)))
        continue
      bad.append(('actions-do-not-apply', 0, a[0],
                  'returned action #%d %s does not apply to the version-%d document: %s' % (
                      i, str(a)[:200], v, e)))
      return bad

  # Schema reached
  target = target_schema()
  got = {t: c for t, c in it.infos.items() if t.startswith('_grist_')}
  for t in sorted(set(target) | set(got)):
    if t not in got:
      bad.append(('schema-differs', 0, t, 'metadata table %s missing after migration' % t))
    elif t not in target:
      bad.append(('schema-differs', 0, t, 'metadata table %s is not in the current schema' % t))
    else:
      for c in sorted(set(target[t]) | set(got[t])):
        if got[t].get(c) != target[t].get(c):
          bad.append(('schema-differs', 0, '%s.%s' % (t, c),
                      'column %s.%s is %s after migration, current schema says %s' % (
                          t, c, got[t].get(c), target[t].get(c))))
  # ... and the data the interpreter holds has exactly those columns
  for t in sorted(set(target) & set(it.tables)):
    if set(it.tables[t]['cols']) != set(target[t]):
      bad.append(('schema-differs', 0, t, 'data columns of %s differ from the schema' % t))

  # schemaVersion
  ver = it.tables['_grist_DocInfo']['rows'].get(1, {}).get('schemaVersion')
  if ver != cur:
    bad.append(('schema-version', 0, '', 'schemaVersion is %r after migration, want %d' % (ver, cur)))

  # Ordinary user tables untouched
  exp = expected_user_cells(v, doc, user)
  for tid, rows in exp.items():
    if tid not in it.tables:
      bad.append(('user-table-touched', 0, 'table-gone', 'user table %s disappeared' % tid))
      continue
    now = it.tables[tid]['rows']
    if set(now) != set(rows):
      bad.append(('user-table-touched', 0, 'rows', 'user table %s rows %s -> %s' % (
          tid, sorted(rows), sorted(now))))
      continue
    for r, row in rows.items():
      for c, val in row.items():
        if c not in now[r]:
          if not c.startswith('Summary_'):     # migration 7 drops the old summary helper column
            bad.append(('user-table-touched', 0, 'column-gone',
                        'user column %s.%s disappeared' % (tid, c)))
        elif now[r][c] != val:
          bad.append(('user-table-touched', 0, 'cell',
                      'user cell %s[%s].%s changed from %r to %r' % (tid, r, c, val, now[r][c])))
  if not deviations and flavour in ('plain', 'summary'):
    bad.extend(data_checks(v, it))
  return bad


def data_checks(v, it):
  """A few documented data conversions, checked on the default world only (valid payloads)."""
  bad = []
  rows = lambda t: it.tables[t]['rows']
  if 33 <= v < 45:
    c1 = rows('_grist_Cells').get(1, {})
    got = (c1.get('timeCreated'), c1.get('timeUpdated'), c1.get('resolved'))
    # migration 45: "Move timeCreated, timeUpdated, and resolved fields from JSON content to
    # separate columns", "Convert milliseconds to seconds"
    if got != (1700000000, 1700000001, {'b': True}):
      bad.append(('data', 45, 'cells-times', 'comment 1 has (timeCreated, timeUpdated, resolved) = '
                  '%r, want (1700000000, 1700000001, True)' % (got,)))
    try:
      content = json.loads(c1.get('content'))
    except (TypeError, ValueError):
      content = None
    if content != {'text': 'hi'}:
      bad.append(('data', 45, 'cells-content', 'comment 1 content is %r, want {"text":"hi"}' % (
          c1.get('content'),)))
    c2 = rows('_grist_Cells').get(2, {})
    if (c2.get('timeCreated'), c2.get('resolved'), c2.get('content')) != (0, {'b': False},
                                                                        '{"text":"reply"}'):
      bad.append(('data', 45, 'cells-untimed', 'comment 2 (no times in content) became %r' % (c2,)))
  if 21 <= v < 35:
    memo = rows('_grist_ACLRules').get(2, {}).get('memo')
    if memo != 'owners only':     # migration 35: memo populated from the parsed Comment node
      bad.append(('data', 35, 'acl-memo', 'ACL rule 2 memo is %r, want "owners only"' % (memo,)))
  if 25 <= v < 34:
    # migration 34: pinned "for filters that either belong to a section where the filter bar is
    # toggled or a raw view section"; section 1 has filterBar, section 3 is Orders' raw section.
    want = {1: {'b': True}, 2: {'b': bool(v >= 26)}}
    got = {r: row.get('pinned') for r, row in rows('_grist_Filters').items()}
    if got != want:
      bad.append(('data', 34, 'filters-pinned', 'filters pinned %r, want %r' % (got, want)))
  if v < 18:
    tz = rows('_grist_DocInfo')[1].get('timezone')
    if tz != 'America/New_York':  # migration 18: "all documents prior to this ... New York"
      bad.append(('data', 18, 'timezone', 'timezone is %r' % (tz,)))
  return bad


# ----------------------------------------------------------------------------------------------
# Deviations
# ----------------------------------------------------------------------------------------------

LONG = 'x' * 300

# (kind, text): kind is the coarse shape used in finding keys.
JSON_VALUES = [
  ('empty', ''), ('json-object', '{}'), ('json-object', '{"a":1}'),
  ('json-array', '[]'), ('json-array', '[1]'), ('json-array', '["Eq"]'), ('json-array', '[[]]'),
  ('json-scalar', '"str"'), ('json-scalar', '5'), ('json-scalar', 'null'), ('json-scalar', 'true'),
  ('json-scalar', '1.5'), ('json-scalar', 'NaN'), ('json-scalar', '0'),
  ('invalid-json', '{not json'), ('invalid-json', LONG), ('invalid-json', u'☃ "'),
  ('json-object', '{"k":"%s"}' % LONG),
  ('obj-time-not-number', '{"timeCreated":"x"}'), ('obj-time-not-number', '{"timeUpdated":[1]}'),
  ('obj-time-not-number', '{"timeCreated":{}}'),
  ('obj-time-null', '{"timeCreated":null,"timeUpdated":null,"resolved":null}'),
  ('obj-time-odd-number', '{"timeCreated":1.5e12,"timeUpdated":true,"resolved":"no"}'),
  ('obj-time-huge', '{"timeCreated":1e400}'),
  ('obj-visibleCol-name', '{"visibleCol":"name"}'), ('obj-visibleCol-id', '{"visibleCol":"id"}'),
  ('obj-visibleCol-missing', '{"visibleCol":"nope"}'),
  ('obj-visibleCol-number', '{"visibleCol":5}'),
  ('obj-visibleCol-unhashable', '{"visibleCol":["name"]}'),
  ('obj-visibleCol-unhashable', '{"visibleCol":{"a":1}}'),
  ('obj-filterBar', '{"filterBar":"yes"}'), ('obj-filterBar', '{"filterBar":false}'),
  ('comment-node-short', '["Comment"]'), ('comment-node-short', '["Comment",["Const",1]]'),
  ('comment-node-odd-memo', '["Comment",null,5]'),
  ('colref-in-string', '"2"'), ('colref-in-string', '"a2b"'), ('colref-in-array', '["2","3"]'),
  ('obj-colref-null', '{"2":null}'), ('obj-colref-nested', '{"2":{"included":[[1]]}}'),
  ('reflist-dangling', '[99]'), ('reflist-other-table', '[3]'), ('reflist-nested', '[[7]]'),
  ('reflist-strings', '["7"]'), ('reflist-zero', '[0]'),
]

FORMULA_VALUES = [
  ('empty', ''), ('derived-call', 'Summary_Orders_2.lookupOrAddDerived($customer, $amount)'),
  ('derived-call', 'X.lookupOrAddDerived()'), ('derived-call', 'X.lookupOrAddDerived($a.b, 1)'),
  ('derived-call', 'lookupOrAddDerived('), ('summary-name', 'GristSummary_6_Orders.lookupOne()'),
  ('summary-name', 'xGristSummary_6_Orders + GristSummary_'), ('summary-name', 'GristSummary_6_Orders' * 30),
  ('text', u'"☃" + \\'), ('text', LONG),
]

NAME_VALUES = [
  ('empty', ''), ('text', 'Orders'), ('text', 'Customers'), ('text', u'Caf\xe9 ☃'),
  ('text', LONG), ('summary-like', 'Summary_Orders_2'), ('summary-like', 'GristSummary_6_Orders'),
]

JSON_CELLS = [
  ('_grist_Tables_column', 2, 'widgetOptions'), ('_grist_Tables_column', 6, 'widgetOptions'),
  ('_grist_Tables_column', 6, 'rules'), ('_grist_Views_section_field', 1, 'widgetOptions'),
  ('_grist_Views_section_field', 1, 'filter'), ('_grist_Views_section', 1, 'filterSpec'),
  ('_grist_Views_section', 1, 'options'), ('_grist_ACLRules', 2, 'aclFormulaParsed'),
  ('_grist_Cells', 1, 'content'), ('_grist_DocInfo', 1, 'documentSettings'),
]
FORMULA_CELLS = [('_grist_Tables_column', 14, 'formula'), ('_grist_ACLRules', 2, 'aclFormula')]
NAME_CELLS = [('_grist_Views', 1, 'name'), ('_grist_ACLResources', 2, 'tableId'),
              ('_grist_Views_section', 1, 'title')]

# Tables whose NAME looks like an old-style summary table "Summary_<Source>_<colrefs>".
NAME_FLAVOURS = ['name:Summary_Orders', 'name:Summary_Orders_99', 'name:Summary_Orders_2_3',
                 'name:Summary_Nope_2', 'name:Summary_Orders_', 'name:Summary_Customers_5',
                 'name:GristSummary_6_Orders', 'name:Orders_summary']

# Reduced value set for pairs (thorough)
PAIR_KINDS = ('empty', 'json-array', 'json-scalar', 'invalid-json', 'json-object')


def single_deviations():
  out = []
  for cells, values in ((JSON_CELLS, JSON_VALUES), (FORMULA_CELLS, FORMULA_VALUES),
                        (NAME_CELLS, NAME_VALUES)):
    for (t, r, c) in cells:
      for (kind, text) in values:
        out.append((t, r, c, kind, text))
  return out


def pair_deviations():
  seen = set()
  singles = []
  for (t, r, c) in JSON_CELLS:
    for (kind, text) in JSON_VALUES:
      if kind in PAIR_KINDS and (t, r, c, kind) not in seen:
        seen.add((t, r, c, kind))         # first value of each kind
        singles.append((t, r, c, kind, text))
  return [(a, b) for a, b in itertools.combinations(singles, 2) if a[:3] != b[:3]]


def applicable(v, dev):
  """The deviated column exists at version v (else the document would be the default one)."""
  sch = schema_at(v)
  return dev[0] in sch and dev[2] in sch[dev[0]]


def all_cases(tier):
  """Yields (v, flavour, devs) with devs a tuple of (table, row, col, kind, text)."""
  top = schema.SCHEMA_VERSION + 1      # one version newer than current: only the version update
  for v in range(0, top + 1):
    for fl in ['plain', 'summary'] + NAME_FLAVOURS:
      yield (v, fl, ())
  singles = single_deviations()
  for v in range(0, top + 1):
    for d in singles:
      if applicable(v, d):
        yield (v, 'summary', (d,))
  if tier == 'thorough':
    pairs = pair_deviations()
    for v in range(0, top + 1):
      for (a, b) in pairs:
        if applicable(v, a) and applicable(v, b):
          yield (v, 'summary', (a, b))


# Top-level JSON type each parsed text cell is documented to hold.
EXPECTED_TOP = {'widgetOptions': 'object', 'options': 'object', 'filterSpec': 'object',
                'filter': 'object', 'content': 'object', 'documentSettings': 'object',
                'rules': 'array', 'aclFormulaParsed': 'array'}


def dev_label(d, exc_name):
  """Root-cause label of a deviation: the cell's column and how its text departs from the
  documented shape (wrong top-level JSON type, or right type with contents the code chokes on)."""
  col, text = d[2], d[4]
  if col not in EXPECTED_TOP:
    return '%s/%s-%s' % (col, d[3], exc_name)
  try:
    val = json.loads(text)
    top = 'object' if isinstance(val, dict) else 'array' if isinstance(val, list) else 'scalar'
  except ValueError:
    top = 'invalid-json'
  if top != EXPECTED_TOP[col]:
    return '%s/not-an-%s' % (col, EXPECTED_TOP[col])
  return '%s/%s-%s' % (col, top, exc_name)


_BASELINE = {}


def baseline_raises(v, flavour):
  """Migration number in which the undeviated world of that flavour already raises (or None)."""
  k = (v, flavour)
  if k not in _BASELINE:
    res = evaluate(v, flavour, [])
    _BASELINE[k] = next((x[1] for x in res if x[0] == 'raised'), None)
  return _BASELINE[k]


def judge(v, flavour, devs):
  """Returns list of (key, message) for one case."""
  plain_devs = [(t, r, c, text) for (t, r, c, _k, text) in devs]
  res = evaluate(v, flavour, plain_devs)
  out = []
  for (kind, mig, detail, msg) in res:
    if kind == 'raised':
      # Attribute the exception to the smallest world that shows it: the default world, a
      # summary-like table name, one deviation, a pair of deviations.
      if devs and baseline_raises(v, flavour) == mig:
        continue
      if not devs and flavour.startswith('name:') and baseline_raises(v, 'plain') == mig:
        continue
      if len(devs) == 2:
        solo = []
        for d in devs:
          r1 = evaluate(v, flavour, [(d[0], d[1], d[2], d[4])])
          solo.append(any(x[0] == 'raised' and x[1] == mig for x in r1))
        if any(solo):
          continue
      what = '+'.join(dev_label(d, detail) for d in devs) or (
          'table-named-' + flavour[5:] if flavour.startswith('name:') else 'default-world')
      key = 'C25/m%02d-raised/%s' % (mig, what)
    elif kind == 'data':
      key = 'C25/data-m%02d/%s' % (mig, detail)
    else:
      key = 'C25/%s/%s' % (kind, detail) if detail else 'C25/%s' % kind
    out.append((key, msg))
  return out


def case_repr(v, flavour, devs):
  return {'version': v, 'flavour': flavour,
          'deviations': [{'table': d[0], 'row': d[1], 'col': d[2], 'kind': d[3], 'text': d[4]}
                         for d in devs]}


def worker(chunk):
  E = Enum(PartReport('C25'), rule='')
  for (v, fl, devs) in chunk:
    ckey = '%d|%s|%s' % (v, fl, '|'.join('%s[%s].%s=%s' % (d[0], d[1], d[2], d[4][:40]) for d in devs))
    E.count(ckey, nontrivial=(v < schema.SCHEMA_VERSION),
            sample=case_repr(v, fl, devs) if devs and v in (0, 14, 33) else None)
    for (key, msg) in judge(v, fl, devs):
      E.fail(key, '[from version %d, %s world%s] %s' % (
          v, fl, ''.join('; %s[%s].%s = %r' % (d[0], d[1], d[2], d[4][:60]) for d in devs), msg),
             case=case_repr(v, fl, devs))
  return part_of(E)


def run(tier, report):
  cases = list(all_cases(tier))
  E = Enum(report, rule=(
      'starting version 0..%d x {plain, summary-table, %d summary-like table names} default worlds '
      '(2-3 user tables, 8-14 columns incl. Ref/Image/rule/summary columns, 2 views, 4-5 sections, '
      '4 fields, filters, ACL rules, trigger, 2 cell comments, pages, attachments) + every single '
      'deviation of %d JSON text cells x %d texts, %d formula cells x %d texts, %d name cells x %d '
      'texts (summary world; only versions where the column exists)%s; version-v schema = re-stated '
      'v0 schema migrated on an empty document; non-trivial = starting version below current; oracle: '
      'create_migrations returns, actions apply on an independent interpreter, schema == '
      'schema_create_actions(), schemaVersion current, ordinary user cells untouched (Image '
      'conversion expected), current doc gets only the version update, metadata_only agrees, a few '
      'documented data conversions on the default worlds' % (
          schema.SCHEMA_VERSION + 1, len(NAME_FLAVOURS), len(JSON_CELLS), len(JSON_VALUES),
          len(FORMULA_CELLS), len(FORMULA_VALUES), len(NAME_CELLS), len(NAME_VALUES),
          ' + all pairs of deviations of distinct JSON cells over the first text of each kind in %s'
          % (PAIR_KINDS,) if tier == 'thorough' else '')))
  nchunks = 64 if tier == 'quick' else 512
  chunks = [cases[i::nchunks] for i in range(nchunks)]
  for part in pmap(worker, [c for c in chunks if c]):
    E.merge(part)
  E.finish(exhaustive=True)
  report.assumptions.append('metadata is referentially consistent; RefList/ChoiceList cells reach '
                            'migrations as the JSON text SQLite holds (as migration 29 documents); '
                            'Text cells never hold None')
  report.assumptions.append('the version-v schema is what the migration chain itself produces on an '
                            'empty version-0 document')


def replay(viol):
  c = viol['case']
  devs = tuple((d['table'], d['row'], d['col'], d['kind'], d['text']) for d in c['deviations'])
  res = judge(c['version'], c['flavour'], devs)
  for (key, msg) in res:
    print('%s: %s' % (key, msg))
  if any(k == viol['key'] for k, _m in res):
    print("VIOLATION property=C25 replay=(this file) reproduced")
    return 1
  return 0
