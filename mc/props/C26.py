"""C26 Temporary row ids resolve consistently within a bundle (exhaustive enumeration).

Bundles of up to three record actions on two tables A and B that reference each other (Ref and
RefList columns), mixing adds with temporary (negative) ids, updates / removals addressed by
temporary ids and reference values holding temporary ids -- including ids that were never
created, are created later, are re-used, or whose row was removed.  The resulting tables are
compared with a reference interpretation; bundles that must fail have to leave no trace.
"""
import copy
import itertools
import json

from mc import harness as H
from mc.enumprop import Enum, PartReport, part_of, pmap

LEVEL = 'exploration'
TABLES = ('A', 'B')
OTHER = {'A': 'B', 'B': 'A'}

STATES = {
    'empty': [],
    'one-each': [["AddRecord", "A", None, {"v": "a1"}],
                 ["AddRecord", "B", None, {"v": "b1", "ref": 1}],
                 ["UpdateRecord", "A", 1, {"ref": 1, "refs": ["L", 1]}]],
}
# 'two-way': A.ref and B.back are linked as reverses of each other (AddReverseColumn), so an
# update addressed by a temporary id must also reach the row on the other side under its real id.
STATES['two-way'] = [["AddRecord", "A", None, {"v": "a1"}],
                     ["BulkAddRecord", "B", [None, None], {"v": ["b1", "b2"]}],
                     ["AddReverseColumn", "A", "ref"],
                     'rename-back',
                     ["UpdateRecord", "A", 1, {"ref": 1}]]
STATE_ORDER = ['empty', 'one-each', 'two-way']
_SNAPS = {}


def base_snap(state):
  if state not in _SNAPS:
    doc = H.Doc.new()
    doc.apply([["AddTable", "A", [{"id": "v", "type": "Text"}]]])
    doc.apply([["AddTable", "B", [{"id": "v", "type": "Text"}]]])
    for t in TABLES:
      doc.apply([["AddColumn", t, "ref", {"type": "Ref:" + OTHER[t], "isFormula": False}],
                 ["AddColumn", t, "refs", {"type": "RefList:" + OTHER[t], "isFormula": False}]])
    doc.apply([["AddTable", "Z", [{"id": "v", "type": "Text"}]]])
    doc.apply([["AddRecord", "Z", None, {"v": "z"}]])
    for ua in STATES[state]:
      if ua == 'rename-back':
        rev = doc.eng.docmodel.columns.lookupOne(tableId='A', colId='ref').reverseCol.colId
        ua = ["RenameColumn", "B", rev, "back"]
      doc.apply([ua])
    _SNAPS[state] = doc.snapshot()
  return _SNAPS[state]


# ----------------------------------------------------------------------------------------------
# Abstract actions -> user actions
# ----------------------------------------------------------------------------------------------
# ('add', T, id, vals) | ('bulk', T, [ids], {col: [values]}) | ('upd', T, id, vals) | ('rem', T, id)
# vals: {'ref': int} / {'refs': [ints]} / {'v': text}

def enc_val(col, x):
  return ['L'] + list(x) if col == 'refs' else x


def to_user_action(idx, a):
  kind, t = a[0], a[1]
  if kind == 'add':
    vals = {c: enc_val(c, x) for c, x in a[3].items()}
    vals['v'] = 'n%d' % idx
    return ["AddRecord", t, a[2], vals]
  if kind == 'bulk':
    vals = {c: [enc_val(c, x) for x in xs] for c, xs in a[3].items()}
    vals['v'] = ['n%d_%d' % (idx, p) for p in range(len(a[2]))]
    return ["BulkAddRecord", t, list(a[2]), vals]
  if kind == 'upd':
    return ["UpdateRecord", t, a[2], {c: enc_val(c, x) for c, x in a[3].items()}]
  return ["RemoveRecord", t, a[2]]


# ----------------------------------------------------------------------------------------------
# Reference interpretation
# ----------------------------------------------------------------------------------------------

def reference(tables0, bundle, rets, clear_absent=False):
  """
  tables0: {T: {id: {'v','ref','refs'}}}.  rets: returned values per action (None when the bundle
  failed: then ids are predicted as max+1, which only serves to know which rows exist).
  clear_absent: removing a row that is absent (but whose id is known) still clears references
  to that id, as removing an existing row does; both readings are accepted by check_case.
  Returns dict(must_fail, may_fail, why, tables, bad_ret).
  """
  tables = copy.deepcopy(tables0)
  maps = {t: {} for t in TABLES}
  out = {'must_fail': False, 'may_fail': False, 'why': [], 'bad_ret': None}
  creators = {}
  for idx, a in enumerate(bundle):
    if a[0] in ('add', 'bulk'):
      for i in (a[2] if a[0] == 'bulk' else [a[2]]):
        if i is not None and i < 0:
          creators.setdefault((a[1], i), []).append(idx)
  pending = []        # forward references: (table, row, col, position|None, target table, temp, idx)
  allocs = []         # (idx, table, temp, real)

  def resolve(target, x, idx, where):
    if x >= 0:
      return x
    cur = maps[target].get(x)
    if cur is not None:
      return cur
    if any(j > idx for j in creators.get((target, x), [])):
      out['may_fail'] = True
      out['why'].append('reference to %s%d before the action that creates it' % (target, x))
      pending.append(where + (target, x, idx))
      return ('fwd', target, x)
    out['must_fail'] = True
    out['why'].append('reference to %s%d which no action creates' % (target, x))
    return x

  def values(t, rid, vals, idx, pos=None):
    res = {}
    for c, x in vals.items():
      if pos is not None:
        x = x[pos]
      if c == 'ref':
        res[c] = resolve(OTHER[t], x, idx, (t, rid, c, None))
      elif c == 'refs':
        lst = [resolve(OTHER[t], y, idx, (t, rid, c, k)) for k, y in enumerate(x)]
        res[c] = lst or None
      else:
        res[c] = x
    return res

  def target_row(t, i):
    rid = i if i > 0 else maps[t].get(i)
    if rid is None:
      out['may_fail'] = True
      out['why'].append('%s%d addressed but never created' % (t, i))
      return None
    if rid not in tables[t]:
      out['may_fail'] = True
      out['why'].append('row %s[%d] addressed but absent' % (t, rid))
      return None
    return rid

  for idx, a in enumerate(bundle):
    kind, t = a[0], a[1]
    if kind in ('add', 'bulk'):
      ids = a[2] if kind == 'bulk' else [a[2]]
      if rets is None:
        top = max(list(tables[t]) + [0])
        real = [top + 1 + p for p in range(len(ids))]
      else:
        real = rets[idx] if kind == 'bulk' else [rets[idx]]
        if (not isinstance(real, list) or len(real) != len(ids) or len(set(map(repr, real))) != len(ids)
            or any((not isinstance(r, int)) or isinstance(r, bool) or r < 1 or r in tables[t]
                   for r in real)):
          out['bad_ret'] = "action %d returned %s for ids %s (rows then %s)" % (
              idx, json.dumps(rets[idx]), ids, sorted(tables[t]))
          return out
      for i, r in zip(ids, real):
        if i is not None and i < 0:
          maps[t][i] = r              # a re-used temporary id stands for the latest row
          allocs.append((idx, t, i, r))
      for p, r in enumerate(real):
        row = {'v': 'n%d' % idx if kind == 'add' else 'n%d_%d' % (idx, p), 'ref': 0, 'refs': None}
        row.update(values(t, r, a[3], idx, None if kind == 'add' else p))
        tables[t][r] = row
    elif kind == 'upd':
      rid = target_row(t, a[2])
      new = values(t, rid, a[3], idx)      # resolved (and judged) even if the row is absent
      if rid is not None:
        tables[t][rid].update(new)
    else:
      rid = target_row(t, a[2])
      if rid is None and clear_absent:
        rid = a[2] if a[2] > 0 else maps[t].get(a[2])
      if rid is not None:
        tables[t].pop(rid, None)
        for row in tables[OTHER[t]].values():
          if row['ref'] == rid:
            row['ref'] = 0
          if row['refs'] and rid in row['refs']:
            row['refs'] = [x for x in row['refs'] if x != rid] or None

  # Forward references (only reachable if the engine accepted them): the first later creation.
  for (t, rid, c, k, target, temp, idx) in pending:
    later = [r for (j, tt, i, r) in allocs if tt == target and i == temp and j > idx]
    row = tables[t].get(rid)
    if row is None or not later:
      continue
    if c == 'ref' and isinstance(row['ref'], tuple):
      row['ref'] = later[0]
    elif c == 'refs' and row['refs'] and isinstance(row['refs'][k], tuple):
      row['refs'][k] = later[0]
  out['tables'] = tables
  return out


def extract(dump):
  res = {}
  for t in TABLES:
    res[t] = {}
    for r, row in dump[t]['rows'].items():
      refs = row['refs']
      if isinstance(refs, list) and refs and refs[0] == 'L':
        refs = refs[1:]
      res[t][r] = {'v': row['v'], 'ref': row['ref'], 'refs': refs}
      if 'back' in row:
        back = row['back']
        res[t][r]['back'] = sorted(back[1:]) if isinstance(back, list) and back[:1] == ['L'] else back
  return res


def with_back(tables):
  """Reference for the linked pair: B[b].back holds exactly the A rows whose ref is b."""
  for b, row in tables['B'].items():
    if 'back' in row or any('back' in r for r in tables['B'].values()):
      row['back'] = sorted(a for a, ra in tables['A'].items() if ra['ref'] == b) or None
  return tables


def strip(dump):
  return {t: d for t, d in dump.items() if t not in TABLES}


def check_case(case):
  doc = H.Doc.load(base_snap(case['state']))
  bundle = [tuple(a) for a in case['bundle']]
  uas = [to_user_action(i, a) for i, a in enumerate(bundle)]
  before = doc.dump()
  t0 = extract(before)
  g, exc = doc.try_apply(uas)
  after = doc.dump()
  desc = "%s on state %s" % (json.dumps(uas), case['state'])

  if exc is not None:
    ref = reference(t0, bundle, None)
    if after != before:
      return 'failed', ('C26/failed-bundle-leaves-trace',
                        "%s failed (%s) but the document changed: %s" % (
                            desc, H.exc_text(exc), H.diff_dumps(before, after)))
    g2 = doc.apply([["Calculate"]])
    if g2.stored:
      return 'failed', ('C26/failed-bundle-leaves-trace',
                        "%s failed (%s) but a following Calculate stores %s" % (
                            desc, H.exc_text(exc), H.stored_reprs(g2)[:3]))
    if ref['must_fail'] or ref['may_fail']:
      return 'failed', None
    return 'failed', ('C26/valid-bundle-rejected/' + type(exc).__name__,
                      "%s uses only temporary ids created earlier in the bundle but failed: %s" % (
                          desc, H.exc_text(exc)))

  rets = H.group_repr(g)['retValues']
  ref = reference(t0, bundle, rets)
  t1 = extract(after)
  if ref['bad_ret']:
    return 'applied', ('C26/wrong-returned-ids', "%s: %s" % (desc, ref['bad_ret']))
  if ref['must_fail']:
    neg = any(isinstance(x, int) and x < 0 for t in TABLES for row in t1[t].values()
              for x in [row['ref']] + (row['refs'] if isinstance(row['refs'], list) else []))
    return 'applied', ('C26/unknown-temp-id-accepted' + ('/stored-negative' if neg else ''),
                       "%s must be rejected (%s) but was applied; tables now %s" % (
                           desc, '; '.join(ref['why']), json.dumps(t1, sort_keys=True)))
  if case['state'] == 'two-way':
    with_back(ref['tables'])
  if t1 != ref['tables'] and t1 != with_back(reference(t0, bundle, rets, clear_absent=True)['tables']):
    diffs = []
    for t in TABLES:
      for r in sorted(set(t1[t]) | set(ref['tables'][t])):
        if t1[t].get(r) != ref['tables'][t].get(r):
          diffs.append("%s[%s]: expected %s, got %s" % (t, r, json.dumps(ref['tables'][t].get(r)),
                                                       json.dumps(t1[t].get(r))))
    kinds = sorted(set(a[0] for a in bundle))
    return 'applied', ('C26/wrong-resolution/' + '+'.join(kinds),
                       "%s returned %s: %s" % (desc, json.dumps(rets), '; '.join(diffs[:6])))
  if strip(after) != strip(before):
    return 'applied', ('C26/something-else-changed', "%s: %s" % (
        desc, H.diff_dumps(strip(before), strip(after))))
  return 'applied', None


# ----------------------------------------------------------------------------------------------
# Enumeration
# ----------------------------------------------------------------------------------------------

def alphabet(level):
  """Abstract actions per table, for level 'full' / 'mid' / 'small'."""
  out = []
  for t in TABLES:
    if level == 'full':
      add_ids = [None, -1, -2]
      add_vals = [{}, {'ref': -1}, {'ref': -2}, {'ref': -3}, {'ref': 1}, {'refs': [-1]},
                  {'refs': [-1, 1]}, {'refs': [-3]}, {'refs': [-2, -1]}]
      bulk_ids = [[-1, -2], [-1, None], [-1, -1], [None, -1]]
      bulk_vals = [{}, {'ref': [-1, -2]}, {'refs': [[-1], [-2, -1]]}]
      upd_ids = [-1, -2, 1]
      upd_vals = [{'v': 'u'}, {'ref': -1}, {'refs': [-1, 1]}, {'ref': -3}]
      rem_ids = [-1, -2, 1]
    elif level == 'mid':
      add_ids = [None, -1, -2]
      add_vals = [{}, {'ref': -1}, {'ref': -2}, {'ref': -3}, {'refs': [-1, 1]}, {'refs': [-3]}]
      bulk_ids = [[-1, -2], [-1, -1]]
      bulk_vals = [{}, {'ref': [-1, -2]}]
      upd_ids = [-1, -2, 1]
      upd_vals = [{'v': 'u'}, {'ref': -1}, {'refs': [-1, 1]}]
      rem_ids = [-1, 1]
    else:
      out.extend([('add', t, None, {}), ('add', t, -1, {}), ('add', t, -1, {'ref': -1}),
                  ('add', t, -2, {'refs': [-1, 1]}), ('add', t, -1, {'ref': -3}),
                  ('bulk', t, [-1, -2], {'ref': [-1, -2]}), ('bulk', t, [-1, -1], {}),
                  ('upd', t, -1, {'v': 'u'}), ('upd', t, -1, {'ref': -1}),
                  ('upd', t, 1, {'refs': [-1, 1]}), ('upd', t, -2, {'v': 'u'}),
                  ('rem', t, -1), ('rem', t, 1)])
      continue
    for i in add_ids:
      for v in add_vals:
        out.append(('add', t, i, v))
    for i in bulk_ids:
      for v in bulk_vals:
        out.append(('bulk', t, i, v))
    for i in upd_ids:
      for v in upd_vals:
        out.append(('upd', t, i, v))
    for i in rem_ids:
      out.append(('rem', t, i))
  return out


TINY = [('add', 'A', -1, {}), ('add', 'B', None, {'ref': -1}), ('add', 'B', -1, {'refs': [-1, 1]}),
        ('upd', 'B', 1, {'refs': [-1, 1]}), ('upd', 'B', -1, {'ref': -1}), ('upd', 'A', -1, {'v': 'u'}),
        ('rem', 'A', -1), ('rem', 'B', -1), ('add', 'A', -1, {'ref': -1}), ('bulk', 'A', [-1, -2], {})]
TWOWAY = [('add', 'A', -1, {}), ('add', 'A', -1, {'ref': 2}), ('add', 'A', None, {'ref': 1}),
          ('upd', 'A', -1, {'ref': 2}), ('upd', 'A', -1, {'ref': 1}), ('upd', 'A', 1, {'ref': 2}),
          ('rem', 'A', -1), ('rem', 'A', 1), ('bulk', 'A', [-1, -2], {'ref': [1, 2]}),
          ('upd', 'A', -2, {'ref': 1})]


def bundles(level, length):
  """All bundles of exactly `length` actions; A and B are symmetric (same columns, same base
  states), so the first action is always on table A."""
  alpha = TINY if level == 'tiny' else (TWOWAY if level == 'twoway' else alphabet(level))
  first = [a for a in alpha if a[1] == 'A']
  for head in first:
    for tail in itertools.product(alpha, repeat=length - 1):
      yield [head] + list(tail)


def cases(tier):
  plan = ([('full', 1), ('mid', 2), ('tiny', 3)] if tier == 'quick'
          else [('full', 1), ('full', 2), ('small', 3)])
  for level, length in plan:
    for state in STATE_ORDER[:2]:
      for b in bundles(level, length):
        yield {'state': state, 'bundle': [list(a) for a in b]}
  # the linked pair: actions on the single-valued side only (the other side is derived)
  for length in (1, 2, 3):
    for b in bundles('twoway', length):
      yield {'state': 'two-way', 'bundle': [list(a) for a in b]}


def simplicity(case):
  return (len(case['bundle']), len(json.dumps(case['bundle'])), STATE_ORDER.index(case['state']))


def work(chunk):
  E = Enum(PartReport('C26'), rule='')
  for case in chunk:
    try:
      tag, bad = check_case(case)
    except Exception as e:   # pylint: disable=broad-except
      tag, bad = 'error', ('C26/check-error/' + type(e).__name__,
                           "case %s: %s" % (json.dumps(case), H.exc_text(e)))
    uses_temp = any(isinstance(a[2], int) and a[2] < 0 for a in case['bundle'] if a[0] in ('upd', 'rem')) \
        or 'ref' in json.dumps(case['bundle'])
    E.count(None, nontrivial=(tag == 'applied' and uses_temp),
            sample={'case': case, 'outcome': tag} if tag == 'applied' and uses_temp
            and len(case['bundle']) >= 2 else None)
    E.extra[tag] = E.extra.get(tag, 0) + 1
    if bad:
      E.fail(bad[0], bad[1], case=case)
  return part_of(E)


def run(tier, report):
  for s in STATE_ORDER:
    base_snap(s)
  n = {lv: len(alphabet(lv)) for lv in ('full', 'mid', 'small')}
  E = Enum(report, rule=(
      'tables A and B (v Text, ref Ref:<other>, refs RefList:<other>) in base states {empty, one '
      'row each referencing each other}; one bundle per case on a fresh copy; %s. Alphabets per '
      'table -- full (%d actions on both tables): AddRecord id in {None,-1,-2} x values in {none, '
      'ref -1/-2/-3/1, refs [-1]/[-1,1]/[-3]/[-2,-1]}; BulkAddRecord ids in {[-1,-2],[-1,None],'
      '[-1,-1],[None,-1]} x values {none, ref [-1,-2], refs [[-1],[-2,-1]]}; UpdateRecord id in '
      '{-1,-2,1} x {v, ref -1, refs [-1,1], ref -3}; RemoveRecord id in {-1,-2,1}; mid (%d) and '
      'small (%d) are subsets (see alphabet()). First action always on A (A/B symmetric). '
      'Oracle: reference interpretation -- a temporary id stands for the row allocated by the '
      'latest add that used it (ids taken from the returned values, checked fresh and distinct); '
      'updates/removals through it act on that row, Ref/RefList values hold its id, removing a '
      'row clears references to it; a reference value with a negative id that no action creates '
      'must make the bundle fail with dump() identical and a following Calculate storing nothing; '
      'bundles addressing a never-created / absent row, or referencing a temporary id created only '
      'later, may fail (without trace) or apply with that action as a no-op / the later row. '
      'non-trivial = bundle applied and used a temporary id or a reference value'
      % ('all 1-action bundles over the full alphabet, all 2-action bundles over the mid '
         'alphabet, all 3-action bundles over a 10-action alphabet (add by temp id, reference to '
         'it from the other table, update/removal by temp id); plus, in a third base state where '
         'A.ref and B.back are two-way linked, all bundles of <= 3 actions over 10 actions on A '
         '(B.back must hold exactly the A rows whose ref names the row)' if tier == 'quick' else
         'all bundles of 1 and 2 actions over the full alphabet and all 3-action bundles over the '
         'small alphabet', n['full'], n['mid'], n['small'])))
  all_cases = sorted(cases(tier), key=simplicity)
  chunks = [all_cases[i::64] for i in range(64)]
  parts = pmap(work, [c for c in chunks if c])
  viols = sorted((v for part in parts for v in part['violations']),
                 key=lambda v: simplicity(v['case']))
  for part in parts:
    part['violations'] = []
    E.merge(part)
  E.merge({'evaluations': 0, 'nontrivial': [], 'nontrivial_count': 0, 'samples': [],
           'violations': viols, 'extra': {}})
  E.finish(exhaustive=True)
  report.assumptions.append('a temporary id used by two adds stands for the later row afterwards '
                            '(documented in ActionSummary.update_new_rows_map)')
  report.assumptions.append('UpdateRecord/RemoveRecord addressed to a temporary id that was never '
                            'created, or to an absent row, may either fail cleanly or do nothing; '
                            'removing an absent row may also clear dangling references to its id')


def replay(viol):
  for s in STATE_ORDER:
    base_snap(s)
  tag, bad = check_case(viol['case'])
  print("outcome=%s -> %s" % (tag, bad))
  if bad:
    print("VIOLATION property=C26 replay=(this file) reproduced")
    return 1
  return 0
