"""C14 Sorted searches and PREVIOUS/NEXT/RANK agree with a linear scan (exhaustive enumeration).

Every table T(s:Any, g:Text) of <= 3 rows (quick) / <= 4 rows (thorough) with sort values from
{1, 2, None, 'a', 1.5, [5]} (sequences over the domain, so duplicates and mixed types occur) and group
values {x, y} is loaded into a fresh document that already holds

 * in T: PREVIOUS / NEXT / RANK asc / RANK desc formula columns for order_by "s", "-s", ("g", "s"),
   None, and group_by="g" with order_by "s" / "-s"  (24 columns, evaluated for every row);
 * probe table P1 (one row per probe value: every domain value plus values below / between / above
   each class): find.lt/le/gt/ge/eq through `T.lookupRecords(<filter>order_by=...)` for order_by
   "s", "-s", the same with the filter g="x", and the legacy sort_by="s"  (25 columns);
 * probe tables P2 (group probes {w, x, y, z} x value probes) and P3 (group probes): find.* on
   order_by=("g", "s") with the full pair (P2) and with the one-value prefix (P3).

Step 1 adds the rows (manualSort = row order; for <= 3 rows the probe formulas were calculated
against the empty table before, on load); step 2 (tables of >= 2 rows) reverses manualSort
with a BulkUpdateRecord in the same document, so ties must flip and the sorted lookups must follow.

Oracle: the documented order re-implemented as a key (None first, then numbers, then other types
by type name; "-" reverses that column only; ties by manualSort, then row id; sort_by= ties by row
id only); find.* = linear scan of the ordered list for the last record before / first record
after (or equal to) the probe, comparing only the given values; PREVIOUS/NEXT = positional
neighbours, RANK = 1-based position (asc) or position from the end (desc) in the ordered group.
"""
import functools
import itertools
import json

from mc import harness as H
from mc.enumprop import Enum, PartReport, part_of, pmap

LEVEL = 'exploration'
LISTV = ['L', 5]      # an encoded list: a second non-numeric type ('list' sorts before 'str')
SVALS = (1, 2, None, 'a', 1.5, LISTV)
GVALS = ('x', 'y')
SPROBES = (None, 0, 1, 1.2, 1.5, 1.7, 2, 3, 'A', 'a', 'b', LISTV)
GPROBES = ('w', 'x', 'y', 'z')
OPS = ('lt', 'le', 'gt', 'ge', 'eq')

# (suffix, group_by source, order_by source, group filter?, [(col, sign)])
REC_SPECS = (
    ('s', None, '"s"', False, (('s', 1),)),
    ('sd', None, '"-s"', False, (('s', -1),)),
    ('gs', None, '("g", "s")', False, (('g', 1), ('s', 1))),
    ('m', None, 'None', False, ()),
    ('grp', '"g"', '"s"', True, (('s', 1),)),
    ('grpd', '"g"', '"-s"', True, (('s', -1),)),
)
REC_FUNCS = (('PREV', 'PREVIOUS(%s).id'), ('NEXT', 'NEXT(%s).id'), ('RANK', 'RANK(%s)'),
             ('RANKD', 'RANK(%s, order="desc")'))
# (suffix, lookup arguments, filter on g, [(col, sign)], ties by manualSort?)
P1_SPECS = (
    ('s', 'order_by="s"', None, (('s', 1),), True),
    ('sd', 'order_by="-s"', None, (('s', -1),), True),
    ('xs', 'g="x", order_by="s"', 'x', (('s', 1),), True),
    ('xsd', 'g="x", order_by="-s"', 'x', (('s', -1),), True),
    ('legacy', 'sort_by="s"', None, (('s', 1),), False),
)
GS_SPEC = (('g', 1), ('s', 1))

_SNAP = []


def base_snap():
  if not _SNAP:
    doc = H.Doc.new()
    cols = [{"id": "s", "type": "Any", "isFormula": False}, {"id": "g", "type": "Text", "isFormula": False}]
    for suffix, gb, ob, _, _ in REC_SPECS:
      args = "rec, " + ("group_by=%s, " % gb if gb else "") + "order_by=%s" % ob
      for name, fmt in REC_FUNCS:
        cols.append({"id": "%s_%s" % (name, suffix), "type": "Any", "isFormula": True, "formula": fmt % args})
    doc.apply([["AddTable", "T", cols]])
    p1 = [{"id": "p", "type": "Any", "isFormula": False}]
    for suffix, largs, _, _, _ in P1_SPECS:
      for op in OPS:
        p1.append({"id": "%s_%s" % (op, suffix), "type": "Any", "isFormula": True,
                   "formula": "T.lookupRecords(%s).find.%s($p).id" % (largs, op)})
    doc.apply([["AddTable", "P1", p1]])
    doc.apply([["BulkAddRecord", "P1", [None] * len(SPROBES), {"p": list(SPROBES)}]])
    p2 = [{"id": "pg", "type": "Text", "isFormula": False}, {"id": "p", "type": "Any", "isFormula": False}]
    p3 = [{"id": "pg", "type": "Text", "isFormula": False}]
    for op in OPS:
      p2.append({"id": "%s_pair" % op, "type": "Any", "isFormula": True,
                 "formula": 'T.lookupRecords(order_by=("g", "s")).find.%s($pg, $p).id' % op})
      p3.append({"id": "%s_prefix" % op, "type": "Any", "isFormula": True,
                 "formula": 'T.lookupRecords(order_by=("g", "s")).find.%s($pg).id' % op})
    doc.apply([["AddTable", "P2", p2]])
    pairs = [(g, p) for g in GPROBES for p in SPROBES]
    doc.apply([["BulkAddRecord", "P2", [None] * len(pairs),
                {"pg": [g for g, _ in pairs], "p": [p for _, p in pairs]}]])
    doc.apply([["AddTable", "P3", p3]])
    doc.apply([["BulkAddRecord", "P3", [None] * len(GPROBES), {"pg": list(GPROBES)}]])
    _SNAP.append(doc.snapshot())
  return _SNAP[0]


# ----------------------------------------------------------------------------------------------
# Reference: documented order + linear scans
# ----------------------------------------------------------------------------------------------

def vkey(v):
  """None first, then numbers by value, then other types by type name (then by value)."""
  if v is None:
    return (0,)
  if isinstance(v, (int, float)):
    return (1, v)
  if isinstance(v, list):              # encoded ['L', ...] cell: a Python list in the engine
    return (2, 'list', tuple(v[1:]))
  return (2, type(v).__name__, v)


def cmp_values(a, b, spec):
  """Three-way comparison of value tuples under spec, over the values both sides have."""
  for x, y, (_, sign) in zip(a, b, spec):
    kx, ky = vkey(x), vkey(y)
    if kx != ky:
      return sign if kx > ky else -sign
  return 0


def ordered(rows, spec, by_manual_sort=True):
  """rows: list of dicts with id, manualSort, s, g.  Returns them in the documented order."""
  def cmp(r1, r2):
    c = cmp_values([r1[c] for c, _ in spec], [r2[c] for c, _ in spec], spec)
    if c:
      return c
    t1 = (r1['manualSort'], r1['id']) if by_manual_sort else (r1['id'],)
    t2 = (r2['manualSort'], r2['id']) if by_manual_sort else (r2['id'],)
    return (t1 > t2) - (t1 < t2)
  return sorted(rows, key=functools.cmp_to_key(cmp))


def scan(olist, spec, op, probe):
  """Linear scan of the ordered list; returns a row id or 0 (the empty record)."""
  rel = [(r, cmp_values([r[c] for c, _ in spec], probe, spec)) for r in olist]
  if op == 'lt':
    hits = [r for r, c in rel if c < 0][-1:]
  elif op == 'le':
    hits = [r for r, c in rel if c <= 0][-1:]
  elif op == 'gt':
    hits = [r for r, c in rel if c > 0][:1]
  elif op == 'ge':
    hits = [r for r, c in rel if c >= 0][:1]
  else:
    hits = [r for r, c in rel if c == 0][:1]
  return hits[0]['id'] if hits else 0


def expected(rows):
  """{table: {col: [values per row]}} for all formula columns."""
  exp = {'T': {}, 'P1': {}, 'P2': {}, 'P3': {}}
  for suffix, _, _, grouped, spec in REC_SPECS:
    cols = {name: [] for name, _ in REC_FUNCS}
    for r in rows:
      group = ordered([q for q in rows if not grouped or q['g'] == r['g']], spec)
      i = [q['id'] for q in group].index(r['id'])
      cols['PREV'].append(group[i - 1]['id'] if i > 0 else 0)
      cols['NEXT'].append(group[i + 1]['id'] if i + 1 < len(group) else 0)
      cols['RANK'].append(i + 1)
      cols['RANKD'].append(len(group) - i)
    for name, vals in cols.items():
      exp['T']['%s_%s' % (name, suffix)] = vals
  for suffix, _, flt, spec, by_ms in P1_SPECS:
    olist = ordered([q for q in rows if flt is None or q['g'] == flt], spec, by_ms)
    for op in OPS:
      exp['P1']['%s_%s' % (op, suffix)] = [scan(olist, spec, op, (p,)) for p in SPROBES]
  olist = ordered(rows, GS_SPEC)
  pairs = [(g, p) for g in GPROBES for p in SPROBES]
  for op in OPS:
    exp['P2']['%s_pair' % op] = [scan(olist, GS_SPEC, op, (g, p)) for g, p in pairs]
    exp['P3']['%s_prefix' % op] = [scan(olist, GS_SPEC, op, (g,)) for g in GPROBES]
  return exp


# ----------------------------------------------------------------------------------------------
# Running a case
# ----------------------------------------------------------------------------------------------

def key_of(col):
  name = col.split('_')[0]
  return {'PREV': 'PREVIOUS', 'NEXT': 'NEXT', 'RANK': 'RANK', 'RANKD': 'RANK'}.get(name, 'find.' + name)


def compare(doc, pairs, stage):
  """Returns [(key, message)] for the current document state against the reference."""
  rep = doc.fetch('T')
  rows = [{'id': rid, 'manualSort': rep[3]['manualSort'][i], 's': rep[3]['s'][i], 'g': rep[3]['g'][i]}
          for i, rid in enumerate(rep[2])]
  if [(r['s'], r['g']) for r in rows] != [tuple(p) for p in pairs]:
    return [('C14/setup', "table T holds %r, expected %r" % (rows, pairs))]
  exp = expected(rows)
  fails = []
  for tid in ('T', 'P1', 'P2', 'P3'):
    cells = probes = rep[3] if tid == 'T' else doc.fetch(tid)[3]
    for col, want in exp[tid].items():
      got = list(cells[col])
      if got != want:
        i = next(j for j, (x, y) in enumerate(zip(got, want)) if x != y)
        if tid == 'T':
          where = "row id %s" % rows[i]['id']
        elif tid == 'P1':
          where = "probe %r" % (probes['p'][i],)
        elif tid == 'P2':
          where = "probe (%r, %r)" % (probes['pg'][i], probes['p'][i])
        else:
          where = "probe (%r,)" % (probes['pg'][i],)
        formula = column_formula(tid, col)
        fails.append(('C14/%s%s' % (stage, key_of(col)),
                      "rows (id, manualSort, s, g) = %s: `%s` for %s gives %r, linear scan gives %r" % (
                          [(r['id'], r['manualSort'], r['s'], r['g']) for r in rows], formula, where,
                          got[i], want[i])))
  return fails


def column_formula(tid, col):
  name, suffix = col.split('_')
  if tid == 'T':
    _, gb, ob, _, _ = next(s for s in REC_SPECS if s[0] == suffix)
    args = "rec, " + ("group_by=%s, " % gb if gb else "") + "order_by=%s" % ob
    return dict(REC_FUNCS)[name] % args
  if tid == 'P1':
    largs = next(s for s in P1_SPECS if s[0] == suffix)[1]
    return "T.lookupRecords(%s).find.%s($p).id" % (largs, name)
  return 'T.lookupRecords(order_by=("g", "s")).find.%s(%s).id' % (name, '$pg, $p' if suffix == 'pair' else '$pg')


def run_case(pairs):
  """pairs: list of [s, g].  Returns [(key, message)]."""
  n = len(pairs)
  # Tables of <= 3 rows: the probes are first calculated against the empty T (Calculate on load), so
  # adding the rows must update them.  4-row tables (thorough tier, 90% of the cost): the first
  # calculation happens together with the addition of the rows.
  doc = H.Doc.load(base_snap(), calculate=(n <= 3))
  if n:
    doc.apply([["BulkAddRecord", "T", [None] * n, {"s": [p[0] for p in pairs], "g": [p[1] for p in pairs]}]])
  fails = compare(doc, pairs, '')
  if n >= 2:
    ids = list(doc.fetch('T')[2])
    doc.apply([["BulkUpdateRecord", "T", ids, {"manualSort": [float(n - i) for i in range(n)]}]])
    seen = set(k for k, _ in fails)
    for k, m in compare(doc, pairs, 'after-reorder/'):
      if k.replace('after-reorder/', '') not in seen:
        fails.append((k, m))
  return fails


def nontrivial(pairs):
  svals = [vkey(p[0]) for p in pairs]
  return len(pairs) >= 2 and (len(set(svals)) < len(svals) or len(set(k[0] for k in svals)) > 1)


def all_cases(tier):
  maxrows = 3 if tier == 'quick' else 4
  rowvals = [[s, g] for s in SVALS for g in GVALS]
  for n in range(0, maxrows + 1):
    for rows in itertools.product(rowvals, repeat=n):
      yield [list(r) for r in rows]


def worker(chunk):
  E = Enum(PartReport('C14'), rule='')
  base_snap()
  for pairs in chunk:
    try:
      fails = run_case(pairs)
    except Exception as e:      # pylint: disable=broad-except
      fails = [('C14/raised/' + type(e).__name__, "rows %r: %s" % (pairs, H.exc_text(e)))]
    nt = nontrivial(pairs)
    E.count(json.dumps(pairs), nontrivial=nt,
            sample={'rows': pairs} if nt and len(pairs) >= 3 and pairs[0][0] != pairs[1][0] else None)
    steps = 2 if len(pairs) >= 2 else 1
    E.extra['documents_states_checked'] = E.extra.get('documents_states_checked', 0) + steps
    cells = steps * (len(REC_SPECS) * len(REC_FUNCS) * len(pairs) + len(P1_SPECS) * len(OPS) * len(SPROBES) +
                     len(OPS) * len(GPROBES) * (len(SPROBES) + 1))
    E.extra['formula_cells_compared'] = E.extra.get('formula_cells_compared', 0) + cells
    for key, msg in fails:
      E.fail(key, msg, case={'rows': pairs})
  return part_of(E)


def run(tier, report):
  maxrows = 3 if tier == 'quick' else 4
  E = Enum(report, rule=(
      'every table of <= %d rows over sort values {1, 2, None, "a", 1.5} x group values {x, y} (row '
      'sequences, so duplicates/mixed types occur), each with manualSort in row order and then reversed '
      '(same document); per state: PREVIOUS/NEXT/RANK asc/desc for every row under order_by "s", "-s", '
      '("g","s"), None and group_by="g" with "s"/"-s"; find.lt/le/gt/ge/eq for %d value probes under '
      'order_by "s", "-s", the same filtered by g="x", and sort_by="s"; find.* for %d (group, value) '
      'probes and the 4 one-value (group) prefixes under order_by=("g","s"); non-trivial = >= 2 rows with a '
      'tie or mixed types among the sort values' % (maxrows, len(SPROBES), len(GPROBES) * len(SPROBES))))
  base_snap()
  cases = list(all_cases(tier))
  size = 20 if tier == 'quick' else 50
  chunks = [cases[i:i + size] for i in range(0, len(cases), size)]
  for part in pmap(worker, chunks):
    E.merge(part)
  E.finish(exhaustive=True)
  report.assumptions.append('column s has type Any (values stored as given), g is Text; probe values are '
                            'None, numbers and strings only, for which the documented fallback is a total order')


def replay(viol):
  pairs = viol['case']['rows']
  fails = run_case(pairs)
  print("rows=%r" % (pairs,))
  for key, msg in fails:
    print("%s: %s" % (key, msg))
  if fails:
    print("VIOLATION property=C14 replay=(this file) reproduced")
    return 1
  return 0
