"""
C06 Formula results do not depend on evaluation order.

For every (state, bundle) of the worlds up to the tier depth, and for the full recalculation of
each world's base document and of every small cyclic document (C18's generator), the bundle is
re-run once per *schedule*: a schedule deviates from the engine's default work-list order at one
call of Engine._make_sorted_work_items (quick) with every permutation of the dirty non-lookup
nodes x every permutation of the dirty lookup nodes (lookups stay first, the engine's own rule).
Thorough additionally deviates at two calls at once.  Oracle: the final dump and the multiset of
stored actions are identical for all schedules, and no schedule raises.
"""
import json
import itertools

from mc import harness as H
from mc import explore
from mc.explore import Monitor
from mc.histprop import HistProp
from mc import worlds as W
from mc import sched
from mc.enumprop import pmap
from mc.monitors import vkey

LEVEL = 'model_checking'
NAMES = ['W_rec', 'W_look', 'W_sum', 'W_2way', 'W_trig']
D = W.depths_for(NAMES, quick=1, thorough=2, overrides={'thorough': {'W_sum': 1}})
MAX_PER_BUNDLE = {'quick': 100, 'thorough': 2500}
MAX_FULL = {'quick': 4, 'thorough': 6}


class OrderJobs(Monitor):
  """Counting run under the default schedule; emits one job per deviating schedule."""
  name = 'order-jobs'

  def __init__(self, tier):
    self.tier = tier

  def check(self, ctx):
    if ctx.exc is not None:
      return
    d0 = ctx.rebuild()
    g, e, calls = sched.run_scheduled(d0, ctx.bundle)
    base = sched.observe(d0, g, e)
    base['graph'] = sched.graph_sig(d0)
    mine = sched.observe(ctx.doc, ctx.group, ctx.exc)
    mine['graph'] = sched.graph_sig(ctx.doc)
    if base != mine:
      yield (vkey('C06', 'harness/default-schedule-differs', ctx),
             "the wrapper's default order does not reproduce the engine's own run of %r: %s vs %s" % (
                 ctx.label, base, mine))
      return
    jobs = []
    capped = 0
    scheds = list(sched.single_deviation_schedules(calls, MAX_FULL[self.tier]))
    if self.tier == 'thorough':
      # pairs of deviating calls: full permutations at the first, reversal at the second
      for (i, (no, nl)), (j, (no2, nl2)) in itertools.combinations(list(enumerate(calls)), 2):
        if (no < 2 and nl < 2) or (no2 < 2 and nl2 < 2):
          continue
        pos, c1 = sched.perms_for(no, 4)
        for po in pos:
          scheds.append(({i: (po, None), j: (tuple(reversed(range(no2))), tuple(reversed(range(nl2))))},
                         c1))
    limit = MAX_PER_BUNDLE[self.tier]
    if len(scheds) > limit:
      scheds = scheds[:limit]
      capped = 1
    for (sc, cap) in scheds:
      capped = capped or (1 if cap else 0)
      jobs.append((ctx.world.name, ctx.origin, list(ctx.hist), ctx.label, ctx.bundle,
                   {str(k): v for k, v in sc.items()}, base))
    ctx.extra['order_jobs'] = jobs
    ctx.extra['bundles_with_choice'] = 1 if jobs else 0
    ctx.extra['bundles_capped'] = capped
    ctx.extra['work_list_calls'] = len(calls)


_WORLDS = {}


_DEADLINE = [None]
SCHED_BUDGET = {'quick': 900, 'thorough': 1800}


def run_chunk(jobs):
  import time
  out = {'runs': 0, 'violations': [], 'outcomes': set(), 'graph_differs': 0, 'followups': 0,
         'skipped': 0}
  for (wname, origin, hist, label, bundle, sc, base) in jobs:
    if _DEADLINE[0] and time.time() > _DEADLINE[0]:
      out['skipped'] += 1
      continue
    world = _WORLDS[wname]
    doc = _doc_for(world, origin, hist)
    schedule = {int(k): (tuple(v[0]) if v[0] is not None else None,
                         tuple(v[1]) if v[1] is not None else None) for k, v in sc.items()}
    g, e, _calls = sched.run_scheduled(doc, bundle, schedule)
    obs = sched.observe(doc, g, e)
    base = dict(base)
    base_graph = base.pop('graph', None)
    out['runs'] += 1
    out['outcomes'].add(json.dumps(obs, sort_keys=True))
    if obs == base and e is None and base_graph is not None and sched.graph_sig(doc) != base_graph:
      # same values, different dependency graph: the orders may still diverge later; chain every
      # follow-up bundle of the alphabet (default order) behind both runs and compare
      out['graph_differs'] += 1
      for bad in followups(world, origin, hist, label, bundle, schedule, sc, doc):
        out['violations'].append(bad)
      out['followups'] += 1
    if obs != base:
      kind = ('schedule-raises/' + type(e).__name__) if e is not None else (
          'values-differ' if obs.get('dump') != base.get('dump') else 'stored-actions-differ')
      hist_json = [[l, json.loads(b)] for (l, b) in hist] + [[label, json.loads(bundle)]]
      detail = ''
      if e is None and obs.get('dump') != base.get('dump'):
        ref = _doc_for(world, origin, hist)
        ref.apply(bundle)
        detail = '; '.join(H.diff_dumps(ref.dump(), doc.dump()))
      out['violations'].append({
          'key': 'C06/%s/%s/%s' % (kind, wname, __import__('mc.refmodels', fromlist=['x']).strip_numbers(label)),
          'message': "bundle %r under schedule %s: %s (default order: %s) %s" % (
              label, sc, obs, base, detail),
          'world': wname, 'origin': origin, 'history': hist_json, 'schedule': sc, 'count': 1})
  out['outcomes'] = list(out['outcomes'])
  return out


MAX_FOLLOWUPS = 40
_DEFAULT_NEXT = {}


def followups(world, origin, hist, label, bundle, schedule, sc, doc_after):
  inner = getattr(world, 'inner', world)
  nexts = inner.alphabet(doc_after)[:MAX_FOLLOWUPS]
  key = (world.name, origin, json.dumps(hist), bundle)
  if key not in _DEFAULT_NEXT:
    res = {}
    for (l2, b2) in nexts:
      b2 = b2 if isinstance(b2, str) else json.dumps(b2)
      d = _doc_for(world, origin, hist)
      d.try_apply(bundle)
      g2, e2 = d.try_apply(b2)
      res[l2] = sched.observe(d, g2, e2)
    if len(_DEFAULT_NEXT) > 16:
      _DEFAULT_NEXT.clear()
    _DEFAULT_NEXT[key] = res
  want = _DEFAULT_NEXT[key]
  for (l2, b2) in nexts:
    b2 = b2 if isinstance(b2, str) else json.dumps(b2)
    d = _doc_for(world, origin, hist)
    sched.run_scheduled(d, bundle, schedule)
    g2, e2 = d.try_apply(b2)
    got = sched.observe(d, g2, e2)
    if got != want[l2]:
      strip = __import__('mc.refmodels', fromlist=['x']).strip_numbers
      detail = ''
      if 'dump' in got and 'dump' in want[l2]:
        ref = _doc_for(world, origin, hist)
        ref.try_apply(bundle)
        ref.try_apply(b2)
        detail = '; '.join(H.diff_dumps(ref.dump(), d.dump()))
      yield {'key': 'C06/later-bundle-differs/%s/%s/%s' % (world.name, strip(label), strip(l2)),
             'message': "bundle %r under schedule %s gives the same values but a different dependency "
                        "graph; the next bundle %r (default order) then gives %s instead of %s %s" % (
                            label, sc, l2, got, want[l2], detail),
             'world': world.name, 'origin': origin,
             'history': [[l, json.loads(b)] for (l, b) in hist] + [[label, json.loads(bundle)]],
             'schedule': sc, 'followup': [l2, json.loads(b2)], 'count': 1}
      return


class WFull(explore.World):
  """
  'Full recalculation' pseudo-world around another world's base document: the only bundle is
  Calculate applied to a document loaded WITHOUT stored formula results, so every formula node is
  dirty at once (the largest work list the document can produce).
  """

  def __init__(self, inner):
    self.inner = inner
    self.name = inner.name + '/full'
    self.setup = inner.setup

  def alphabet(self, doc):
    return [("calculate all", [["Calculate"]])]

  def base(self):
    if self._base is None:
      b = self.inner.base()
      d = H.Doc.load(b['snap'])
      snap = {tid: json.dumps(d.fetch(tid, formulas=tid.startswith('_grist_'))) for tid in d.table_ids()}
      self._base = {'snap': snap, 'dump': b['dump'], 'dump_L': b['dump_L'], 'init_log': b['init_log']}
    return self._base


def _doc_for(world, origin, hist):
  if origin == 'F':
    # Load without the Calculate so that the bundle under test performs the full recalculation.
    return H.Doc.load(world.base()['snap'], calculate=False)
  return explore.build(world, origin, [b for (_l, b) in hist])[0]


def _worlds(tier):
  return W.make(NAMES if tier == 'thorough' else [n for n in NAMES if n != 'W_2way'])


P = HistProp('C06', _worlds, lambda w, t: [OrderJobs(t)], D,
             origins={'quick': ('L',), 'thorough': ('L',)},
             rule='(state, bundle) pairs up to the depth x every schedule deviating from the default '
                  'work-list order at one call of _make_sorted_work_items (all permutations of <= 4 (quick) / 6 '
                  '(thorough) dirty non-lookup nodes x all permutations of dirty lookup nodes; thorough also two '
                  'deviating calls); plus the full recalculation of every world\'s base document and '
                  'of all cyclic 2-column documents; oracle: identical dump and identical multiset of '
                  'stored actions for every schedule, no exception')


def full_recalc_jobs(tier):
  """Jobs for the full recalculation of each base document and of small cyclic documents."""
  from mc.props import C18
  jobs = []
  worlds = [WFull(w) for w in W.make(NAMES)]
  worlds += [WFull(w) for w in C18.cyclic_worlds(2 if tier == 'quick' else 3)]
  info = {'full_docs': 0, 'capped_docs': 0}
  for w in worlds:
    _WORLDS[w.name] = w
    doc = H.Doc.load(w.base()['snap'], calculate=False)
    bundle = json.dumps([["Calculate"]])
    g, e, calls = sched.run_scheduled(doc, bundle)
    base = sched.observe(doc, g, e)
    base['graph'] = sched.graph_sig(doc)
    info['full_docs'] += 1
    n = 0
    for (sc, cap) in sched.single_deviation_schedules(calls, MAX_FULL[tier]):
      if cap:
        info['capped_docs'] += 1
      jobs.append((w.name, 'F', [], 'calculate all', bundle, {str(k): v for k, v in sc.items()}, base))
      n += 1
      if n >= MAX_PER_BUNDLE[tier]:
        break
  return jobs, info


def run(tier, report):
  P.run(tier, report)
  cov = report.coverage
  jobs = cov.pop('order_jobs', [])
  for w in _worlds(tier):
    _WORLDS[w.name] = w
    w.base()
  fjobs, info = full_recalc_jobs(tier)
  jobs = jobs + fjobs
  nchunks = max(1, min(len(jobs), 16 * 8))
  chunks = [jobs[i::nchunks] for i in range(nchunks)]
  runs = 0
  outcomes = set()
  viols = []
  import time
  _DEADLINE[0] = time.time() + SCHED_BUDGET[tier]
  skipped = 0
  for part in pmap(run_chunk, chunks):
    skipped += part.get('skipped', 0)
    runs += part['runs']
    cov['graph_differs'] = cov.get('graph_differs', 0) + part['graph_differs']
    cov['followup_chains'] = cov.get('followup_chains', 0) + part['followups']
    outcomes |= set(part['outcomes'])
    viols.extend(part['violations'])
  report.merge_violations(viols)
  cov['scheduled_runs'] = runs
  cov['distinct_outcomes_over_schedules'] = len(outcomes)
  cov.update(info)
  cov['transitions'] = cov.get('transitions', 0) + runs
  cov['traces_validated_against_impl'] = runs
  if skipped:
    report.caps.append('time budget of %d s for the scheduled runs: %d of %d deviating schedules not '
                       'executed' % (SCHED_BUDGET[tier], skipped, len(jobs)))
    cov['exhaustive'] = False
    cov['scheduled_runs_skipped'] = skipped
  if cov.get('bundles_capped') or info['capped_docs']:
    report.caps.append('work lists with more than %d nodes of one class: all orders of the first %d '
                       'plus every rotation and the reversal; at most %d schedules per bundle (not '
                       'exhaustive for those bundles)' % (MAX_FULL[tier], MAX_FULL[tier], MAX_PER_BUNDLE[tier]))
    cov['exhaustive'] = False


def replay(viol):
  H.check_hashseed()
  from mc.props import C18
  for w in W.make(NAMES):
    _WORLDS[w.name] = w
    _WORLDS[w.name + '/full'] = WFull(w)
  for w in C18.cyclic_worlds(3) + C18.cyclic_worlds(2):
    _WORLDS[w.name + '/full'] = WFull(w)
  hist = [(l, json.dumps(b)) for (l, b) in viol['history']]
  world = _WORLDS[viol['world']]
  doc = _doc_for(world, viol['origin'], hist[:-1])
  g, e, calls = sched.run_scheduled(doc, hist[-1][1])
  base = sched.observe(doc, g, e)
  base['graph'] = sched.graph_sig(doc)
  job = (viol['world'], viol['origin'], hist[:-1], hist[-1][0], hist[-1][1], viol['schedule'], base)
  outs = [sorted(v['key'] for v in run_chunk([job])['violations']) for _ in range(2)]
  if outs[0] != outs[1]:
    print("HARNESS-ERROR nondeterministic replay")
    return 2
  print("keys now: %s" % outs[0])
  if viol['key'] in outs[0]:
    print("VIOLATION property=C06 replay=(this file) reproduced")
    return 1
  return 0
