"""C31 Actions are marked direct only when the user asked for them."""
from mc.histprop import HistProp
from mc import worlds as W
from mc.monitors2 import DirectFlags

LEVEL = 'model_checking'
NAMES = ['W_rec', 'W_sum', 'W_trig']
D = W.depths_for(NAMES, quick=2, thorough=3, overrides={'quick': {'W_sum': 1}, 'thorough': {'W_sum': 2}})
P = HistProp('C31', lambda t: W.make(NAMES), lambda w, t: [DirectFlags()], D,
             rule='all histories of record-edit bundles over W_rec/W_sum/W_trig (plus schema '
                  'bundles of W_sum as context); len(stored)==len(direct); a stored action that '
                  'writes only formula columns, maintains a summary table, or changes schema/'
                  'metadata while the user only edited records must be non-direct; add/remove/'
                  'update actions carrying the requested edit on the requested table must be direct')
run, replay = P.run, P.replay
