"""C38 Node and the engine agree on metadata schema and type defaults.

Degenerate space (one configuration: the current tree), decided by a complete entry-by-entry
differential:
  * app/common/schema.ts is parsed by a small independent TS-subset parser (SCHEMA_VERSION, the
    `schema` object literal, the `SchemaTypes` interface) and compared, in order, with the tables /
    columns / types of sandbox/grist/schema.py (schema_create_actions) and SCHEMA_VERSION;
  * additional oracle: the text printed by sandbox/gen_js_schema.py main() equals schema.ts;
  * `_defaultValues` of app/common/gristTypes.ts is parsed (JS literal -> (kind, value)) and
    compared key by key, both ways, with usertypes._type_defaults.
"""
import io
import os
import re
import math
import contextlib
import importlib.util

from mc import harness as H
from mc.enumprop import Enum

import schema as py_schema            # the real sandbox/grist/schema.py
import usertypes

LEVEL = 'other'

SCHEMA_TS = os.path.join(H.REPO, 'app', 'common', 'schema.ts')
TYPES_TS = os.path.join(H.REPO, 'app', 'common', 'gristTypes.ts')
GEN_PY = os.path.join(H.REPO, 'sandbox', 'gen_js_schema.py')

# TS type of a metadata column as documented in gen_js_schema.py's header table (reference copy,
# keyed by the pure type; everything else is a CellValue).
REF_TS_TYPES = {
    'Bool': 'boolean', 'DateTime': 'number', 'Int': 'number', 'PositionNumber': 'number',
    'Ref': 'number', 'Text': 'string',
    'RefList': '[GristObjCode.List, ...number[]]|null',
    'ChoiceList': '[GristObjCode.List, ...string[]]|null',
}


def ref_ts_type(col_type):
  return REF_TS_TYPES.get(col_type.partition(':')[0], 'CellValue')


# ----------------------------------------------------------------------------------------------
# Independent parsers of the TypeScript side
# ----------------------------------------------------------------------------------------------

class TsParseError(Exception):
  pass


def _block(text, header_re):
  """Returns the text between the braces that follow header_re (balanced)."""
  m = re.search(header_re, text)
  if not m:
    raise TsParseError("no match for %r" % header_re)
  i = text.index('{', m.end() - 1)
  depth = 0
  for j in range(i, len(text)):
    if text[j] == '{':
      depth += 1
    elif text[j] == '}':
      depth -= 1
      if depth == 0:
        return text[i + 1:j]
  raise TsParseError("unbalanced braces after %r" % header_re)


def _tables(block, entry_re, end):
  """Parses `"table": { entries }<end>` groups. Returns [(table, [(col, value), ...]), ...]."""
  out = []
  pos = 0
  table_re = re.compile(r'\s*"([^"]+)"\s*:\s*\{')
  while True:
    m = table_re.match(block, pos)
    if not m:
      break
    close = block.index('}', m.end())
    body = block[m.end():close]
    entries = []
    for line in body.split('\n'):
      line = line.strip()
      if not line:
        continue
      em = entry_re.match(line)
      if not em:
        raise TsParseError("cannot parse entry %r of table %s" % (line, m.group(1)))
      entries.append((em.group(1), em.group(2)))
    out.append((m.group(1), entries))
    tail = re.compile(r'\s*' + re.escape(end)).match(block, close + 1)
    if not tail:
      raise TsParseError("expected %r after table %s" % (end, m.group(1)))
    pos = tail.end()
  if block[pos:].strip():
    raise TsParseError("unparsed text %r" % block[pos:].strip()[:60])
  return out


def parse_schema_ts(text):
  m = re.search(r'^export const SCHEMA_VERSION\s*=\s*(\d+)\s*;', text, re.M)
  if not m:
    raise TsParseError("no SCHEMA_VERSION")
  version = int(m.group(1))
  schema = _tables(_block(text, r'export const schema\s*=\s*\{'),
                   re.compile(r'^([A-Za-z_]\w*)\s*:\s*"([^"]*)",$'), ',')
  types = _tables(_block(text, r'export interface SchemaTypes\s*\{'),
                  re.compile(r'^([A-Za-z_]\w*)\s*:\s*(.+);$'), ';')
  return version, schema, types


def js_literal(src):
  """JS literal -> (kind, value) with kind in null/boolean/number/string."""
  src = src.strip()
  if src == 'null':
    return ('null', None)
  if src in ('true', 'false'):
    return ('boolean', src == 'true')
  if src in ('Number.POSITIVE_INFINITY', 'Infinity'):
    return ('number', math.inf)
  if src in ('Number.NEGATIVE_INFINITY', '-Infinity'):
    return ('number', -math.inf)
  if re.match(r'^-?\d+(\.\d+)?([eE][-+]?\d+)?$', src):
    return ('number', float(src))
  m = re.match(r'^"((?:[^"\\]|\\.)*)"$', src) or re.match(r"^'((?:[^'\\]|\\.)*)'$", src)
  if m:
    return ('string', re.sub(r'\\(.)', r'\1', m.group(1)))
  raise TsParseError("unsupported JS literal %r" % src)


def parse_defaults_ts(text):
  """Returns [(type, (kind, value), sql_text), ...] of _defaultValues."""
  block = _block(text, r'const _defaultValues\b[^=]*=\s*\{')
  out = []
  for line in block.split('\n'):
    line = line.strip()
    if not line or line.startswith('//'):
      continue
    m = re.match(r'^([A-Za-z_]\w*)\s*:\s*\[\s*(.+?)\s*,\s*("(?:[^"\\]|\\.)*")\s*\]\s*,?$', line)
    if not m:
      raise TsParseError("cannot parse _defaultValues line %r" % line)
    out.append((m.group(1), js_literal(m.group(2)), js_literal(m.group(3))[1]))
  return out


def py_kind(v):
  """Python default -> (kind, value) the way JSON / JS sees it (int and float are one kind)."""
  if v is None:
    return ('null', None)
  if isinstance(v, bool):
    return ('boolean', v)
  if isinstance(v, (int, float)):
    return ('number', float(v))
  if isinstance(v, str):
    return ('string', v)
  return ('other', repr(v))


def sql_form(kv):
  """SQLite literal DocStorage needs for a default (documented next to _defaultValues)."""
  kind, v = kv
  if kind == 'null':
    return 'NULL'
  if kind == 'boolean':
    return '1' if v else '0'
  if kind == 'number':
    if v == math.inf:
      return '1e999'
    if v == -math.inf:
      return '-1e999'
    return repr(int(v)) if v == int(v) else repr(v)
  if kind == 'string':
    return "'" + v.replace("'", "''") + "'"
  return None


def generator_output():
  spec = importlib.util.spec_from_file_location('verif_gen_js_schema', GEN_PY)
  mod = importlib.util.module_from_spec(spec)
  spec.loader.exec_module(mod)          # `import schema` resolves to sandbox/grist/schema.py
  buf = io.StringIO()
  with contextlib.redirect_stdout(buf):
    mod.main()
  return buf.getvalue()


def first_diff(a, b):
  la, lb = a.split('\n'), b.split('\n')
  for i in range(max(len(la), len(lb))):
    x = la[i] if i < len(la) else '<EOF>'
    y = lb[i] if i < len(lb) else '<EOF>'
    if x != y:
      return "line %d: generator %r vs schema.ts %r" % (i + 1, x, y)
  return "no difference"


# ----------------------------------------------------------------------------------------------

def differential(E):
  """Runs the complete differential, reporting through E. Returns counts for the evidence."""
  counts = {'tables': 0, 'columns': 0, 'interface_columns': 0, 'defaults': 0}
  sampled = {}

  def pick(kind, sample, limit=2):
    # At most `limit` written-out samples per kind of entry, so that every kind is represented.
    sampled[kind] = sampled.get(kind, 0) + 1
    return sample if sampled[kind] <= limit else None
  with open(SCHEMA_TS) as f:
    ts_text = f.read()
  with open(TYPES_TS) as f:
    types_text = f.read()

  py_tables = [(t.table_id, [(c['id'], c['type']) for c in t.columns])
               for t in py_schema.schema_create_actions()]

  try:
    version, ts_schema, ts_types = parse_schema_ts(ts_text)
  except (TsParseError, ValueError) as e:
    E.count('parse-schema.ts')
    E.fail('C38/schema-ts/unparseable', "cannot parse app/common/schema.ts: %s" % e,
           case={'what': 'schema'})
    version, ts_schema, ts_types = None, [], []

  # 1. version
  E.count('version', sample={'entry': 'SCHEMA_VERSION', 'python': py_schema.SCHEMA_VERSION,
                             'ts': version})
  if version is not None and version != py_schema.SCHEMA_VERSION:
    E.fail('C38/schema-ts/version', "SCHEMA_VERSION: schema.py %s vs schema.ts %s" % (
        py_schema.SCHEMA_VERSION, version), case={'what': 'schema'})

  # 2. `schema` object and 3. `SchemaTypes` interface: tables in order, columns in order, values.
  def compare(section, ts_tables, expected_value, counter):
    if not ts_tables and version is None:
      return
    py_ids = [t for t, _ in py_tables]
    ts_ids = [t for t, _ in ts_tables]
    ts_map = dict(ts_tables)
    if len(ts_map) != len(ts_ids):
      E.fail('C38/%s/duplicate-table' % section, "table listed twice in schema.ts %s" % section,
             case={'what': 'schema'})
    for t in ts_ids:
      if t not in py_ids:
        E.count('%s:%s' % (section, t), nontrivial=False)
        E.fail('C38/%s/extra-table' % section,
               "schema.ts %s has table %s that schema.py lacks" % (section, t),
               case={'what': 'schema'})
    if [t for t in ts_ids if t in py_ids] != [t for t in py_ids if t in ts_map]:
      E.fail('C38/%s/table-order' % section, "tables of schema.ts %s are not in schema.py order"
             % section, case={'what': 'schema'})
    for t, py_cols in py_tables:
      if section == 'schema':
        counts['tables'] += 1
      if t not in ts_map:
        E.count('%s:%s' % (section, t), nontrivial=False)
        E.fail('C38/%s/missing-table' % section,
               "schema.py table %s is missing from schema.ts %s" % (t, section),
               case={'what': 'schema'})
        continue
      E.count('%s:%s' % (section, t))
      ts_cols = ts_map[t]
      ts_colmap = dict(ts_cols)
      if len(ts_colmap) != len(ts_cols):
        E.fail('C38/%s/duplicate-column' % section, "%s: column listed twice in schema.ts %s" % (
            t, section), case={'what': 'schema'})
      for c, _v in ts_cols:
        if c not in dict(py_cols):
          E.count('%s:%s.%s' % (section, t, c), nontrivial=False)
          E.fail('C38/%s/extra-column' % section,
                 "schema.ts %s has column %s.%s that schema.py lacks" % (section, t, c),
                 case={'what': 'schema'})
      if ([c for c, _ in ts_cols if c in dict(py_cols)] !=
          [c for c, _ in py_cols if c in ts_colmap]):
        E.fail('C38/%s/column-order' % section, "%s: columns of schema.ts %s are not in schema.py "
               "order" % (t, section), case={'what': 'schema'})
      for c, ctype in py_cols:
        counts[counter] += 1
        if c not in ts_colmap:
          E.count('%s:%s.%s' % (section, t, c), nontrivial=False)
          E.fail('C38/%s/missing-column' % section,
                 "schema.py column %s.%s (%s) is missing from schema.ts %s" % (t, c, ctype, section),
                 case={'what': 'schema'})
          continue
        want = expected_value(ctype)
        E.count('%s:%s.%s' % (section, t, c), sample=pick(
            section + ctype.partition(':')[0],
            {'entry': '%s %s.%s' % (section, t, c), 'python': ctype, 'expected_ts': want,
             'ts': ts_colmap[c]}, limit=1))
        if ts_colmap[c] != want:
          E.fail('C38/%s/column-type' % section,
                 "%s.%s: schema.py type %r needs %r in schema.ts %s, found %r" % (
                     t, c, ctype, want, section, ts_colmap[c]), case={'what': 'schema'})

  compare('schema', ts_schema, lambda ctype: ctype, 'columns')
  compare('SchemaTypes', ts_types, ref_ts_type, 'interface_columns')

  # 4. whole-file oracle: generator output vs schema.ts
  E.count('generator-output-vs-file')
  try:
    gen = generator_output()
  except Exception as e:    # pylint: disable=broad-except
    E.fail('C38/generator/raised', "gen_js_schema.main() raised %s" % H.exc_text(e),
           case={'what': 'schema'})
  else:
    if gen != ts_text:
      E.fail('C38/generator/output-differs', "gen_js_schema.py output differs from "
             "app/common/schema.ts: %s" % first_diff(gen, ts_text), case={'what': 'schema'})

  # 5. defaults
  try:
    ts_defaults = parse_defaults_ts(types_text)
  except (TsParseError, ValueError) as e:
    E.count('parse-gristTypes.ts')
    E.fail('C38/defaults/unparseable', "cannot parse _defaultValues of gristTypes.ts: %s" % e,
           case={'what': 'defaults'})
    ts_defaults = None
  if ts_defaults is not None:
    py_defaults = usertypes._type_defaults     # pylint: disable=protected-access
    ts_map = {}
    for name, kv, sql in ts_defaults:
      if name in ts_map:
        E.fail('C38/defaults/duplicate', "type %s listed twice in _defaultValues" % name,
               case={'what': 'defaults'})
      ts_map[name] = (kv, sql)
    for name in sorted(set(py_defaults) | set(ts_map)):
      counts['defaults'] += 1
      if name not in ts_map:
        E.count('default:' + name, nontrivial=False)
        E.fail('C38/defaults/missing-in-ts', "type %s has Python default %r but no entry in "
               "_defaultValues" % (name, py_defaults[name]), case={'what': 'defaults'})
        continue
      if name not in py_defaults:
        E.count('default:' + name, nontrivial=False)
        E.fail('C38/defaults/missing-in-python', "type %s is in _defaultValues but not in "
               "usertypes._type_defaults" % name, case={'what': 'defaults'})
        continue
      kv, sql = ts_map[name]
      want = py_kind(py_defaults[name])
      E.count('default:' + name, sample=pick('default' + kv[0] + repr(kv[1]), {
          'entry': 'default ' + name, 'python': repr(py_defaults[name]),
          'ts': list(kv) if kv[1] != math.inf else [kv[0], 'Infinity'], 'sql': sql}, limit=1))
      if kv != want:
        E.fail('C38/defaults/value', "default of %s: Python %r (%s) vs gristTypes.ts %r (%s)" % (
            name, py_defaults[name], want[0], kv[1], kv[0]), case={'what': 'defaults'})
      elif sql != sql_form(want):
        E.fail('C38/defaults/sql-form', "default of %s is %r but its SQLite form in gristTypes.ts "
               "is %r (expected %r)" % (name, py_defaults[name], sql, sql_form(want)),
               case={'what': 'defaults'})
  return counts


def run(tier, report):
  E = Enum(report, max_samples=40, rule=(
      'one configuration (the current tree), compared entry by entry: SCHEMA_VERSION; every table '
      'and every column (id, order, type) of schema.py vs the parsed `schema` object of schema.ts; '
      'every column vs the parsed `SchemaTypes` interface (expected TS type from a reference type '
      'table); generator output vs schema.ts text; every key of _defaultValues vs '
      'usertypes._type_defaults (kind and value, plus the SQLite literal). An entry is non-trivial '
      'when it exists on both sides so that values were actually compared; both tiers are '
      'identical'))
  counts = differential(E)
  E.finish(exhaustive=True, explanation=(
      'The input space is degenerate: the property quantifies over the single configuration "the '
      'current tree", so there is nothing to search. The check is a complete differential over '
      'the finite contents of that configuration: schema.ts and gristTypes.ts are parsed '
      'independently of the generator and compared entry by entry with sandbox/grist/schema.py '
      'and usertypes._type_defaults, and the generator output is additionally compared with '
      'schema.ts as a whole file. Compared: %(tables)d tables, %(columns)d columns in `schema`, '
      '%(interface_columns)d columns in `SchemaTypes`, %(defaults)d type defaults, 1 version, '
      '1 whole-file comparison.' % counts), **{'compared_' + k: v for k, v in counts.items()})
  report.assumptions.append('the TS files follow the generated layout (one `name: value` entry per '
                            'line); anything the parser cannot read is reported as a violation, '
                            'not skipped')
  report.assumptions.append('int and float defaults are one JS kind (number); bool, null and string '
                            'are distinct kinds')


def replay(viol):
  from mc.enumprop import PartReport
  E = Enum(PartReport('C38'), rule='')
  differential(E)
  hit = [v for k, v in E.report.violations.items() if k == viol['key']]
  for k, v in sorted(E.report.violations.items()):
    print("%s: %s" % (k, v['message']))
  if hit:
    print("VIOLATION property=C38 replay=(this file) reproduced")
    return 1
  print("not reproduced (key %s)" % viol['key'])
  return 0
