"""C33 JSON import reconstructs the input (exhaustive enumeration of small JSON documents)."""
import json
import itertools

from mc import harness as H          # sets sys.path to the repo's sandbox/grist
from mc.enumprop import Enum, PartReport, part_of, pmap

from imports import import_json      # the real code under test

LEVEL = 'exploration'


class Bad(Exception):
  def __init__(self, kind, message):
    Exception.__init__(self, message)
    self.kind = kind
    self.message = message


# ----------------------------------------------------------------------------------------------
# Reading the produced tables
# ----------------------------------------------------------------------------------------------

def read_tables(tables):
  """{table_name: {'cols': {id: (type, values)}, 'n': row count or None without columns}}"""
  out = {}
  for t in tables:
    name = t['table_name']
    if name in out:
      raise Bad('duplicate-table', "table %r produced twice" % name)
    if len(t['column_metadata']) != len(t['table_data']):
      raise Bad('unequal-columns', "table %r: %d column descriptions, %d data columns" % (
          name, len(t['column_metadata']), len(t['table_data'])))
    cols = {}
    for meta, values in zip(t['column_metadata'], t['table_data']):
      if meta['id'] in cols:
        raise Bad('duplicate-column', "table %r: column %r twice" % (name, meta['id']))
      cols[meta['id']] = (meta['type'], list(values))
    lens = sorted(set(len(v) for (_t, v) in cols.values()))
    if len(lens) > 1:
      raise Bad('unequal-columns', "table %r: column lengths %s" % (name, lens))
    out[name] = {'cols': cols, 'n': lens[0] if lens else None}
  return out


def backref_columns(tname, tab):
  """Columns of `tab` that point back to a parent table: {parent_table: column id}."""
  out = {}
  for cid, (ctype, _v) in tab['cols'].items():
    if ctype.startswith('Ref:') and ctype[4:] != tname + '_' + cid:
      if ctype[4:] in out:
        raise Bad('backref/two-columns', "table %r: two columns of type %s" % (tname, ctype))
      out[ctype[4:]] = cid
  return out


# ----------------------------------------------------------------------------------------------
# Reference: canonical form of the input, and the inverse mapping from the tables
# ----------------------------------------------------------------------------------------------

def tag(x):
  return (type(x).__name__, x)


def canon(v):
  """
  What the documented mapping preserves of a value that becomes a row: non-objects are the object
  {'': value}; null members and empty arrays leave no trace; scalars keep their type.
  """
  d = v if isinstance(v, dict) else {'': v}
  res = {}
  for k, x in d.items():
    if x is None:
      continue
    if isinstance(x, dict):
      res[k] = canon(x)
    elif isinstance(x, list):
      if x:
        res[k] = [canon(e) for e in x]
    else:
      res[k] = tag(x)
  return res


class Inverse(object):
  """Maps table rows back to the values they stand for; the input only tells a row id from a
  number (a cell is read as a reference where the input has an object at that place)."""

  def __init__(self, tabs):
    self.tabs = tabs
    self.visited = set()       # (table, row)
    self.consumed = set()      # (table, column, row)
    self.kinds = {}            # (table, column) -> {row: 'obj' | 'scalar'}
    self.soft = []             # findings that do not stop the walk
    self.backrefs = {t: backref_columns(t, tab) for t, tab in tabs.items()}

  def row(self, tname, r, hint):
    tab = self.tabs.get(tname)
    if tab is None:
      raise Bad('missing-table', "no table %r for %s" % (tname, json.dumps(hint)))
    if (tname, r) in self.visited:
      raise Bad('row-reached-twice', "row %s of %r stands for two input items" % (r, tname))
    self.visited.add((tname, r))
    if tab['n'] is None:
      self.soft.append(('row-lost/table-without-columns',
                        "table %r has no columns, so its row %s (for %s) cannot exist" % (
                            tname, r, json.dumps(hint))))
    elif type(r) is not int or not 1 <= r <= tab['n']:
      raise Bad('dangling-reference', "reference to row %r of %r which has %d rows" % (
          r, tname, tab['n']))
    hint_d = hint if isinstance(hint, dict) else {'': hint}
    back = set(self.backrefs[tname].values())
    out = {}
    for cid, (_ctype, values) in tab['cols'].items():
      x = values[r - 1]
      if cid in back or x is None:
        continue
      self.consumed.add((tname, cid, r))
      h = hint_d.get(cid)
      if isinstance(h, dict):
        self.kinds.setdefault((tname, cid), {})[r] = 'obj'
        out[cid] = self.row(tname + '_' + cid, x, h)
      else:
        self.kinds.setdefault((tname, cid), {})[r] = 'scalar'
        out[cid] = tag(x)
    # Array members: rows of the sub-table <table>_<key> pointing back to this row.
    for sub, subtab in self.tabs.items():
      if not sub.startswith(tname + '_') or tname not in self.backrefs[sub]:
        continue
      key = sub[len(tname) + 1:]
      bcol = self.backrefs[sub][tname]
      children = [s + 1 for s, p in enumerate(subtab['cols'][bcol][1]) if p == r]
      if not children:
        continue
      h = hint_d.get(key)
      hints = h if isinstance(h, list) else []
      if key in out:
        raise Bad('array-and-cell', "%r row %s has both a cell %r and array rows in %r" % (
            tname, r, key, sub))
      elems = []
      for i, s in enumerate(children):
        self.consumed.add((sub, bcol, s))
        elems.append(self.row(sub, s, hints[i] if i < len(hints) else None))
      out[key] = elems
    return out

  def finish(self):
    for tname, tab in self.tabs.items():
      if tab['n'] is None:
        continue
      for r in range(1, tab['n'] + 1):
        if (tname, r) not in self.visited:
          raise Bad('unaccounted-row', "row %s of %r stands for nothing in the input" % (r, tname))
      for cid, (_t, values) in tab['cols'].items():
        for r, x in enumerate(values, 1):
          if x is not None and (tname, cid, r) not in self.consumed:
            raise Bad('unaccounted-cell', "cell %r of %r row %s = %r stands for nothing in the input"
                      % (cid, tname, r, x))
    # Documented: a column's type is that of its first value that is not None; so a column whose
    # first value is a nested object must be a reference to the sub-table (and no other is).
    for (tname, cid), rows in sorted(self.kinds.items()):
      first = rows[min(rows)]
      ctype = self.tabs[tname]['cols'][cid][0]
      want = 'Ref:%s_%s' % (tname, cid)
      if first == 'obj' and ctype != want:
        self.soft.append(('ref-type-lost', "column %r of %r holds row ids of %r from its first "
                          "non-null value on, but has type %r" % (cid, tname, tname + '_' + cid, ctype)))
      if first == 'scalar' and ctype.startswith('Ref:'):
        self.soft.append(('ref-type-on-scalars', "column %r of %r starts with a scalar but has type "
                          "%r" % (cid, tname, ctype)))


def first_difference(want, got, path='$'):
  """(kind, text) of the first difference between two canonical values, or None."""
  if isinstance(want, dict) and isinstance(got, dict):
    for k in sorted(set(want) | set(got)):
      p = '%s.%s' % (path, k if k else "''")
      if k not in got:
        return ('value-lost', "%s = %s is not in the tables" % (p, show(want[k])))
      if k not in want:
        return ('value-invented', "%s = %s is in the tables only" % (p, show(got[k])))
      d = first_difference(want[k], got[k], p)
      if d:
        return d
    return None
  if isinstance(want, list) and isinstance(got, list):
    if len(want) != len(got):
      return ('array-length', "%s has %d members, the tables give %d" % (path, len(want), len(got)))
    for i, (w, g) in enumerate(zip(want, got)):
      d = first_difference(w, g, '%s[%d]' % (path, i))
      if d:
        return d
    return None
  if want != got or type(want) is not type(got):
    return ('value-differs', "%s: input %s, tables %s" % (path, show(want), show(got)))
  return None


def show(c):
  return json.dumps(c, default=repr, sort_keys=True)[:120]


def array_parents(value, table, acc):
  """acc[sub_table] = set of parent tables whose rows have array members in sub_table."""
  d = value if isinstance(value, dict) else {'': value}
  for k, x in d.items():
    if isinstance(x, dict):
      array_parents(x, table + '_' + k, acc)
    elif isinstance(x, list):
      for e in x:
        acc.setdefault(table + '_' + k, set()).add(table)
        array_parents(e, table + '_' + k, acc)
  return acc


def check_unfiltered(doc, name, tables):
  """
  Returns (hard, soft): hard = None or (kind, message) for a structural failure, soft = list of
  (kind, message) findings that leave the inverse mapping usable.
  """
  try:
    tabs = read_tables(tables)
    items = doc if isinstance(doc, list) else [doc]
    if not items:
      if tabs:
        raise Bad('unexpected-table', "tables %s for an empty document" % sorted(tabs))
      return None, []
    if name not in tabs:
      raise Bad('missing-table', "no main table %r" % name)
    inv = Inverse(tabs)
    n = tabs[name]['n']
    if n is not None and n != len(items):
      raise Bad('main-table-row-count', "%d top-level items, %d rows in %r" % (len(items), n, name))
    if inv.backrefs[name]:
      raise Bad('backref/in-main-table', "main table has a parent column %s" % inv.backrefs[name])
    for i, item in enumerate(items):
      got = inv.row(name, i + 1, item)
      diff = first_difference(canon(item), got, '$[%d]' % i)
      if diff:
        raise Bad('reconstruction/' + diff[0], diff[1])
    inv.finish()
    soft = []
    for s in inv.soft:
      if s[0] not in [x[0] for x in soft]:
        soft.append(s)
    return None, soft
  except Bad as e:
    acc = {}
    for item in (doc if isinstance(doc, list) else [doc]):
      array_parents(item, name, acc)
    shared = sorted(t for t, parents in acc.items() if len(parents) > 1)
    if shared and e.kind.split('/')[0] in ('reconstruction', 'unaccounted-row', 'unaccounted-cell',
                                           'row-reached-twice', 'dangling-reference', 'backref'):
      return ('backref/parents-in-several-tables',
              "sub-table %r holds array members of rows of several tables %s, but has one parent "
              "column typed for one of them (%s)" % (
                  shared[0], sorted(acc[shared[0]]), e.message)), []
    return (e.kind, e.message), []


# ----------------------------------------------------------------------------------------------
# Filtering: the filtered result is the (verified) unfiltered result without the filtered-out
# tables, their references and the filtered-out properties.
# ----------------------------------------------------------------------------------------------

def visible(path, includes, excludes):
  incs = [x for x in includes.split(';') if x]
  excs = [x for x in excludes.split(';') if x]
  return ((not incs or any(path.startswith(i) for i in incs)) and
          not any(path.startswith(e) for e in excs))


def restrict(tabs, includes, excludes):
  """{table: {column key: (type, values)}}; parent columns are keyed by ('parent', table)."""
  out = {}
  for tname, tab in tabs.items():
    if not visible(tname, includes, excludes):
      continue
    back = {cid: parent for parent, cid in backref_columns(tname, tab).items()}
    cols = {}
    for cid, (ctype, values) in tab['cols'].items():
      if cid in back:
        if visible(back[cid], includes, excludes):
          cols[('parent', back[cid])] = (ctype, values)
      elif visible(tname + '_' + cid, includes, excludes):
        cols[cid] = (ctype, values)
    out[tname] = cols
  return out


def keyed(tabs):
  """The same shape as restrict() gives, for tables as produced."""
  out = {}
  for tname, tab in tabs.items():
    back = {cid: parent for parent, cid in backref_columns(tname, tab).items()}
    out[tname] = {(('parent', back[cid]) if cid in back else cid): col
                  for cid, col in tab['cols'].items()}
  return out


def check_filtered(base_tabs, includes, excludes, tables):
  try:
    got = keyed(read_tables(tables))
  except Bad as e:
    return (e.kind, e.message)
  want = restrict(base_tabs, includes, excludes)
  for t in sorted(set(want) | set(got)):
    if t not in got:
      return ('filter/table-missing', "table %r should survive the filter" % t)
    if t not in want:
      return ('filter/table-not-filtered', "table %r should be filtered out" % t)
    for c in sorted(set(want[t]) | set(got[t]), key=repr):
      if c not in got[t]:
        return ('filter/column-missing', "column %r of %r should survive the filter" % (c, t))
      if c not in want[t]:
        return ('filter/column-not-filtered', "column %r of %r should be filtered out" % (c, t))
      if want[t][c] != got[t][c] or [tag(x) for x in want[t][c][1]] != [tag(x) for x in got[t][c][1]]:
        return ('filter/column-differs', "column %r of %r: unfiltered %s, filtered %s" % (
            c, t, want[t][c], got[t][c]))
  return None


# ----------------------------------------------------------------------------------------------
# Running one document
# ----------------------------------------------------------------------------------------------

def dumps(doc, name, includes, excludes):
  # The importer works on freshly parsed JSON: give it a private copy.
  out = import_json.dumps(json.loads(json.dumps(doc)), name,
                          {'includes': includes, 'excludes': excludes})
  return out['tables']


def check_doc(E, doc, name, filters, sample=False):
  """Returns the number of failures recorded."""
  case = {'doc': doc, 'name': name, 'includes': '', 'excludes': ''}
  nontrivial = bool(canon(doc)) if not isinstance(doc, list) else any(canon(x) for x in doc)
  nfail = 0
  try:
    tables = dumps(doc, name, '', '')
  except Exception as e:   # pylint: disable=broad-except
    E.count(None, nontrivial=nontrivial)
    E.fail('C33/raised/' + type(e).__name__, "dumps(%s) raised %s" % (json.dumps(doc), H.exc_text(e)),
           case=case)
    return 1
  E.count(None, nontrivial=nontrivial,
          sample={'doc': doc, 'name': name, 'tables': tables} if sample else None)
  hard, soft = check_unfiltered(doc, name, tables)
  for kind, message in ([hard] if hard else []) + soft:
    nfail += 1
    E.fail('C33/' + kind, "%s [doc %s name %r -> %s]" % (message, json.dumps(doc), name,
                                                          json.dumps(tables)[:400]), case=case)
  if hard:
    return nfail
  base = read_tables(tables)
  for (inc, exc) in filters:
    fcase = {'doc': doc, 'name': name, 'includes': inc, 'excludes': exc}
    try:
      ftables = dumps(doc, name, inc, exc)
    except Exception as e:   # pylint: disable=broad-except
      E.count(None, nontrivial=nontrivial)
      E.fail('C33/raised/' + type(e).__name__, "dumps(%s, includes=%r, excludes=%r) raised %s" % (
          json.dumps(doc), inc, exc, H.exc_text(e)), case=fcase)
      nfail += 1
      continue
    E.count(None, nontrivial=nontrivial)
    bad = check_filtered(base, inc, exc, ftables)
    if bad:
      nfail += 1
      E.fail('C33/' + bad[0], "%s [doc %s name %r includes=%r excludes=%r -> %s; unfiltered %s]" % (
          bad[1], json.dumps(doc), name, inc, exc, json.dumps(ftables)[:300],
          json.dumps(tables)[:300]), case=fcase)
  return nfail


# ----------------------------------------------------------------------------------------------
# The enumerated space
# ----------------------------------------------------------------------------------------------

def values(depth, leaves, keys, memo):
  """Every JSON value of nesting depth <= depth; arrays and objects have at most 2 members."""
  k = (depth, tuple(map(repr, leaves)), tuple(keys))
  if k in memo:
    return memo[k]
  out = list(leaves)
  if depth > 0:
    inner = values(depth - 1, leaves, keys, memo)
    out.append([])
    out.extend([x] for x in inner)
    out.extend([x, y] for x in inner for y in inner)
    out.append({})
    out.extend({a: x} for a in keys for x in inner)
    out.extend({a: x, b: y} for a, b in itertools.combinations(keys, 2) for x in inner for y in inner)
  memo[k] = out
  return out


KEYS4 = ['a', 'b', 'a_b', '']
SPACE = {
    'quick': {
        'names': ['a'],
        'leaves2': [1, 'x', None],
        'inner3': (['b'], [1, None]),
        'filter_values': ['', '%s_a', '%s_a;%s_b'],
    },
    'thorough': {
        'names': ['a', 'name'],
        'leaves2': [1, 1.5, 'x', True, None],
        'leaves2_other_names': [1, 'x', None],
        'inner3': (['a', 'b'], [1, None]),
        'filter_values': ['', '%s_a', '%s_a;%s_b', '%s_a_b'],
    },
}
TOP3_KEYS = ['a', 'a_b']


def family(tier, fam, memo):
  sp = SPACE[tier]
  if fam == 'D2':
    return values(2, sp['leaves2'], KEYS4, memo)
  if fam == 'D2N':          # D2 under the further import names, over fewer leaves
    return values(2, sp.get('leaves2_other_names', sp['leaves2']), KEYS4, memo)
  (ikeys, ileaves) = sp['inner3']
  inner = values(2, ileaves, ikeys, memo)
  if fam == 'D3A':          # arrays of <= 2 depth-2 values
    return ('pairs', inner)
  if fam == 'D3O':          # objects with <= 2 of the keys a, a_b over depth-2 values
    return ('objs', inner)
  raise ValueError(fam)


def filters_for(tier, name):
  vals = [v.replace('%s', name) for v in SPACE[tier]['filter_values']]
  return [(i, e) for i in vals for e in vals if (i, e) != ('', '')]


def chunks(tier):
  memo = {}
  out = []
  step = 512
  for i, name in enumerate(SPACE[tier]['names']):
    fam = 'D2' if i == 0 else 'D2N'
    n2 = len(family(tier, fam, memo))
    for lo in range(0, n2, step):
      out.append((fam, name, lo, min(n2, lo + step)))
  ninner = len(family(tier, 'D3A', memo)[1])
  step = 4
  for lo in range(0, ninner, step):
    out.append(('D3A', 'a', lo, min(ninner, lo + step)))
    out.append(('D3O', 'a', lo, min(ninner, lo + step)))
  out.append(('D3X', 'a', 0, 0))
  return out


_MEMO = {}


def worker(arg):
  (tier, (fam, name, lo, hi)) = arg
  E = Enum(PartReport('C33'), rule='', max_samples=1)
  filters = filters_for(tier, name)
  if fam in ('D2', 'D2N'):
    docs = family(tier, fam, _MEMO)
    for doc in docs[lo:hi]:
      check_doc(E, doc, name, filters, sample=(doc == [{'a': {'b': 1}}, 'x']))
  elif fam == 'D3A':
    inner = family(tier, 'D3A', _MEMO)[1]
    for x in inner[lo:hi]:
      for y in inner:
        check_doc(E, [x, y], name, filters, sample=(x == {'b': [1]} and y == [[1]]))
  elif fam == 'D3O':
    inner = family(tier, 'D3O', _MEMO)[1]
    for x in inner[lo:hi]:
      for y in inner:
        check_doc(E, {'a': x, 'a_b': y}, name, filters)
  elif fam == 'D3X':        # the depth-3 documents with fewer than two members
    inner = family(tier, 'D3A', _MEMO)[1]
    for x in inner:
      check_doc(E, [x], name, filters)
      for k in TOP3_KEYS:
        check_doc(E, {k: x}, name, filters)
  return part_of(E)


def run(tier, report):
  sp = SPACE[tier]
  E = Enum(report, rule=(
      'documents passed to import_json.dumps(doc, name, {includes, excludes}). '
      'D2: every JSON value of depth <= 2 (arrays and objects of <= 2 members) over keys %r and '
      'leaves %r under import name %r%s. '
      'D3: every array of 1..2 members and every object with 1..2 of the keys %r whose members are '
      'any value of depth <= 2 over keys %r and leaves %r (depth 3: arrays of arrays of arrays, '
      'sub-table names that collide such as a_b vs a.b, a null before an object in one column), '
      'import name \'a\' (so a parent column can collide with key a). '
      'Each document is imported unfiltered and with every (includes, excludes) pair over %r '
      '(%%s = import name) except (\'\', \'\'). non-trivial = the document has a scalar, object or '
      'non-empty array. oracle, unfiltered: equal-length columns; an inverse mapping (main-table '
      'row i <-> top-level item i, reference cell <-> nested object, rows pointing back to a '
      'parent row <-> array members in order) rebuilds the input up to the documented identities '
      '(non-object = {"": value}; null members and empty arrays leave no trace), every row and '
      'every non-null cell is used exactly once, a column starting with an object is of type '
      'Ref:<sub-table>. oracle, filtered (only for documents whose unfiltered import passed the '
      'structural checks): the result equals the unfiltered tables minus tables whose name, '
      'and columns whose <table>_<column> path (for parent columns: whose parent table), is not '
      'visible; visible = matches an include prefix (or no includes) and no exclude prefix'
      % (KEYS4, sp['leaves2'], sp['names'][0],
         ''.join(' and over leaves %r under import name %r' % (sp['leaves2_other_names'], n)
                 for n in sp['names'][1:]), TOP3_KEYS, sp['inner3'][0], sp['inner3'][1],
         sp['filter_values'])), max_samples=3)
  work = [(tier, c) for c in chunks(tier)]
  for part in pmap(worker, work):
    E.merge(part)
  E.finish(exhaustive=True, work_units=len(work))
  report.assumptions.append('row ids are positions in table_data (first row = 1), as the import '
                            'format has no id column')
  report.assumptions.append('the filtered oracle takes the unfiltered tables, verified by the '
                            'inverse mapping, as its base')
  report.assumptions.append('object member order is irrelevant (one order per key set enumerated)')


def replay(viol):
  c = viol['case']
  E = Enum(PartReport('C33'), rule='')
  filters = [(c['includes'], c['excludes'])] if (c['includes'] or c['excludes']) else []
  nfail = check_doc(E, c['doc'], c['name'], filters)
  for v in E.report.violations.values():
    print("%s\n  %s" % (v['key'], v['message']))
  if nfail:
    print("VIOLATION property=C33 replay=(this file) reproduced")
    return 1
  print("no violation")
  return 0
