"""C32 CSV import keeps every cell (exhaustive enumeration of small, ragged and tall text grids)."""
import os
import csv
import shutil
import itertools
import tempfile

from mc import harness as H          # sets sys.path to the repo's sandbox/grist
from mc.enumprop import Enum, PartReport, part_of, pmap

from imports import import_csv       # the real code under test

LEVEL = 'exploration'

DELIMS = [',', ';', '\t']
QUOTES = ['"', "'"]
# Characters (other than \n and \r) that str.splitlines() treats as a line boundary.
BREAKS = '\x0b\x0c\x1c\x1d\x1e\x85  '


# ----------------------------------------------------------------------------------------------
# Reference oracle
# ----------------------------------------------------------------------------------------------

def blank(row):
  return all(c == '' for c in row)


def lead_blank(grid):
  n = 0
  for row in grid:
    if not blank(row):
      break
    n += 1
  return n


def allowed_offsets(grid, hdr):
  """
  Numbers of leading grid rows the importer may consume before the first data row: leading rows
  without any non-empty cell may be skipped (nothing is lost); with headers exactly one more row
  (the header row: the first row with a non-empty cell, or a blank row before it) is consumed.
  """
  lead = lead_blank(grid)
  if not hdr:
    return list(range(0, lead + 1))
  if not grid:
    return [0]
  return [h + 1 for h in range(0, min(lead, len(grid) - 1) + 1)]


def expected(grid, hdr, off):
  """The kept columns [(id, [cell texts])] when `off` leading rows are consumed."""
  if hdr and grid:
    header = grid[off - 1]
  else:
    header = []
  data_rows = grid[off:]
  width = max([len(header)] + [len(r) for r in data_rows])
  cols = []
  for j in range(width):
    cid = header[j].strip() if j < len(header) else ''
    data = [r[j] if j < len(r) else '' for r in data_rows]
    if cid or any(c != '' for c in data):
      cols.append((j, cid, data))
  return cols


def normalise(tables):
  """[(id, data)] of the produced table, without columns that have neither a header nor a cell."""
  if not tables:
    return []
  t = tables[0]
  out = []
  for meta, data in zip(t['column_metadata'], t['table_data']):
    if not meta['id'] and all(v == '' for v in data):
      continue
    out.append((meta['id'], list(data)))
  return out


def judge(grid, hdr, tables):
  """Returns None if the output is acceptable, else (kind, message) with a structural kind."""
  if len(tables) > 1:
    return ('several-tables', "%d tables returned" % len(tables))
  if tables:
    t = tables[0]
    if len(t['column_metadata']) != len(t['table_data']):
      return ('unequal-columns', "metadata for %d columns, data for %d" % (
          len(t['column_metadata']), len(t['table_data'])))
    lens = sorted(set(len(d) for d in t['table_data']))
    if len(lens) > 1:
      return ('unequal-columns', "column lengths differ: %s" % lens)
  actual = normalise(tables)
  offs = allowed_offsets(grid, hdr)
  exps = [expected(grid, hdr, off) for off in offs]
  for exp in exps:
    if actual == [(cid, data) for (_j, cid, data) in exp]:
      return None
  return describe(grid, hdr, tables, actual, offs, exps)


def describe(grid, hdr, tables, actual, offs, exps):
  """Structural description (kind, message) of an output that matches no acceptable result."""
  nrows = len(grid)
  if not tables or not tables[0]['table_data']:
    detail = 'blank-first-row' if (grid and blank(grid[0])) else 'other'
    return ('no-table/' + detail,
            "no table returned although the grid has non-empty cells (expected %d column(s))"
            % len(exps[0]))
  n = len(tables[0]['table_data'][0])
  off = nrows - n
  if off < offs[0]:
    if hdr and off == 0:
      return ('row-count/header-row-not-consumed', "%d data rows for %d grid rows" % (n, nrows))
    return ('row-count/extra-rows', "%d data rows returned for a grid of %d rows" % (n, nrows))
  if off > offs[-1]:
    lost_rows = grid[offs[-1] - (1 if hdr else 0):off - (1 if hdr else 0)]
    return ('leading-row-dropped/' + ('headers-on' if hdr else 'headers-off'),
            "%d leading grid row(s) consumed before the data, but only %d may be: row(s) %s with "
            "non-empty cells dropped" % (off, offs[-1], lost_rows[:3]))
  exp = exps[offs.index(off)]
  first_rows_width = max([len(r) for r in grid[:100]] or [0])
  # Greedy in-order alignment of produced columns with expected columns.
  ai = 0
  for k, (j, cid, data) in enumerate(exp):
    if ai < len(actual) and actual[ai] == (cid, data):
      ai += 1
      continue
    if len(actual) - ai < len(exp) - k:     # fewer columns left than expected: this one is missing
      cells_ = [c for c in data if c != '']
      if j >= first_rows_width:
        return ('cell-dropped/row-wider-than-first-100-rows',
                "grid column %d (cells %s) is missing: it only occurs in rows after the first 100, "
                "whose width is %d" % (j, cells_[:3], first_rows_width))
      return ('cell-dropped/column-missing',
              "grid column %d (header %r, cells %s) is missing" % (j, cid, cells_[:3]))
    (aid, adata) = actual[ai]
    if aid != cid:
      return ('header-mismatch', "grid column %d: header %r, produced id %r" % (j, cid, aid))
    for i, (e, a) in enumerate(zip(data, adata)):
      if e == a:
        continue
      if not isinstance(a, str):
        return ('cell-not-text', "data row %d column %d: %r produced for %r" % (i, j, a, e))
      if a == '':
        return ('cell-dropped/cell-empty', "data row %d column %d: text %r lost" % (i, j, e))
      return ('cell-altered', "data row %d column %d: text %r became %r" % (i, j, e, a))
    return ('cell-altered', "grid column %d differs" % j)
  return ('extra-column', "produced columns %s beyond the expected ones" % (
      [a[0] for a in actual[ai:]],))


# ----------------------------------------------------------------------------------------------
# Running one case
# ----------------------------------------------------------------------------------------------

def scratch_dir():
  base = '/dev/shm' if os.path.isdir('/dev/shm') and os.access('/dev/shm', os.W_OK) else None
  return tempfile.mkdtemp(prefix='verif_C32_', dir=base)


def import_grid(path, grid, delim, quote, hdr, **more):
  with open(path, 'w', newline='', encoding='utf-8') as f:
    csv.writer(f, delimiter=delim, quotechar=quote).writerows(grid)
  options = {'delimiter': delim, 'quotechar': quote, 'include_col_names_as_headers': hdr,
             'encoding': 'utf-8'}
  options.update(more)
  _opts, tables = import_csv.parse_file(path, options)
  return tables


def short(grid):
  if len(grid) <= 6:
    return repr(grid)
  return "%d rows: %r ... %r" % (len(grid), grid[:2], grid[-2:])


def soften(grid):
  """Whitespace-only cells replaced by empty ones."""
  return [[c if c.strip() else '' for c in r] for r in grid]


def soften_tables(tables):
  return [dict(t, table_data=[[v if not isinstance(v, str) or v.strip() else '' for v in d]
                              for d in t['table_data']]) for t in tables]


def root_cause(path, grid, delim, quote, hdr, tables, bad):
  """
  The verdict is `bad` (from the strict oracle).  The finding key names the root cause: the first
  of a fixed list of input/option repairs (applied cumulatively) after which the strict oracle is
  satisfied, else the structural kind of what is still wrong after all repairs.
  """
  def attempt(g, lenient, **more):
    try:
      t = import_grid(path, [list(r) for r in g], delim, quote, hdr, **more)
    except Exception:   # pylint: disable=broad-except
      return ('raised', '')
    if lenient:
      return judge(soften(g), hdr, soften_tables(t))
    return judge(g, hdr, t)

  g = grid
  if any(ch in c for r in grid for c in r for ch in BREAKS):
    g = [[''.join('_' if ch in BREAKS else ch for ch in c) for c in r] for r in grid]
    if not attempt(g, False):
      return ('C32/row-split/line-break-char-in-cell',
              "a cell holding a character that str.splitlines() takes for a line boundary (other "
              "than \\n, \\r) is split over two rows (no failure once that character is replaced)")
  if not attempt(g, False, skipinitialspace=False):
    return ('C32/cell-altered/sniffed-skipinitialspace',
            "cell text beginning with a blank lost its blank: skipinitialspace was guessed from "
            "the file (no failure with skipinitialspace=False given explicitly)")
  rest = attempt(g, True, skipinitialspace=False)
  if not rest:
    return ('C32/whitespace-only-cell-treated-as-empty/' + bad[0],
            "a cell of only whitespace is lost (dropped row/column); no failure when whitespace-"
            "only cells count as empty")
  if g is grid:
    rest = bad
  return ('C32/' + rest[0], rest[1])


def check_case(E, path, grid, delim, quote, hdr, sample=False):
  grid = [list(r) for r in grid]
  case = {'grid': grid, 'delimiter': delim, 'quotechar': quote, 'headers': hdr}
  nontrivial = any(c != '' for r in grid for c in r)
  try:
    tables = import_grid(path, [list(r) for r in grid], delim, quote, hdr)
  except Exception as e:   # pylint: disable=broad-except
    E.count(None, nontrivial=nontrivial)
    E.fail('C32/raised/' + type(e).__name__, "parse_file raised %s on %s delimiter=%r quotechar=%r "
           "headers=%s" % (H.exc_text(e), short(grid), delim, quote, hdr), case=case)
    return 1
  E.count(None, nontrivial=nontrivial,
          sample={'grid': short(grid), 'delimiter': delim, 'quotechar': quote, 'headers': hdr,
                  'columns': [(i, d[:3]) for i, d in normalise(tables)]} if sample else None)
  bad = judge(grid, hdr, tables)
  if bad:
    key, why = root_cause(path, grid, delim, quote, hdr, tables, bad)
    E.fail(key, "%s [grid %s delimiter=%r quotechar=%r headers=%s -> %s]" % (
        bad[1] if why == bad[1] else bad[1] + '; ' + why, short(grid), delim, quote, hdr,
        [(i, d[:4]) for i, d in normalise(tables)][:5]), case=case)
    return 1
  return 0


# ----------------------------------------------------------------------------------------------
# The enumerated space
# ----------------------------------------------------------------------------------------------

def rows_over(alphabet, maxw):
  out = []
  for w in range(0, maxw + 1):
    out.extend(itertools.product(alphabet, repeat=w))
  return out


def cells(names, delim, quote):
  table = {'D': 'a%sb' % delim, 'Q': 'q%sq' % quote}
  return [table.get(n, n) for n in names]


SMALL_CELLS = {
    # '' plain text, a number, a cell holding the delimiter (D), one holding the quote character
    # (Q), a blank, text after a blank, an embedded newline, non-ASCII, and (form feed, U+2028)
    # characters that str.splitlines() takes for line boundaries.
    'quick': ['', 'a', '1', 'D', 'Q', ' ', ' b', 'x\ny', 'é', 'u v'],
    'thorough': ['', 'a', 'b', '1', 'D', 'Q', ' ', ' b', 'x\ny', 'é', 'f\x0cg', 'u v'],
}
MID_CELLS = {'quick': ['', 'a', 'b'], 'thorough': ['', 'a', 'b', '1']}          # first row
MID_CELLS_REST = {'quick': ['', 'a'], 'thorough': ['', 'a', 'b', '1']}         # rows 2 and 3
SMALL_DELIMS = {'quick': [',', '\t'], 'thorough': DELIMS}
TALL_DEV_CELLS = {'quick': ['', 'a'], 'thorough': ['', 'a', 'D']}
TALL_ROWS = {'quick': [99, 100, 101, 102], 'thorough': [99, 100, 101, 102, 150]}
TALL_DIALECTS = {'quick': [(',', '"'), ('\t', "'")],
                 'thorough': [(d, q) for d in DELIMS for q in QUOTES]}


def tall_positions(nrows):
  return sorted(set(p for p in (0, 1, 2, 50, 98, 99, 100, 101, 102, nrows - 1) if 0 <= p < nrows))


def chunks(tier):
  """Work units (kind, parameters...) that together cover the stated space exactly once."""
  out = []
  dialects = [(d, q, h) for d in DELIMS for q in QUOTES for h in (False, True)]
  # S: every grid of <= 2 rows of width <= 2 over SMALL_CELLS, every dialect.
  nfirst = len(rows_over(SMALL_CELLS[tier], 2))
  for (d, q, h) in dialects:
    if d not in SMALL_DELIMS[tier]:
      continue
    out.append(('S01', d, q, h))
    for lo in range(0, nfirst, 16):
      out.append(('S2', d, q, h, lo, min(nfirst, lo + 16)))
  # M: every grid of 3 rows (thorough: also 4 rows over {'', 'a'}) of width <= 3, one dialect.
  nmid = len(rows_over(MID_CELLS[tier], 3))
  for h in (False, True):
    for lo in range(0, nmid, 2):
      out.append(('M3', h, lo, min(nmid, lo + 2)))
    if tier == 'thorough':
      for lo in range(0, 15):
        out.append(('M4', h, lo))
  # T: tall grids with one deviating row.
  for nrows in TALL_ROWS[tier]:
    for w0 in (0, 1, 2, 3):
      for style in ('same', 'distinct'):
        for (d, q) in TALL_DIALECTS[tier]:
          for h in (False, True):
            out.append(('T', nrows, w0, style, d, q, h))
  return out


def tall_base(nrows, w0, style):
  if style == 'same':
    return [['x%d' % j for j in range(w0)] for _i in range(nrows)]
  return [['r%dc%d' % (i, j) for j in range(w0)] for i in range(nrows)]


def worker(arg):
  (tier, chunk) = arg
  E = Enum(PartReport('C32'), rule='', max_samples=1)
  tmp = scratch_dir()
  path = os.path.join(tmp, 'grid.csv')
  try:
    kind = chunk[0]
    if kind == 'S01':
      (_k, d, q, h) = chunk
      rows = rows_over(cells(SMALL_CELLS[tier], d, q), 2)
      check_case(E, path, [], d, q, h)
      for r in rows:
        check_case(E, path, [r], d, q, h)
    elif kind == 'S2':
      (_k, d, q, h, lo, hi) = chunk
      rows = rows_over(cells(SMALL_CELLS[tier], d, q), 2)
      for r0 in rows[lo:hi]:
        for r1 in rows:
          check_case(E, path, [r0, r1], d, q, h, sample=(r0 == ('a', 'a,b') and r1 == ('1',)))
    elif kind == 'M3':
      (_k, h, lo, hi) = chunk
      rows = rows_over(MID_CELLS[tier], 3)
      rest = rows_over(MID_CELLS_REST[tier], 3)
      for r0 in rows[lo:hi]:
        for r1 in rest:
          for r2 in rest:
            check_case(E, path, [r0, r1, r2], ',', '"', h)
    elif kind == 'M4':
      (_k, h, lo) = chunk
      rows = rows_over(['', 'a'], 3)
      for r1 in rows:
        for r2 in rows:
          for r3 in rows:
            check_case(E, path, [rows[lo], r1, r2, r3], ',', '"', h)
    elif kind == 'T':
      (_k, nrows, w0, style, d, q, h) = chunk
      devs = rows_over(cells(TALL_DEV_CELLS[tier], d, q), 3)
      for p in tall_positions(nrows):
        for dev in devs:
          grid = tall_base(nrows, w0, style)
          grid[p] = list(dev)
          check_case(E, path, grid, d, q, h,
                     sample=(p == 100 and w0 == 2 and dev == ('a', 'a', 'a') and d == ','))
  finally:
    shutil.rmtree(tmp, ignore_errors=True)
  return part_of(E)


def run(tier, report):
  ns = len(SMALL_CELLS[tier])
  E = Enum(report, rule=(
      'grids written with csv.writer(delimiter, quotechar) and read by import_csv.parse_file with '
      'explicit delimiter, quotechar, include_col_names_as_headers (and encoding utf-8). '
      'S: every grid of <= 2 rows, each of width 0..2, over %d cell texts %r (D = text holding the '
      'delimiter, Q = text holding the quote character) x delimiter in %r x '
      'quotechar in {", \'} x headers in {False, True}. '
      'M: every grid of 3 rows of width 0..3, first row over %r, other rows over %r%s, comma/", '
      'headers in {False, True}. '
      'T: tall grids of %r rows, all rows of one width w0 in 0..3 (same texts in every row, or '
      'distinct texts per row) except ONE deviating row at each position of {0,1,2,50,98,99,100,'
      '101,102,last}, the deviating row being every row of width 0..3 over %r, x (delimiter, '
      'quotechar) in %r x headers in {False, True} (so rows wider than the first 100 rows occur '
      'after them). non-trivial = the grid has a '
      'non-empty cell. oracle: equal-length columns, one entry per data row (only leading rows '
      'without non-empty cells, and the header row, may be consumed), every column with a header '
      'or non-empty cell present in order with id = stripped header text and exactly the cell '
      'texts, "" for cells a ragged row lacks' % (
          ns, SMALL_CELLS[tier], SMALL_DELIMS[tier], MID_CELLS[tier], MID_CELLS_REST[tier],
          " and every grid of 4 rows over ['', 'a']" if tier == 'thorough' else '',
          TALL_ROWS[tier], TALL_DEV_CELLS[tier], TALL_DIALECTS[tier])), max_samples=4)
  work = [(tier, c) for c in chunks(tier)]
  for part in pmap(worker, work):
    E.merge(part)
  E.finish(exhaustive=True, work_units=len(work))
  report.assumptions.append('the file is UTF-8 and the encoding option says so (encoding detection '
                            'is not part of this property)')
  report.assumptions.append('csv.writer defaults otherwise: QUOTE_MINIMAL, doublequote, \\r\\n line '
                            'ends; an empty row is a blank line, a row of one empty cell is a pair '
                            'of quote characters')
  report.assumptions.append('columns without header and without any non-empty cell may be dropped '
                            'or kept; leading rows without non-empty cells may be skipped')


def replay(viol):
  c = viol['case']
  tmp = scratch_dir()
  try:
    E = Enum(PartReport('C32'), rule='')
    failed = check_case(E, os.path.join(tmp, 'grid.csv'), c['grid'], c['delimiter'], c['quotechar'],
                        c['headers'])
    for v in E.report.violations.values():
      print("%s\n  %s" % (v['key'], v['message']))
  finally:
    shutil.rmtree(tmp, ignore_errors=True)
  if failed:
    print("VIOLATION property=C32 replay=(this file) reproduced")
    return 1
  print("no violation")
  return 0
