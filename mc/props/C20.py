"""C20 Row positions stay unique and order-preserving (pure-function part: relabeling.prepare_inserts).

Three exhaustively enumerated spaces, all decided by the same reference oracle:
  A. every sorted list of distinct existing positions (<= 4) from an adversarial float alphabet x
     every ordered batch of requested positions (<= 3, duplicates allowed) from the same alphabet
     plus -inf;
  B. deterministic insertion chains: k sequential batches at the same spot of a crowded cluster of
     adjacent floats (every start cluster x spot x batch size), the result of each call being applied
     to get the next input;
  C. every sequence of gap choices of length <= d starting from a cluster of adjacent floats (the
     whole tree of insertion histories).
"""
import re
import math
import struct
import traceback
import itertools

from mc import harness as H          # sets sys.path to the repo's sandbox/grist
from mc.enumprop import Enum, PartReport, part_of, pmap

from sortedcontainers import SortedListWithKey

import relabeling                     # the real code under test

LEVEL = 'exploration'
INF = float('inf')


# ---------------------------------------------------------------------------------------------
# independent helpers (not the repo's nextfloat)
# ---------------------------------------------------------------------------------------------

def up(x, n=1):
  """The n-th representable float above the non-negative finite float x."""
  bits = struct.unpack('<q', struct.pack('<d', x))[0]
  return struct.unpack('<d', struct.pack('<q', bits + n))[0]


def fl(x):
  return repr(float(x))


def call(existing, requests):
  """Calls the code under test the way column.PositionColumn.prepare_new_values does."""
  pos = list(existing)
  rows = SortedListWithKey(range(len(pos)), key=lambda i: pos[i])
  adjustments, new_keys = relabeling.prepare_inserts(rows, list(requests))
  return [tuple(a) for a in adjustments], list(new_keys)


# ---------------------------------------------------------------------------------------------
# reference oracle
# ---------------------------------------------------------------------------------------------

def oracle(existing, requests, adjustments, new_keys):
  """
  existing: strictly increasing floats; requests: floats.  Returns (None, final_existing) if the
  result satisfies the property, else ((key, message), None).
  """
  n = len(existing)
  if len(new_keys) != len(requests):
    return ('C20/shape', "%d new positions for %d requests" % (len(new_keys), len(requests))), None
  final = list(existing)
  seen = set()
  for a in adjustments:
    if len(a) != 2 or not isinstance(a[0], int) or not (0 <= a[0] < n) or a[0] in seen:
      return ('C20/shape', "bad or repeated adjustment %r" % (a,)), None
    seen.add(a[0])
    final[a[0]] = a[1]
  for v in final + list(new_keys):
    if not isinstance(v, float) or not math.isfinite(v):
      return ('C20/non-finite', "position %r is not a finite float" % (v,)), None
  for i in range(n - 1):
    if not final[i] < final[i + 1]:
      kind = 'duplicate-position' if final[i] == final[i + 1] else 'existing-order'
      return ('C20/' + kind, "existing rows %d,%d end at %r,%r" % (
          i, i + 1, final[i], final[i + 1])), None
  if len(set(final) | set(new_keys)) != n + len(new_keys):
    return ('C20/duplicate-position', "positions not distinct"), None
  for j, (req, new) in enumerate(zip(requests, new_keys)):
    # The new row belongs after the existing rows whose (original) position is smaller than the
    # request, and before all others (so before an existing row with an equal position).
    p = sum(1 for e in existing if e < req)
    if (p > 0 and not final[p - 1] < new) or (p < n and not new < final[p]):
      return ('C20/misplaced', "request #%d (%r) belongs before existing row %d but got %r" % (
          j, req, p, new)), None
  for a in range(len(requests)):
    for b in range(len(requests)):
      if requests[a] < requests[b] and not new_keys[a] < new_keys[b]:
        return ('C20/new-order', "requests #%d<#%d (%r<%r) got %r,%r" % (
            a, b, requests[a], requests[b], new_keys[a], new_keys[b])), None
      if a < b and requests[a] == requests[b] and not new_keys[a] < new_keys[b]:
        return ('C20/tie-order', "equal requests #%d,#%d (%r) got %r,%r (batch order lost)" % (
            a, b, requests[a], new_keys[a], new_keys[b])), None
  return None, final


def case_size(case):
  return (len(case['existing']) + len(case['requests']), len(case['existing']))


def fail_min(E, key, message, case):
  """E.fail, keeping the smallest failing case per key as the recorded example."""
  E.fail(key, message, case=case)
  kept = E.report.violations[key]
  if case_size(case) < case_size(kept['case']):
    kept['message'] = message
    kept['case'] = case


def raise_site(e):
  """Root-cause detail for an exception: the raising function and the asserted helper."""
  tb = traceback.extract_tb(e.__traceback__)
  last = tb[-1] if tb else None
  m = re.match(r'assert\s+(?:self\.)?(\w+)', (last.line or '') if last else '')
  return (last.name if last else 'unknown') + ('.' + m.group(1) if m else '')


def input_class(existing, requests):
  """Coarse class of an input, part of the finding key of a raised exception (so that a recorded
  finding about one neighbourhood does not cover the same assertion failing in another)."""
  finite = [abs(x) for x in list(existing) + list(requests) if math.isfinite(x)]
  if any(x >= 2.0 ** 52 for x in finite):
    return 'spacing>=1'
  if any(0 < x < 2.2250738585072014e-308 for x in finite):
    return 'subnormal'
  if any(x <= 0 for x in existing):
    return 'nonpositive-existing'
  if any(x >= 1e300 for x in finite):
    return 'near-max'
  lo = min(existing) if existing else 1.0
  return 'ordinary/2^%d' % math.frexp(lo)[1]


def evaluate(E, existing, requests):
  """
  One evaluation: call, count, judge.  Returns the next list of positions (existing rows adjusted,
  new rows inserted) or None if the case failed.
  """
  case = {'existing': [fl(x) for x in existing], 'requests': [fl(x) for x in requests]}
  try:
    adjustments, new_keys = call(existing, requests)
  except Exception as e:   # pylint: disable=broad-except
    E.count(None, nontrivial=True)
    fail_min(E, 'C20/raised/%s/%s/%s' % (type(e).__name__, raise_site(e), input_class(existing, requests)),
             "prepare_inserts(existing=%s, requests=%s) raised %s" % (
                 case['existing'], case['requests'], H.exc_text(e)), case)
    return None
  E.count(None, nontrivial=bool(adjustments),
          sample=dict(case, adjustments=[[i, fl(k)] for i, k in adjustments],
                      new=[fl(k) for k in new_keys]) if adjustments else None)
  bad, final = oracle(existing, requests, adjustments, new_keys)
  if bad:
    fail_min(E, bad[0], "%s; existing=%s requests=%s adjustments=%s new=%s" % (
        bad[1], case['existing'], case['requests'], [(i, fl(k)) for i, k in adjustments],
        [fl(k) for k in new_keys]), case)
    return None
  return sorted(final + new_keys)


# ---------------------------------------------------------------------------------------------
# the enumerated spaces
# ---------------------------------------------------------------------------------------------

def alphabet(tier):
  # crowded neighbours of 1.0, a subnormal, large values where float spacing is 1 and 2, the
  # requested-only inf, and the legacy-invalid positions -1.0 and 0.0
  base = [-1.0, 0.0, 5e-324, 0.5, 1.0, up(1.0), up(1.0, 2), 2.0, 2.0 ** 52, 2.0 ** 53, INF]
  if tier == 'thorough':
    # the float just below 1.0, and the top of the range
    base += [up(0.5, 2 ** 52 - 1), 3.0, 1e308, 1.7976931348623157e308]
  return sorted(base)


def bounds(tier):
  if tier == 'quick':
    return dict(max_existing=4, max_batch=3, big_batch=None, chain_steps=60, tree_depth=5)
  return dict(max_existing=4, max_batch=3, big_batch=(2, 4), chain_steps=400, tree_depth=7)


def existing_lists(tier):
  # inf is the column default: PositionColumn.set keeps rows holding it out of the sorted list
  # handed to prepare_inserts, so it is a requested position only, never an existing one.
  alpha = [x for x in alphabet(tier) if x != INF]
  for n in range(0, bounds(tier)['max_existing'] + 1):
    for combo in itertools.combinations(alpha, n):
      yield list(combo)


def batches(alpha, max_batch, exact=None):
  reqs = sorted(set(alpha) | {-INF})
  for m in ([exact] if exact else range(0, max_batch + 1)):
    for batch in itertools.product(reqs, repeat=m):
      yield list(batch)


CLUSTER_BASES = [1.0, 0.5, 1.0 / 3, 5e-324, 2.2250738585072014e-308, 1e-300, 1023.9999999999999,
                 2.0 ** 52 - 2, 1e15]
SPOTS = ['between', 'start', 'after-first', 'before-last', 'end', 'dup-first']


def spot_requests(positions, spot, count):
  if spot == 'between':          # between the first two rows: tie with the second one
    return [positions[1]] * count
  if spot == 'start':
    return [-INF] * count
  if spot == 'after-first':      # what docmodel does for "insert after": nextfloat(position)
    return [up(positions[0])] * count
  if spot == 'before-last':
    return [positions[-1]] * count
  if spot == 'end':
    return [INF] * count
  if spot == 'dup-first':        # tie with the first row
    return [positions[0]] * count
  raise ValueError(spot)


def chain_specs(tier):
  for base in CLUSTER_BASES:
    for size in (2, 3, 5):
      for spot in SPOTS:
        for count in (1, 2, 3):
          yield ('chain', base, size, spot, count)


ALIGN_BASES = [1.0, 17.0, 0.5, 1023.0, 2.0 ** 40]


def align_specs(tier):
  for base in (ALIGN_BASES if tier == 'thorough' else ALIGN_BASES[:3]):
    # offsets around the start of the binade and in its interior (17.0 + 139 floats is where a
    # 3-float paste was seen to need the enclosing-range search)
    for k in list(range(16)) + ([128 + i for i in range(16)] if tier == 'thorough' else [139, 140]):
      yield ('align', base, k)


def tree_specs(tier):
  # The first gap choice is part of the spec so that the tree splits into parallel chunks.
  for base in (1.0, 2.0 ** 52 - 2, 5e-324):
    for size in (2, 3):
      for variant in ('tie', 'after'):
        for first in range(size + 1):
          yield ('tree', base, size, variant, first)


def gap_request(positions, gap, variant):
  """A request that falls into gap `gap` (0 = before the first row, len = after the last)."""
  if gap == len(positions):
    return INF
  if gap == 0:
    return positions[0] if variant == 'tie' else -INF
  return positions[gap] if variant == 'tie' else up(positions[gap - 1])


def run_tree(E, positions, variant, depth, first=None):
  if depth == 0:
    return
  for gap in ([first] if first is not None else range(len(positions) + 1)):
    nxt = evaluate(E, positions, [gap_request(positions, gap, variant)])
    if nxt is not None:
      run_tree(E, nxt, variant, depth - 1)


def worker(job):
  tier, spec = job
  B = bounds(tier)
  E = Enum(PartReport('C20'), rule='')
  if spec[0] == 'grid':
    alpha = alphabet(tier)
    for existing in spec[1]:
      for batch in batches(alpha, B['max_batch']):
        evaluate(E, existing, batch)
      if B['big_batch'] and len(existing) <= B['big_batch'][0]:
        for batch in batches(alpha, None, exact=B['big_batch'][1]):
          evaluate(E, existing, batch)
  elif spec[0] == 'chain':
    _, base, size, spot, count = spec
    positions = [up(base, i) for i in range(size)]
    for _ in range(B['chain_steps']):
      positions = evaluate(E, positions, spot_requests(positions, spot, count))
      if positions is None:
        break
  elif spec[0] == 'align':
    # D: the left neighbour at every offset of an aligned block of 16 floats, a gap of 1-3 floats
    # to the next row (optionally a further row 1 float beyond), and every batch of 2-3 requests
    # drawn from the floats of the gap and its two ends
    _, base, k = spec
    a = up(base, k)
    for gap in (1, 2, 3):
      for tail in ((), (1,), (4,)):
        existing = [a, up(a, gap)] + [up(a, gap + t) for t in tail]
        menu = [up(a, i) for i in range(0, gap + 1)]
        for m in (2, 3):
          for batch in itertools.product(menu, repeat=m):
            evaluate(E, existing, list(batch))
  elif spec[0] == 'tree':
    _, base, size, variant, first = spec
    run_tree(E, [up(base, i) for i in range(size)], variant, B['tree_depth'], first)
  return part_of(E)


def run(tier, report):
  B = bounds(tier)
  alpha = alphabet(tier)
  E = Enum(report, rule=(
      'A: every sorted list of <= %d distinct existing positions from the alphabet %s (less inf) x '
      'every ordered batch of <= %d requested positions from the alphabet + -inf (duplicates and '
      'ties included)%s; B: chains of %d successive batches (1-3 equal requests) at one spot %s of '
      'a cluster of 2/3/5 adjacent floats starting at %s, each result applied to form the next '
      'input; C: every sequence of <= %d single inserts into any gap (request = tie with the next '
      'row, or nextfloat of the previous one) from clusters of 2/3 adjacent floats at 1.0, 2^52-2, '
      '5e-324; D: left neighbour at each of 16 consecutive float offsets of an aligned block (bases '
      '1.0, 17.0, 0.5, ...), a gap of 1-3 floats, every batch of 2-3 requests from the floats of '
      'the gap and its ends.  One evaluation = one prepare_inserts call judged by the oracle; non-trivial = it '
      'returned at least one adjustment of an existing row (relabeling path) or raised.  Cases are '
      'distinct by construction: A enumerates each (list, batch) once, a case of B/C is an '
      'insertion history (spec + step / gap sequence), each generated once.'
      % (B['max_existing'], [fl(x) for x in alpha], B['max_batch'],
         ('; plus every batch of exactly %d requests for lists of <= %d' % (
             B['big_batch'][1], B['big_batch'][0])) if B['big_batch'] else '',
         B['chain_steps'], SPOTS, [fl(x) for x in CLUSTER_BASES], B['tree_depth'])))
  lists = list(existing_lists(tier))
  nchunks = 64 if tier == 'thorough' else 16
  jobs = [(tier, ('grid', lists[i::nchunks])) for i in range(nchunks)]
  jobs += [(tier, s) for s in chain_specs(tier)]
  jobs += [(tier, s) for s in tree_specs(tier)]
  jobs += [(tier, s) for s in align_specs(tier)]
  parts = pmap(worker, jobs)
  best = {}
  for part in parts:               # report the smallest failing case of each key
    for v in part['violations']:
      if v['key'] not in best or case_size(v['case']) < case_size(best[v['key']][1]):
        best[v['key']] = (v['message'], v['case'])
  for part in parts:
    for v in part['violations']:
      v['message'], v['case'] = best[v['key']]
    E.merge(part)
  E.finish(exhaustive=True, existing_lists=len(lists), chains=len(list(chain_specs(tier))),
           trees=len(list(tree_specs(tier))))
  report.assumptions.append('existing positions are pairwise distinct (the invariant this property '
                            'itself maintains) and finite (rows holding the default inf are not in '
                            'the sorted list given to prepare_inserts); NaN is not a position')
  report.assumptions.append('equal requests in one batch must come out in batch order (rows added '
                            'together keep their order); reported under its own key C20/tie-order')
  report.assumptions.append('prepare_inserts is a pure function of (existing positions, requests): '
                            'chains/trees only generate inputs, so a failing step replays alone')
  engine_part(tier, report)


def _engine_prop():
  # Second sentence of the property: "In every table, manualSort and other position columns hold
  # distinct values after any history" -- a monitor of the history explorer over the worlds whose
  # alphabets write positions (manualSort edits in W_look, parentPos/pagePos/tabPos via schema and
  # view edits in W_schema, record adds/removes in W_rec).
  from mc.histprop import HistProp
  from mc import worlds as W
  # W_pos drives PositionColumn.prepare_new_values itself: inserts and moves into a cluster of
  # adjacent floats (every one needs existing rows relabelled), on column objects that a
  # RenameTable has replaced; origin I keeps those objects (origin L reloads the document).
  from mc.monitors2 import Positions, PositionOrder
  names = ['W_look', 'W_schema', 'W_rec', 'W_pos']
  depth = W.depths_for(names, quick=1, thorough=2, overrides={'quick': {'W_look': 2, 'W_pos': 2},
                                                              'thorough': {'W_look': 3, 'W_pos': 3}})
  return HistProp('C20', lambda t: W.make(names), lambda w, t: [Positions(), PositionOrder()], depth,
                  origins={'quick': ('L', 'I'), 'thorough': ('L', 'I')}, rule='')


def engine_part(tier, report):
  from mc import explore
  P = _engine_prop()
  worlds = P.worlds(tier)
  total = explore.run([w for w in worlds if w.name != 'W_pos'], lambda w: P.monitors(w, tier),
                      P.depth[tier], origins=('L',), split_levels=1, budget_s=600)
  tpos = explore.run([w for w in worlds if w.name == 'W_pos'], lambda w: P.monitors(w, tier),
                     P.depth[tier], origins=('L', 'I'), split_levels=1, budget_s=600)
  total.histories += tpos.histories
  total.states |= tpos.states
  total.errors += tpos.errors
  for k, v in tpos.violations.items():
    total.violations.setdefault(k, v)
  report.coverage['engine_position_columns_checked'] = (
      total.extra.get('position_columns_checked', 0) + tpos.extra.get('position_columns_checked', 0))
  total.violations = {k: v for k, v in total.violations.items()
                      if k.startswith('C20/') or '/monitor-exception/' in k}
  report.coverage['engine_histories'] = total.histories
  report.coverage['engine_states'] = len(total.states)
  report.coverage['engine_depth'] = P.depth[tier]
  report.coverage['engine_rule'] = ('history explorer over W_look/W_schema/W_rec/W_pos (origins L and I): '
                                    'after every successful bundle every PositionNumber/ManualSortPos '
                                    'column of every table holds pairwise distinct finite values, rows '
                                    'the bundle did not place keep their order, and every row placed '
                                    'by a single add/update action sits where its requested position '
                                    'falls among them (W_pos: inserts/moves into a cluster of adjacent '
                                    'floats behind a RenameTable)')
  report.merge_violations(total.violations.values())
  if total.errors:
    report.add_violation('C20/harness-error', "explorer unit failed: %s" % total.errors[0][:1200])


def replay(viol):
  if 'history' in viol:
    return _engine_prop().replay(viol)
  c = viol['case']
  existing = [float(x) for x in c['existing']]
  requests = [float(x) for x in c['requests']]
  try:
    adjustments, new_keys = call(existing, requests)
  except Exception as e:   # pylint: disable=broad-except
    print("prepare_inserts(%s, %s) raised %s" % (c['existing'], c['requests'], H.exc_text(e)))
    print("VIOLATION property=C20 replay=(this file) reproduced")
    return 1
  bad, _ = oracle(existing, requests, adjustments, new_keys)
  print("adjustments=%s new=%s -> %s" % (adjustments, new_keys, bad))
  if bad:
    print("VIOLATION property=C20 replay=(this file) reproduced")
    return 1
  return 0
