"""C17 Renames inside access rules and conditions are exact (exhaustive enumeration).

Documents holding many predicate formulas at once (ACL rule formulas, dropdown conditions, trigger
conditions in text and config mode, ACL resource column lists, user-attribute lookup columns) are
built through user actions; every rename case of a fixed list is applied to a fresh copy of every
document; every stored rule/condition is then compared with a reference that is written on the
*parsed tree* (predicate_formula.parse_predicate_formula is the trusted parser, see C40) and on a
small lexer of my own:

  * parse(new text) == old tree with exactly the references the statement lists renamed
    (ACL: rec.X/newRec.X/$X for the table of the rule's resource, user.Attr.X for the table of the
    user attribute; dropdown: rec.X/$X for the column's table, choice.X for the referenced table;
    trigger: rec.X/oldRec.X/$X for the trigger's table);
  * the stored parsed form == parse(new text) (as JSON);
  * token-wise, old and new text differ only in NAME tokens old-name -> new-name, and in exactly
    as many as the tree says (so strings, comments, spacing, `$` stay as they were);
  * formulas the trusted parser rejects are byte-identical, their stored parsed form unchanged;
  * colIds lists are renamed element-wise, lookupColId follows its table, everything else in the
    records is unchanged.
"""
import ast
import json
import os
import re
import itertools

from mc import harness as H
from mc.enumprop import Enum, PartReport, part_of, pmap

import predicate_formula as PF          # trusted parser (verified by C40), used as a tool

LEVEL = 'exploration'

# ----------------------------------------------------------------------------------------------
# The formula space
# ----------------------------------------------------------------------------------------------

# Atoms that mention the column name X (or Y / rec / R) in every syntactic role the statement
# names, plus look-alikes that must never be renamed.
LEAVES_CORE = [
    'rec.X', '$X', 'newRec.X', 'oldRec.X', 'choice.X', 'user.Attr.X', 'user.Tea.X', 'user.X', 'X',
    "'X'", 'rec.Y', 'rec.X.X',
]
LEAVES_MORE = [
    '$Y', 'choice.Y', 'user.Attr.Y', 'user.Nope.X', 'user.Loose.X', 'user.Gone.X',
    '$X.X', 'choice.X.X', 'user.Attr.X.X', 'newRec.X.Y', 'oldRec.Y.X',
    'rec.choice.X', 'choice.rec.X', 'rec.user.Attr.X', 'user.rec.X', 'foo.X', 'foo.rec.X',
    'rec.rec', '$rec', 'choice.rec', 'user.Attr.rec', 'rec.rec.rec', 'newRec.rec', 'oldRec.rec',
    '(rec).X', '(user.Attr).X', '(user).Attr.X', 'rec .X', 'rec. X', 'rec.\\\n X', '$X .X',
    'rec.XX', 'rec.x', '$XX', '$X2', 'rec.X_', 'Xrec.X', 'rec.Xrec', 'rec.X()', 'rec.X(rec.X)',
    'user.Attr', 'rec', 'choice', 'user', '"$X"', "'rec.X'", "'''$X rec.X'''", 'rec.R', '$R.X',
    'rec.R.X',
]
LEAVES_ALL = LEAVES_CORE + LEAVES_MORE
LEAVES_Q = ['rec.X', '$X', 'newRec.X', 'oldRec.X', 'choice.X', 'user.Attr.X']
LEAVES_T = ['rec.X', '$X', 'newRec.X', 'oldRec.X', 'choice.X', 'user.Attr.X', 'X', "'X'"]

# One-hole contexts: supported syntax, unsupported syntax (Python accepts it, the predicate
# subset does not), and broken text (Python rejects it).  The classification used at run time
# is computed, not taken from these lists.
UNARY = [
    '{a}', 'not {a}', '({a})', '{a} ', '{a} is None', '{a} is not None',
    '{a} == 1  # X rec.X $X user.Attr.X', "{a} in ['X', \"rec.X\", '$X']", 'f({a})', 'f(k={a})',
    'f(X={a})', '{a}.lower() == "x"', '[{a}, 1] == 2', '({a}, $X)', '(\n  {a}\n)',
    '({a}\r\n or 1)', '(\t{a}\x0c)', '"ünî\U0001F600" == {a}',
    '{a} == "ünî\U0001F600" or {a} != 1', '{a}\n', '\n{a}', '{a} #', '{a}#X',
    'True and {a}', '1.5 + {a}', '0x1F - {a}', '{a} != None and {a} > 1e3',
    # unsupported
    '-{a}', '+{a} == 1', '{a}[0]', '{a} if {a} else 1', '{a} < {a} < 3', 'lambda: {a}',
    '{a} ** 2', '{a} // 2', '[{a} for x in y]', '{{a}: 1}', 'f(**{a})', 'f(*{a})',
    '{a} == b"x"', '{a} == 1j', '{a} == ...', 'f"{{a}}"', '{a} | 1', '~{a}', '{a} == 1e999',
    '{a} = 1', '{a}; 1', '{a}\n{a}', 'if {a}: 1',
    # broken
    ' {a}', '{a} +', '({a}', "{a} == 'X", '{a} ?', '{a} {a}', '{a} $ 1', '$ {a}', '{a} and $$X',
    '{a} or rec.$X', '{a} not', '{a} == 0777', '{a})',
]
BINARY_Q = ['{a} == {b}', '{a} and {b}', '{a} + {b} > 0', 'f({a}, k={b})']
BINARY_T = BINARY_Q + ['{a} or not {b}', '{a} in ({b}, 1)', '{a} not in [{b}]', '{a} % {b} != 0',
                       '({a}\n  <= {b})', '{a} is not {b}', '{a}.f({b})', '{a} != {b} # {a}']
TERNARY = ['{a} and {b} or {c}', '({a} - {b}) * {c} / 2 > 0', 'f({a}, [{b}, {c}])']
FIXED = [
    'rec.X == choice.X and user.Attr.X != newRec.X or oldRec.X in [$X, X, "X"]  # rec.X',
    '( rec.X !=  # ünîcødé comment X\n  user.Attr.X)',
    '( $X not in rec.Y or $Y + $X == rec.X)',
    'True', '1', '"X"', 'None', 'not', '$', ' ', '#', '# X', 'rec.X # $X\n# rec.X',
    'DOLLARX == $X', 'rec.DOLLARX != $X or DOLLAR',
]


def _dedup(seq):
  seen = set()
  out = []
  for s in seq:
    if s not in seen:
      seen.add(s)
      out.append(s)
  return out


def leaf_formulas():
  return _dedup([a for a in LEAVES_ALL] + FIXED)


def full_formulas(tier):
  out = []
  leaves1 = LEAVES_CORE if tier == 'quick' else LEAVES_ALL
  for t in UNARY:
    for a in leaves1:
      out.append(t.replace('{a}', a))
  bins, leaves2 = (BINARY_Q, LEAVES_Q) if tier == 'quick' else (BINARY_T, LEAVES_CORE)
  for t in bins:
    for a, b in itertools.product(leaves2, repeat=2):
      out.append(t.replace('{a}', a).replace('{b}', b))
  if tier != 'quick':
    for t in TERNARY:
      for a, b, c in itertools.product(LEAVES_T, repeat=3):
        out.append(t.replace('{a}', a).replace('{b}', b).replace('{c}', c))
  return _dedup(out)


_PARSE_CACHE = {}


def tparse(text):
  """Trusted parse -> JSON-normalised tree, or None if the text is not a predicate formula."""
  if text not in _PARSE_CACHE:
    try:
      tree = json.loads(json.dumps(PF.parse_predicate_formula(text))) if text else None
    except Exception:      # pylint: disable=broad-except
      tree = None
    _PARSE_CACHE[text] = tree
  return _PARSE_CACHE[text]


def python_accepts(text):
  """Only used to decide which document a text goes to (never by the oracle)."""
  try:
    ast.parse(re.sub(r'\$(?=[A-Za-z_])', 'rec.', text))
    return True
  except Exception:        # pylint: disable=broad-except
    return False


# ----------------------------------------------------------------------------------------------
# Documents
# ----------------------------------------------------------------------------------------------

BASE_COLS = ['X', 'Y', 'rec']
USER_ATTRS = [
    {'name': 'Attr', 'charId': 'Email', 'tableId': 'T3', 'lookupColId': 'X'},
    {'name': 'Tea', 'charId': 'X', 'tableId': 'T1', 'lookupColId': 'Y'},
    {'name': 'Loose', 'tableId': 'T3', 'charId': 'Email', 'lookupColId': 'Y'},
    {'name': 'Gone', 'charId': 'Email', 'tableId': 'Nowhere', 'lookupColId': 'X'},
    {'name': 'Same', 'charId': 'Email', 'tableId': 'T2', 'lookupColId': 'rec'},
]
EXTRA_RESOURCES = [('T1', 'X,Y'), ('T1', 'Y,X,rec'), ('T1', 'X'), ('T1', 'Z,X,X'), ('T2', 'X,Y'),
                   ('T3', 'Y,X'), ('T4', 'X,Y'), ('T4', '*'), ('T5', 'rec,X')]
PRIMARY = ['acl:T1:*', 'dc:T1:Ref:T2', 'trt:T1', 'trc:T1']
SECONDARY = ['acl:T1:X,Y', 'acl:*:*', 'acl:T2:*', 'acl:T3:*', 'acl:T4:*',
             'dc:T1:RefList:T2', 'dc:T1:Text', 'dc:T5:Ref:T1', 'dc:T2:Ref:T2', 'dc:T4:Ref:T4',
             'dc:T3:Choice', 'trt:T4', 'trc:T3', 'trb:T2', 'trt:T2']
WOPT_EXTRA = {'alignment': 'left', 'choices': ['X', 'rec.X'], 'note': '$X'}
FILTERS = [{'colRef': 2, 'filter': '{"included": ["X"]}'}]


def _wopt(text):
  w = dict(WOPT_EXTRA)
  w['dropdownCondition'] = {'text': text}
  return json.dumps(w)


def _trigger_condition(kind, text, valid):
  if kind == 'trt':
    c = {'text': text}
    if not valid:
      c['parsed'] = None        # a present 'parsed' makes the engine store the text as given
    return json.dumps(c)
  if kind == 'trc':
    cfg = {'columnFilters': FILTERS, 'requiredColumns': [2], 'customExpression': text}
    if not valid:
      cfg['customExpressionParsed'] = None
    return json.dumps({'config': cfg})
  # both: text mode wins at creation, the config expression is stored unparsed
  c = {'text': text, 'config': {'columnFilters': FILTERS, 'customExpression': text}}
  if not valid:
    c['parsed'] = None
  return json.dumps(c)


def build_doc(placements, dual_rule=False, attrs_last=False):
  """
  placements: list of (location, text).  Returns {'snap', 'before'}.  Valid formulas go in
  through the user actions that parse them; texts the parser rejects go in through the routes
  that store them unparsed (AddTable widgetOptions, a preset 'parsed' key for triggers, and for
  ACL rules a patch of the snapshot, since no user action stores an unparsed ACL formula).
  """
  doc = H.Doc.new()
  dc_cols = {}      # table -> list of (colId, type, text)
  acl = []          # (tableId, colIds, text)
  trig = []         # (kind, table, text)
  for loc, text in placements:
    parts = loc.split(':')
    if parts[0] == 'acl':
      acl.append((parts[1], parts[2], text))
    elif parts[0] == 'dc':
      lst = dc_cols.setdefault(parts[1], [])
      lst.append(('D%d' % (len(lst) + 1), ':'.join(parts[2:]), text))
    else:
      trig.append((parts[0], parts[1], text))

  def cols_of(t):
    base = [{'id': c, 'type': 'Text', 'isFormula': False} for c in BASE_COLS]
    if t == 'T1':
      base[0] = {'id': 'X', 'type': 'Ref:T2', 'isFormula': False,
                 'widgetOptions': _wopt('choice.X == $X and rec.Y != choice.Y')}
      base.append({'id': 'R', 'type': 'Ref:T2', 'isFormula': False})
    for cid, typ, text in dc_cols.get(t, []):
      base.append({'id': cid, 'type': typ, 'isFormula': False, 'widgetOptions': _wopt(text)})
    return base
  for t in ('T2', 'T3', 'T4', 'T1', 'T5'):
    doc.apply([['AddTable', t, cols_of(t)]])
  tabs = doc.fetch('_grist_Tables')
  tref = dict(zip(tabs[3]['tableId'], tabs[2]))
  tcs = doc.fetch('_grist_Tables_column')
  colref = {(p, c): r for r, p, c in zip(tcs[2], tcs[3]['parentId'], tcs[3]['colId'])}
  # (re)store the valid dropdown conditions through the parsing path
  ids, vals = [colref[(tref['T1'], 'X')]], [_wopt('choice.X == $X and rec.Y != choice.Y')]
  for t, lst in sorted(dc_cols.items()):
    for cid, _typ, text in lst:
      if tparse(text) is not None:
        ids.append(colref[(tref[t], cid)])
        vals.append(_wopt(text))
  doc.apply([['BulkUpdateRecord', '_grist_Tables_column', ids, {'widgetOptions': vals}]])

  # ACL resources and rules
  res_keys = _dedup([('*', '*')] + EXTRA_RESOURCES + [(t, c) for t, c, _ in acl])
  doc.apply([['BulkAddRecord', '_grist_ACLResources', [None] * len(res_keys),
              {'tableId': [k[0] for k in res_keys], 'colIds': [k[1] for k in res_keys]}]])
  res = doc.fetch('_grist_ACLResources')
  resid = {(t, c): r for r, t, c in zip(res[2], res[3]['tableId'], res[3]['colIds'])}
  attr_rules = [{'resource': resid[('*', '*')], 'userAttributes': json.dumps(ua), 'aclFormula': '',
                 'permissionsText': '', 'memo': ''} for ua in USER_ATTRS]
  # attrs_last: the rules defining the user attributes get HIGHER row ids than the rules whose
  # formulas mention them (user attributes may be added at any time; order is rulePos, not id)
  rules = [] if attrs_last else list(attr_rules)
  if dual_rule:
    # A rule that both defines a user attribute and carries a formula.
    rules.append({'resource': resid[('T3', 'Y,X')], 'aclFormula': 'user.Attr.X == rec.X',
                  'userAttributes': json.dumps({'name': 'Both', 'charId': 'Email',
                                                'tableId': 'T3', 'lookupColId': 'X'}),
                  'permissionsText': 'all', 'memo': ''})
  unparsed = {}
  for t, c, text in acl:
    valid = tparse(text) is not None or not text
    if not valid:
      unparsed[len(rules)] = text
    rules.append({'resource': resid[(t, c)], 'aclFormula': text if valid else '',
                  'userAttributes': '', 'permissionsText': '+R-U', 'memo': 'memo rec.X $X X'})
  if attrs_last:
    rules.extend(attr_rules)
  n0 = len(doc.fetch('_grist_ACLRules')[2])
  doc.apply([['BulkAddRecord', '_grist_ACLRules', [None] * len(rules),
              {k: [r[k] for r in rules] for k in rules[0]}]])
  # triggers
  if trig:
    doc.apply([['BulkAddRecord', '_grist_Triggers', [None] * len(trig), {
        'tableRef': [tref[t] for _, t, _ in trig],
        'condition': [_trigger_condition(k, text, tparse(text) is not None)
                      for k, _, text in trig],
        'label': ['trigger rec.X'] * len(trig),
    }]])
  snap = doc.snapshot()
  if unparsed:
    rep = json.loads(snap['_grist_ACLRules'])
    for idx, text in unparsed.items():
      assert rep[3]['aclFormula'][n0 + idx] == ''
      rep[3]['aclFormula'][n0 + idx] = text
      rep[3]['aclFormulaParsed'][n0 + idx] = ''
    snap['_grist_ACLRules'] = json.dumps(rep)
  before = read_state(H.Doc.load(snap))
  check_setup(before, placements, dual_rule)
  return {'snap': snap, 'before': before}


META = ['_grist_Tables', '_grist_Tables_column', '_grist_ACLResources', '_grist_ACLRules',
        '_grist_Triggers']


def read_state(doc):
  out = {}
  for tid in META:
    rep = doc.fetch(tid)
    cols = sorted(rep[3])
    out[tid] = {str(r): {c: rep[3][c][i] for c in cols} for i, r in enumerate(rep[2])}
  return json.loads(json.dumps(out))


def check_setup(state, placements, dual_rule):
  """The built document must hold exactly the intended texts, consistently parsed."""
  want = sorted(text for _, text in placements if text)
  got = []
  for ctx, ident, rec in instances(state):
    got.append(rec['text'])
    tree = tparse(rec['text'])
    if tree is not None and rec['has_parsed'] and rec['parsed'] != tree:
      raise RuntimeError("setup: %s %s stored parsed form differs from parse(%r)" % (
          ctx, ident, rec['text']))
    if tree is not None and not rec['has_parsed'] and not ctx.startswith('trigger-both'):
      raise RuntimeError("setup: %s %s has no parsed form for %r" % (ctx, ident, rec['text']))
  fixed = ['choice.X == $X and rec.Y != choice.Y'] + (['user.Attr.X == rec.X'] if dual_rule else [])
  both = [text for loc, text in placements if loc.startswith('trb:') and text]
  if sorted(got) != sorted(want + fixed + both):
    raise RuntimeError("setup: stored formulas differ from the intended ones: %r" % (
        sorted(set(got) ^ set(want + fixed + both))[:5],))


def _loads(text):
  try:
    return json.loads(text)
  except (TypeError, ValueError):
    return None


def instances(state):
  """
  Yields (context, ident, rec) for every stored formula: rec has text, parsed (JSON value or
  None), has_parsed, roots (root name -> table id), attrs (user attribute -> table) or None.
  """
  tables = {int(r): v['tableId'] for r, v in state['_grist_Tables'].items()}
  attrs = {}
  for r, rule in sorted(state['_grist_ACLRules'].items(), key=lambda kv: int(kv[0])):
    info = _loads(rule['userAttributes']) if rule['userAttributes'] else None
    if isinstance(info, dict):
      attrs[info.get('name')] = info.get('tableId')
  for r, rule in state['_grist_ACLRules'].items():
    if rule['aclFormula']:
      resrec = state['_grist_ACLResources'].get(str(rule['resource']), {})
      t = resrec.get('tableId')
      stored = rule['aclFormulaParsed']
      yield ('acl', 'rule %s on %s[%s]' % (r, t, resrec.get('colIds')), {
          'text': rule['aclFormula'], 'has_parsed': bool(stored),
          'parsed': _loads(stored) if stored else None,
          'roots': {'rec': t, 'newRec': t}, 'attrs': attrs})
  for r, col in state['_grist_Tables_column'].items():
    w = _loads(col['widgetOptions']) if col['widgetOptions'] else None
    if isinstance(w, dict) and isinstance(w.get('dropdownCondition'), dict):
      dc = w['dropdownCondition']
      t = tables[col['parentId']]
      m = re.match(r'^(?:Ref|RefList):(\w+)$', col['type'])
      yield ('dropdown', 'column %s (%s.%s, %s)' % (r, t, col['colId'], col['type']), {
          'text': dc.get('text'), 'has_parsed': 'parsed' in dc,
          'parsed': _loads(dc['parsed']) if isinstance(dc.get('parsed'), str) else dc.get('parsed'),
          'roots': {'rec': t, 'choice': m.group(1) if m else None}, 'attrs': None})
  for r, trig in state['_grist_Triggers'].items():
    c = _loads(trig['condition']) if trig['condition'] else None
    if not isinstance(c, dict):
      continue
    t = tables[trig['tableRef']]
    roots = {'rec': t, 'oldRec': t}
    both = 'text' in c and isinstance(c.get('config'), dict)
    if 'text' in c:
      yield ('trigger-both/text' if both else 'trigger-text', 'trigger %s on %s' % (r, t), {
          'text': c['text'], 'has_parsed': 'parsed' in c, 'parsed': c.get('parsed'),
          'roots': roots, 'attrs': None})
    cfg = c.get('config')
    if isinstance(cfg, dict) and cfg.get('customExpression'):
      yield ('trigger-both/config' if both else 'trigger-config', 'trigger %s on %s' % (r, t), {
          'text': cfg['customExpression'], 'has_parsed': 'customExpressionParsed' in cfg,
          'parsed': cfg.get('customExpressionParsed'), 'roots': roots, 'attrs': None})


# ----------------------------------------------------------------------------------------------
# Reference
# ----------------------------------------------------------------------------------------------

NARY = {'And', 'Or', 'Add', 'Sub', 'Mult', 'Div', 'Mod', 'Not', 'Eq', 'NotEq', 'Lt', 'LtE', 'Gt',
        'GtE', 'Is', 'IsNot', 'In', 'NotIn', 'List'}


def tree_rename(tree, roots, attrs, renames):
  """The old tree with exactly the listed references renamed; returns (tree, [(old, new)...])."""
  done = []

  def walk(t):
    kind = t[0]
    if kind in ('Const', 'Name'):
      return t
    if kind == 'Attr':
      sub, name = t[1], t[2]
      new = None
      if sub[0] == 'Name' and sub[1] in roots:
        new = renames.get((roots[sub[1]], name))
      elif attrs is not None and sub[0] == 'Attr' and sub[1] == ['Name', 'user']:
        new = renames.get((attrs.get(sub[2]), name))
      if new is not None:
        done.append((name, new))
        name = new
      return ['Attr', walk(sub), name]
    if kind == 'Comment':
      return ['Comment', walk(t[1]), t[2]]
    if kind == 'Call':
      out = ['Call']
      for x in t[1:]:
        if x and x[0] == 'keywords':
          out.append(['keywords'] + [[kv[0], walk(kv[1])] for kv in x[1:]])
        else:
          out.append(walk(x))
      return out
    if kind in NARY:
      return [kind] + [walk(x) for x in t[1:]]
    raise RuntimeError("reference: unknown node %r" % (t,))
  return walk(tree), done


LEX = re.compile(r'''
   (?P<ws>[ \t\f\r\n]+|\\\r?\n)
  |(?P<comment>\#[^\r\n]*)
  |(?P<string>[rRbBuUfF]{0,2}(?:\'\'\'(?:\\.|[^\\])*?\'\'\'|"""(?:\\.|[^\\])*?"""
              |'(?:\\.|[^'\\\n])*'|"(?:\\.|[^"\\\n])*"))
  |(?P<number>\d\w*(?:\.\d\w*)?)
  |(?P<name>[^\W\d]\w*)
  |(?P<op>.)
''', re.X | re.S)


def lex(text):
  return [(m.lastgroup, m.group(0)) for m in LEX.finditer(text)]


def text_diff(old, new, pairs):
  """
  None if new differs from old only in NAME tokens changed old-name -> new-name for the given
  multiset of (old, new) pairs, else a description.
  """
  a, b = lex(old), lex(new)
  if len(a) != len(b):
    return "token count changed (%d -> %d)" % (len(a), len(b))
  left = list(pairs)
  for (ka, ta), (kb, tb) in zip(a, b):
    if ta == tb and ka == kb:
      continue
    if ka == 'name' and kb == 'name' and (ta, tb) in left:
      left.remove((ta, tb))
      continue
    return "%s token %r became %r" % (ka, ta, tb)
  if left:
    return "fewer name tokens changed than references renamed (missing %r)" % (left,)
  return None


def column_renames(before, after):
  tables = {int(r): v['tableId'] for r, v in before['_grist_Tables'].items()}
  out = {}
  for r, col in before['_grist_Tables_column'].items():
    now = after['_grist_Tables_column'].get(r)
    if now is not None and now['colId'] != col['colId']:
      out[(tables[col['parentId']], col['colId'])] = now['colId']
  return out


def without(d, *keys):
  return {k: v for k, v in d.items() if k not in keys}


def evaluate(before, after):
  """Yields ('ok', nontrivial, sample) per checked item or ('bad', key, message, ident)."""
  renames = column_renames(before, after)
  for tid in ('_grist_Tables', '_grist_ACLResources', '_grist_ACLRules', '_grist_Triggers'):
    if sorted(before[tid]) != sorted(after[tid]):
      yield ('bad', 'C17/rows-changed/' + tid, "row ids of %s changed" % tid, tid)
      return
  if before['_grist_Tables'] != after['_grist_Tables']:
    yield ('bad', 'C17/tables-changed', "a column rename changed _grist_Tables", '_grist_Tables')

  # -- resources: element-wise --------------------------------------------------------------
  for r, res in before['_grist_ACLResources'].items():
    now = after['_grist_ACLResources'][r]
    want = res['colIds']
    if want and want != '*':
      want = ','.join(renames.get((res['tableId'], c), c) for c in want.split(','))
    ident = 'resource %s %s[%s]' % (r, res['tableId'], res['colIds'])
    if now['colIds'] != want or now['tableId'] != res['tableId']:
      yield ('bad', 'C17/acl-resource/colIds', "%s: expected colIds %r, got %s[%r]" % (
          ident, want, now['tableId'], now['colIds']), ident)
    else:
      yield ('ok', want != res['colIds'], None)

  # -- user attributes ----------------------------------------------------------------------
  for r, rule in before['_grist_ACLRules'].items():
    now = after['_grist_ACLRules'][r]
    ident = 'rule %s' % r
    if without(rule, 'aclFormula', 'aclFormulaParsed', 'userAttributes') != \
       without(now, 'aclFormula', 'aclFormulaParsed', 'userAttributes'):
      yield ('bad', 'C17/acl/other-fields', "%s: fields other than the formula changed: %r -> %r"
             % (ident, rule, now), ident)
    info = _loads(rule['userAttributes']) if rule['userAttributes'] else None
    if not isinstance(info, dict):
      if now['userAttributes'] != rule['userAttributes']:
        yield ('bad', 'C17/acl/user-attr-lookup', "%s: userAttributes %r became %r" % (
            ident, rule['userAttributes'], now['userAttributes']), ident)
      continue
    want = dict(info)
    new = renames.get((info.get('tableId'), info.get('lookupColId')))
    if new is not None:
      want['lookupColId'] = new
    if _loads(now['userAttributes']) != want:
      kind = 'rule-with-formula' if rule['aclFormula'] else 'plain'
      yield ('bad', 'C17/acl/user-attr-lookup/' + kind, "%s: expected userAttributes %s, got %s "
             "(renames %s)" % (ident, json.dumps(want), now['userAttributes'], fmt(renames)), ident)
    else:
      yield ('ok', new is not None, None)

  # -- formulas -----------------------------------------------------------------------------
  olds = {(c, i): rec for c, i, rec in instances(before)}
  news = {}
  for c, i, rec in instances(after):
    # the ident of a column / resource may legitimately contain a renamed name: key by row
    news[(c, i.split(' (')[0].split(' on ')[0])] = rec
  for (ctx, ident), old in olds.items():
    new = news.get((ctx, ident.split(' (')[0].split(' on ')[0]))
    where = "%s %s" % (ctx, ident)
    kctx = ctx.replace('trigger-both/', 'trigger-')      # finding keys: by kind of expression
    if new is None:
      yield ('bad', 'C17/%s/vanished' % kctx, "%s: condition %r is gone" % (where, old['text']),
             where)
      continue
    tree = tparse(old['text']) if isinstance(old['text'], str) else None
    if tree is None:
      if new['text'] != old['text'] or new['has_parsed'] != old['has_parsed'] or \
         new['parsed'] != old['parsed']:
        yield ('bad', 'C17/%s/unparsable-touched' % kctx, "%s: unparsable %r became %r (parsed %r "
               "-> %r)" % (where, old['text'], new['text'], old['parsed'], new['parsed']), where)
      else:
        yield ('ok', False, None)
      continue
    want, pairs = tree_rename(tree, old['roots'], old['attrs'], renames)
    got = tparse(new['text']) if isinstance(new['text'], str) else None
    told = "%s: %r -> %r under renames %s" % (where, old['text'], new['text'], fmt(renames))
    if got != want:
      if got is None:
        kind = 'no-longer-parses'
      elif got == tree:
        kind = 'not-renamed'
      elif want == tree:
        kind = 'renamed-but-should-not'
      else:
        kind = 'wrong-rename'
      yield ('bad', 'C17/%s/%s' % (kctx, kind), "%s; expected tree %s, got %s" % (
          told, json.dumps(want), json.dumps(got)), where)
      continue
    diff = text_diff(old['text'], new['text'], pairs)
    if diff:
      yield ('bad', 'C17/%s/other-text-changed' % kctx, "%s; %s" % (told, diff), where)
      continue
    if new['has_parsed'] or pairs:
      if not new['has_parsed'] or new['parsed'] != got:
        yield ('bad', 'C17/%s/stored-parsed-stale' % kctx, "%s; stored parsed form %s, "
               "parse(new text) = %s" % (told, json.dumps(new['parsed']), json.dumps(got)), where)
        continue
    yield ('ok', bool(pairs), {'where': where, 'old': old['text'], 'new': new['text'],
                               'renames': fmt(renames)} if pairs else None)

  # -- the rest of widgetOptions / trigger conditions ------------------------------------------
  for r, col in before['_grist_Tables_column'].items():
    now = after['_grist_Tables_column'].get(r)
    if now is None:
      continue
    a, b = _loads(col['widgetOptions'] or 'null'), _loads(now['widgetOptions'] or 'null')
    if isinstance(a, dict) and isinstance(b, dict):
      a, b = dict(a), dict(b)
      for w in (a, b):
        if isinstance(w.get('dropdownCondition'), dict):
          w['dropdownCondition'] = without(w['dropdownCondition'], 'text', 'parsed')
    if a != b:
      yield ('bad', 'C17/dropdown/other-options-changed', "column %s: widgetOptions %r -> %r" % (
          r, col['widgetOptions'], now['widgetOptions']), 'column %s' % r)
  for r, trig in before['_grist_Triggers'].items():
    now = after['_grist_Triggers'][r]
    a, b = _loads(trig['condition'] or 'null'), _loads(now['condition'] or 'null')
    if isinstance(a, dict) and isinstance(b, dict):
      a, b = without(a, 'text', 'parsed'), without(b, 'text', 'parsed')
      for w in (a, b):
        if isinstance(w.get('config'), dict):
          w['config'] = without(w['config'], 'customExpression', 'customExpressionParsed')
    if a != b or without(trig, 'condition') != without(now, 'condition'):
      yield ('bad', 'C17/trigger/other-fields-changed', "trigger %s: %r -> %r" % (r, trig, now),
             'trigger %s' % r)


def fmt(renames):
  return ', '.join('%s.%s->%s' % (t, c, n) for (t, c), n in sorted(renames.items())) or '(none)'


# ----------------------------------------------------------------------------------------------
# Rename cases
# ----------------------------------------------------------------------------------------------

def rename_cases(tier):
  """name -> list of bundles (each bundle is applied and checked on its own)."""
  def rc(t, c, n):
    return [['RenameColumn', t, c, n]]
  cases = []
  for t in ('T1', 'T2', 'T3', 'T4', 'T5'):
    cases.append(('fresh/%s.X' % t, [rc(t, 'X', 'Z')]))
  cases += [
      ('sanitise/T1.X', [rc('T1', 'X', 'a b!')]),
      ('collide/T1.X->Y', [rc('T1', 'X', 'Y')]),
      ('collide/T2.X->rec', [rc('T2', 'X', 'rec')]),
      ('keyword/T3.X->class', [rc('T3', 'X', 'class')]),
      ('other/T1.Y', [rc('T1', 'Y', 'Z')]),
      ('other/T3.Y', [rc('T3', 'Y', 'X2')]),
      ('other/T1.rec', [rc('T1', 'rec', 'Z')]),
      ('other/T2.rec', [rc('T2', 'rec', 'choice')]),
      ('noop/T1.X->X', [rc('T1', 'X', 'X')]),
      ('bulk/T1.X,T2.X,T3.X', [[['BulkUpdateRecord', '_grist_Tables_column', 'COLREFS:T1.X,T2.X,T3.X',
                                 {'colId': ['P', 'Q', 'S']}]]]),
      ('swap/T1.X<->Y', [[['BulkUpdateRecord', '_grist_Tables_column', 'COLREFS:T1.X,T1.Y',
                           {'colId': ['Y', 'X']}]]]),
  ]
  if tier != 'quick':
    cases += [
        ('sanitise/T2.X', [rc('T2', 'X', '1 x')]),
        ('sanitise/T3.X', [rc('T3', 'X', 'été X')]),
        ('collide/T3.X->Y', [rc('T3', 'X', 'Y')]),
        ('keyword/T1.X->None', [rc('T1', 'X', 'None')]),
        ('keyword/T2.X->lambda', [rc('T2', 'X', 'lambda')]),
        ('case/T1.X->x', [rc('T1', 'X', 'x')]),
        ('prefix/T1.X->XX', [rc('T1', 'X', 'XX')]),
        ('long/T2.X', [rc('T2', 'X', 'A_rather_long_column_identifier_0123456789')]),
        ('names/T1.X->user', [rc('T1', 'X', 'user')]),
        ('names/T3.X->Attr', [rc('T3', 'X', 'Attr')]),
        ('other/T2.Y', [rc('T2', 'Y', 'Z')]),
        ('other/T3.rec', [rc('T3', 'rec', 'Z')]),
        ('other/T1.R', [rc('T1', 'R', 'Q')]),
        ('other/T4.Y', [rc('T4', 'Y', 'Z')]),
        ('modify/T1.X', [[['ModifyColumn', 'T1', 'X', {'colId': 'Zed'}]]]),
        ('label/T2.X', [[['UpdateRecord', '_grist_Tables_column', 'COLREF:T2.X',
                          {'label': 'Zed Q'}]]]),
        ('sequence/T1.X->Z->X', [rc('T1', 'X', 'Z'), rc('T1', 'Z', 'X')]),
        ('sequence/T1.X,T2.X,T3.X->Z', [rc('T1', 'X', 'Z'), rc('T2', 'X', 'Z'), rc('T3', 'X', 'Z')]),
        ('sequence/T1.X->Y2,Y->X', [rc('T1', 'X', 'Y2'), rc('T1', 'Y', 'X')]),
    ]
  return cases


def resolve(bundle, state):
  """Replace 'COLREF(S):T.c,...' placeholders by column row ids of the current state."""
  tables = {int(r): v['tableId'] for r, v in state['_grist_Tables'].items()}
  ref = {(tables[c['parentId']], c['colId']): int(r)
         for r, c in state['_grist_Tables_column'].items()}
  out = json.loads(json.dumps(bundle))
  for ua in out:
    for i, arg in enumerate(ua):
      if isinstance(arg, str) and arg.startswith('COLREFS:'):
        ua[i] = [ref[tuple(x.split('.'))] for x in arg[8:].split(',')]
      elif isinstance(arg, str) and arg.startswith('COLREF:'):
        ua[i] = ref[tuple(arg[7:].split('.'))]
  return out


# ----------------------------------------------------------------------------------------------
# Documents of a tier
# ----------------------------------------------------------------------------------------------

CHUNK = 320
BROKEN_CTX = [('acl', 'acl:T1:*'), ('dropdown', 'dc:T1:Ref:T2'), ('trigger-text', 'trt:T1'),
              ('trigger-config', 'trc:T1')]


_SPECS = {}


def doc_specs(tier):
  """[(name, placements, dual_rule)] - deterministic."""
  if tier not in _SPECS:
    _SPECS[tier] = _doc_specs(tier)
  return _SPECS[tier]


def _doc_specs(tier):
  leafs = leaf_formulas()
  full = [f for f in full_formulas(tier) if f not in set(leafs)]
  ok_leafs = [f for f in leafs if python_accepts(f)]
  ok_full = [f for f in full if python_accepts(f)]
  broken = [f for f in leafs + full if not python_accepts(f)]
  specs = [('locations', [(loc, f) for loc in PRIMARY + SECONDARY for f in ok_leafs], True),
           ('locations-attrs-last', [(loc, f) for loc in PRIMARY + SECONDARY for f in ok_leafs], True)]
  for k in range(0, len(ok_full), CHUNK):
    part = ok_full[k:k + CHUNK]
    specs.append(('formulas-%d' % (k // CHUNK), [(loc, f) for loc in PRIMARY for f in part], False))
  # Texts Python itself rejects: one document per context, next to a few valid formulas.
  for ctx, loc in BROKEN_CTX:
    pl = [(loc, f) for f in broken] + [(p, f) for p in PRIMARY for f in LEAVES_CORE]
    specs.append(('broken-in-' + ctx, pl, False))
  return specs


# The documents of broken texts get the renames of X in every table and the no-op only.
BROKEN_DOC_CASES = ('fresh/T1.X', 'fresh/T2.X', 'fresh/T3.X', 'fresh/T4.X', 'noop/T1.X->X')
# In the quick tier the 'formulas-k' documents (syntactic variety, all on T1) get these cases;
# the 'locations' document gets all of them.
QUICK_FORMULA_DOC_CASES = ('fresh/T1.X', 'fresh/T2.X', 'fresh/T3.X', 'fresh/T4.X', 'sanitise/T1.X',
                           'collide/T1.X->Y', 'other/T1.Y', 'noop/T1.X->X', 'bulk/T1.X,T2.X,T3.X',
                           'swap/T1.X<->Y')


def cases_for(tier, docname, cases):
  if docname.startswith('broken-in-'):
    return [c for c in cases if c[0] in BROKEN_DOC_CASES]
  if tier == 'quick' and docname.startswith('formulas-'):
    return [c for c in cases if c[0] in QUICK_FORMULA_DOC_CASES]
  return cases

_DOCS = {}


def get_doc(tier, name):
  if (tier, name) not in _DOCS:
    for n, placements, dual in doc_specs(tier):
      if n == name:
        _DOCS[(tier, name)] = build_doc(placements, dual, attrs_last=name.endswith('-attrs-last'))
  return _DOCS[(tier, name)]


def run_task(task):
  tier, docname, casename, bundles = task
  E = Enum(PartReport('C17'), rule='')
  info = get_doc(tier, docname)
  doc = H.Doc.load(info['snap'])
  state = info['before']
  for step, bundle in enumerate(bundles):
    case = {'tier': tier, 'doc': docname, 'case': casename, 'step': step}
    _g, err = doc.try_apply(resolve(bundle, state))
    if err is not None:
      E.evaluations += 1
      kind = docname[len('broken-in-'):] if docname.startswith('broken-in-') else 'valid-doc'
      key = ('C17/unparsable-blocks-rename/%s' % kind if isinstance(err, SyntaxError) and
             kind != 'valid-doc' else 'C17/rename-raised/%s/%s' % (kind, type(err).__name__))
      E.fail(key, "document '%s', case %s step %d: %s raised %s" % (
          docname, casename, step, json.dumps(bundle), H.exc_text(err)), case=case)
      break
    after = read_state(doc)
    for item in evaluate(state, after):
      E.evaluations += 1
      if item[0] == 'ok':
        if item[1]:
          E.nontrivial_count += 1
          if item[2] and len(E.samples) < 1:
            E.samples.append(item[2])
      else:
        E.fail(item[1], "document '%s', case %s step %d: %s" % (docname, casename, step, item[2]),
               case=dict(case, where=item[3]))
    state = after
  return part_of(E)


def run_group(tasks):
  return [run_task(t) for t in tasks]


def run(tier, report):
  specs = doc_specs(tier)
  cases = rename_cases(tier)
  nform = sum(len(p) for _, p, _ in specs)
  E = Enum(report, rule=(
      'formulas = %d one-hole contexts (supported / unsupported / broken syntax) x %d atoms '
      '+ %d two-hole contexts x %d^2 atoms%s + %d fixed texts, stored as ACL rule formula, dropdown '
      'condition, trigger text and trigger config expression on table T1 (%d documents of <= %d '
      'formulas), and every atom also at %d further locations (other tables, other resources, '
      'RefList/Text/self-referencing columns, text+config triggers); %d stored formulas in %d '
      'documents x %d rename cases (the documents of broken texts: 5 of them; in the quick tier '
      'the formulas-k documents: 10 of them; fresh / sanitised / colliding / keyword names, each of 5 tables, '
      'other columns, no-op, bulk and swap renames%s); one evaluation = one stored formula, '
      'resource or user attribute checked after one rename; non-trivial = at least one reference '
      'had to be renamed' % (
          len(UNARY), len(LEAVES_CORE if tier == 'quick' else LEAVES_ALL),
          len(BINARY_Q if tier == 'quick' else BINARY_T),
          len(LEAVES_Q if tier == 'quick' else LEAVES_CORE),
          '' if tier == 'quick' else ' + %d three-hole contexts x %d^3 atoms' % (
              len(TERNARY), len(LEAVES_T)),
          len(FIXED), len(specs), CHUNK, len(SECONDARY), nform, len(specs), len(cases),
          '' if tier == 'quick' else ', ModifyColumn / label paths, sequences of renames')))
  # Few long-lived workers, each building the documents it needs itself (the parent stays small):
  # on the shared box, system time (page faults) grows faster than linearly with the number of
  # engine-loading processes - measured for the same 45 s of work: 2 processes 15 s, 6 processes
  # 115 s, 16 processes 170-260 s of system time - so more workers make the run slower.
  nproc = int(os.environ.get('C17_PROCS', '0') or 0) or (4 if tier == 'quick' else 6)
  units = []                         # (cost, [tasks of one document, one slice of the cases])
  for name, placements, _d in specs:
    mine = [(tier, name, cname, bundles) for cname, bundles in cases_for(tier, name, cases)]
    nsplit = 3 if name == 'locations' else 2 if len(mine) > 8 else 1
    for k in range(nsplit):
      part = mine[k::nsplit]
      units.append((len(placements) * (1 + sum(len(t[3]) for t in part)), part))
  groups = [[0, []] for _ in range(nproc)]
  for cost, part in sorted(units, key=lambda u: -u[0]):      # longest first, to the least loaded
    g = min(groups, key=lambda x: x[0])
    g[0] += cost
    g[1].extend(part)
  for parts in pmap(run_group, [g[1] for g in groups if g[1]]):
    for part in parts:
      E.merge(part)
  E.finish(exhaustive=True, documents=len(specs), rename_cases=len(cases), stored_formulas=nform)
  report.assumptions.append('predicate_formula.parse_predicate_formula is the trusted parser '
                            '(property C40); "does not parse" means that parser rejects the text')
  report.assumptions.append('the new column id is read from _grist_Tables_column after the rename '
                            '(sanitising and disambiguation are not part of this property)')
  report.assumptions.append('unparsable ACL formulas are put into the document by editing the '
                            'snapshot, since every user action on _grist_ACLRules parses')


def replay(viol):
  c = viol['case']
  bundles = dict(rename_cases(c['tier']))[c['case']]
  part = run_task((c['tier'], c['doc'], c['case'], bundles))
  hit = [v for v in part['violations'] if v['key'] == viol['key']]
  for v in part['violations']:
    print("%s: %s" % (v['key'], v['message'][:800]))
  if hit:
    print("VIOLATION property=C17 replay=(this file) reproduced")
    return 1
  print("not reproduced (%d evaluations)" % part['evaluations'])
  return 0
