"""C13 Lookups return exactly the matching rows in documented order."""
from mc.histprop import HistProp
from mc import worlds as W
from mc.monitors2 import Lookups

LEVEL = 'model_checking'
NAMES = ['W_look']
D = W.depths_for(NAMES, quick=2, thorough=3)
P = HistProp('C13', lambda t: W.make(NAMES), lambda w, t: [Lookups()], D,
             rule='all histories over W_look; 18 lookup specs (Text key, two keys, Ref key, '
                  'CONTAINS with/without match_empty, order_by default/None/asc/desc/tuple/id, '
                  'sort_by) x lookupRecords and lookupOne as formula columns of Q; after every '
                  'bundle every result is compared with a naive filter of fetch_table(L) + stable '
                  'sort by the documented key (order_by cols, manualSort unless id given, row id)')
run, replay = P.run, P.replay
