"""C13 Lookups return exactly the matching rows in documented order."""
from mc.histprop import HistProp
from mc import worlds as W
from mc.monitors2 import Lookups, Lookups2

LEVEL = 'model_checking'
NAMES = ['W_look', 'W_look2']
D = W.depths_for(NAMES, quick=2, thorough=3, overrides={'quick': {'W_look2': 3}, 'thorough': {'W_look2': 4}})
P = HistProp('C13', lambda t: W.make(NAMES), lambda w, t: [Lookups2()] if w.name == 'W_look2' else [Lookups()], D,
             origins={'quick': ('L', 'I'), 'thorough': ('L', 'I')},
             depth_by_origin={'quick': {'I': 2}, 'thorough': {'I': 3}},
             rule='all histories over W_look; 18 lookup specs (Text key, two keys, Ref key, '
                  'CONTAINS with/without match_empty, order_by default/None/asc/desc/tuple/id, '
                  'sort_by) x lookupRecords and lookupOne as formula columns of Q; after every '
                  'bundle every result is compared with a naive filter of fetch_table(L) + stable '
                  'sort by the documented key (order_by cols, manualSort unless id given, row id); plus all '
                  'histories over W_look2 (the life cycle of lookups: one referring row, sort column '
                  'removed and restored, order_by switched and switched back, a column that appears '
                  'later, a ChoiceList key column turned into Text, undo as a step) against a '
                  'reference computed from the dump')
run, replay = P.run, P.replay
