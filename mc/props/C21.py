"""C21 Generated identifiers are valid and unique (pure-function part: identifiers.pick_*; engine part
below: the avoid sets that useractions builds around them).

Enumerates every requested name of a bounded space (all short strings over an alphabet that mixes
letters, case, underscore, digit, blank, punctuation and non-ASCII characters; every Python keyword
and soft keyword in three casings; None, '', long and exotic names) against adversarial avoid sets.
The avoid sets are adaptive: the answers the function gave before (re-cased) are fed back as the
existing names, to every depth <= D and every casing choice, plus fixed sets that exhaust the
single/double letter ids.  Lists for pick_col_ident_list are every list of <= 3 names of a pool.
"""
import re
import keyword
import itertools

from mc import harness as H          # sets sys.path to the repo's sandbox/grist
from mc.enumprop import Enum, PartReport, part_of, pmap

import identifiers                    # the real code under test

LEVEL = 'exploration'

ASCII_IDENT = re.compile(r'[A-Za-z][A-Za-z0-9_]*\Z')
FUNCS = {'col': identifiers.pick_col_ident, 'table': identifiers.pick_table_ident}


# ---------------------------------------------------------------------------------------------
# reference oracle
# ---------------------------------------------------------------------------------------------

def folded(name):
  return name.lower()          # avoid sets and results are ASCII here, so lower() is exact


def valid_reason(kind, result):
  """None if result is an acceptable id of this kind, else (key-detail, text)."""
  if not isinstance(result, str):
    return ('not-a-string', "result %r is not text" % (result,))
  if not result.isidentifier():
    return ('not-identifier', "%r is not a Python identifier" % (result,))
  if keyword.iskeyword(result):
    return ('keyword', "%r is a Python keyword" % (result,))
  if result[0] == '_' or result[0].isdigit():
    return ('bad-start', "%r starts with an underscore or digit" % (result,))
  if kind == 'table' and not result[0].isupper():
    return ('table-not-capitalized', "table id %r does not start with an uppercase letter" % (
        result,))
  return None


def keepable(kind, request):
  """
  Is the request already an id the documented sanitizer leaves alone?  identifiers.py documents
  that only ASCII letters, digits and underscore survive, so 'already valid' is read as: ASCII
  identifier, not a keyword, not starting with underscore/digit (uppercase first for a table).
  """
  return (isinstance(request, str) and bool(ASCII_IDENT.match(request)) and
          not keyword.iskeyword(request) and (kind != 'table' or request[0].isupper()))


def judge(kind, request, avoid, result, taken=()):
  """
  avoid: existing names; taken: ids chosen earlier in the same batch.  Returns None or
  (key, message).
  """
  bad = valid_reason(kind, result)
  if bad:
    return ('C21/invalid/' + bad[0], bad[1])
  used = {folded(a) for a in avoid}
  if folded(result) in used:
    return ('C21/collides-with-existing', "%r equals an existing name case-insensitively" % (
        result,))
  batch = {folded(t) for t in taken}
  if folded(result) in batch:
    return ('C21/collides-in-batch', "%r equals an earlier id of the batch" % (result,))
  if keepable(kind, request) and folded(request) not in used and folded(request) not in batch \
      and result != request:
    return ('C21/valid-name-not-kept', "valid unused name %r became %r" % (request, result))
  return None


# ---------------------------------------------------------------------------------------------
# the enumerated space
# ---------------------------------------------------------------------------------------------

CHARS = ['a', 'A', '_', '1', ' ', u'\u00e9', u'\u00df', '-', '.']
EXOTIC = [u'\u0130', u'\ufb01', u'\u2460', u'\u0301', u'\u00a0', '\n', u'\u01c6', u'\u2121',
          u'\u212a', u'\u0660', u'\u00aa', u'\U0001f600', u'\u4e2d', u'\u0131', u'\u017f', 'Z', 'z',
          '9', '$', u'\u00b2', u'\ud800']


def keyword_like():
  out = []
  for k in sorted(set(keyword.kwlist) | set(getattr(keyword, 'softkwlist', []))):
    out += [k, k.lower(), k.upper(), k.capitalize(), '_' + k, k + '_', ' ' + k, k + '1', '1' + k]
  return out


def special_names():
  base = [None, '', 'id', 'ID', 'True', 'None', 'none', 'true', 'a' * 300, u'\u00e9' * 300,
          '_' * 5, '1' * 5, 'Table', 'table', 'Table1', 'table1', 'A', 'B', 'Z', 'AA', 'ZZ', 'c',
          'T', 'c1', 'T1', 'manualSort', 'gristHelper_Display', 'x2', 'x_2', 'x2_', 'x2_2', 'a1',
          'a1_', 'a1_2', 'cif', 'cIf', 'TIf', 'Tif', 'ccif', 'if2', 'cNone', 'TNone', 'If']
  return base + keyword_like()


def short_strings(chars, maxlen):
  for n in range(1, maxlen + 1):
    for tup in itertools.product(chars, repeat=n):
      yield ''.join(tup)


def requests_for(tier):
  maxlen = 3 if tier == 'quick' else 4
  seen = set()
  out = []
  extra = itertools.chain(short_strings(CHARS + EXOTIC, 2),
                          (a + x + b for x in EXOTIC for a in ('', 'a', '1', '_')
                           for b in ('', 'a', '1', '_')))
  for name in itertools.chain(special_names(), short_strings(CHARS, maxlen), extra):
    if name not in seen:
      seen.add(name)
      out.append(name)
  return out


RECASE = {'same': lambda s: s, 'upper': lambda s: s.upper(), 'lower': lambda s: s.lower(),
          'swap': lambda s: s.swapcase()}
LETTERS = [chr(ord('A') + i) for i in range(26)]
FIXED_AVOID = {
    'none': [],
    'letters': [c if i % 2 else c.lower() for i, c in enumerate(LETTERS)],
    'letters12': LETTERS + [(a + b).lower() for a in LETTERS for b in LETTERS],
    'tables': ['Table1', 'TABLE2', 'table3', 'id', 'manualSort'],
}


def adaptive(E, kind, request, depth, variants, avoid=()):
  """Calls pick_<kind>_ident(request, avoid), judges, then feeds re-cased answers back."""
  result = call_one(E, kind, request, list(avoid))
  if result is None or depth == 0:
    return
  recased = []
  for v in variants:               # distinct re-casings only, so every (request, avoid) is new
    name = RECASE[v](result)
    if name not in recased:
      recased.append(name)
  for name in recased:
    adaptive(E, kind, request, depth - 1, variants, tuple(avoid) + (name,))


def call_one(E, kind, request, avoid):
  case = {'kind': kind, 'request': request, 'avoid': avoid}
  try:
    result = FUNCS[kind](request, avoid=set(avoid))
  except Exception as e:   # pylint: disable=broad-except
    E.count(None, nontrivial=True)
    E.fail('C21/raised/' + type(e).__name__, "pick_%s_ident(%r, avoid=%r) raised %s" % (
        kind, request, avoid, H.exc_text(e)), case=case)
    return None
  changed = result != request
  E.count(None, nontrivial=changed, sample=dict(case, result=result) if changed and avoid else None)
  bad = judge(kind, request, avoid, result)
  if bad:
    E.fail(bad[0], "pick_%s_ident(%r, avoid=%r) -> %r: %s" % (kind, request, avoid, result, bad[1]),
           case=case)
    return None
  return result


def judge_list(requests, avoid, results):
  if not isinstance(results, list) or len(results) != len(requests):
    return ('C21/list-shape', "%r ids for %d requests" % (results, len(requests)))
  for i, (req, res) in enumerate(zip(requests, results)):
    bad = judge('col', req, avoid, res, taken=results[:i])
    if bad:
      return (bad[0], "item %d: %s" % (i, bad[1]))
  return None


def call_list(E, requests, avoid):
  case = {'kind': 'list', 'request': requests, 'avoid': avoid}
  try:
    results = identifiers.pick_col_ident_list(list(requests), avoid=set(avoid))
  except Exception as e:   # pylint: disable=broad-except
    E.count(None, nontrivial=True)
    E.fail('C21/raised/' + type(e).__name__, "pick_col_ident_list(%r, avoid=%r) raised %s" % (
        requests, avoid, H.exc_text(e)), case=case)
    return
  changed = results != requests
  E.count(None, nontrivial=changed,
          sample=dict(case, result=results) if changed and len(requests) > 2 else None)
  bad = judge_list(requests, avoid, results)
  if bad:
    E.fail(bad[0], "pick_col_ident_list(%r, avoid=%r) -> %r: %s" % (
        requests, avoid, results, bad[1]), case=case)


def list_pool(tier):
  pool = [None, '', 'a', 'A', 'a2', 'A2', 'a_2', 'a2_2', 'a3', '1', 'c1', 'C1', '_', 'if', 'cif',
          'cIF', u'é', 'e', 'E2', 'id', 'B', 'b', ' a', 'a ', 'a-', 'a a', 'a_a', 'None', 'cNone']
  if tier == 'thorough':
    pool += ['A3', 'a2_', 'a2_3', 'AA', 'aa', 'Z', 'C', 'c', 'cc1', 'if2', 'IF', 'cif2', 'CIF2', '2',
             'c2', u'ß', u'É', 'e2', 'ID', 'id2', 'a1', 'a1_2', 'A1_2', '__a', 'a__', '.',
             'manualSort', 'MANUALSORT', 'class', 'cclass', 'True', 'cTrue', 'true']
  return pool


LIST_AVOID = {'id': ['id'], 'none': [], 'letters': FIXED_AVOID['letters'],
              'suffixed': ['A', 'a2', 'A3', 'c1', 'CIF', 'E', 'id']}


def bounds(tier):
  if tier == 'quick':
    return dict(depth=3, variants=['same', 'upper', 'lower'], list_len=3)
  return dict(depth=4, variants=['same', 'upper', 'lower', 'swap'], list_len=3)


def worker(job):
  tier, what, items = job
  B = bounds(tier)
  E = Enum(PartReport('C21'), rule='')
  if what == 'single':
    for request in items:
      for kind in ('col', 'table'):
        adaptive(E, kind, request, B['depth'], B['variants'])
        for name in ('letters', 'letters12', 'tables'):
          call_one(E, kind, request, FIXED_AVOID[name])
  else:
    pool = list_pool(tier)
    for first in items:
      for n in range(0, B['list_len']):
        for rest in itertools.product(pool, repeat=n):
          for avoid in LIST_AVOID.values():
            call_list(E, [first] + list(rest), avoid)
  return part_of(E)


def run(tier, report):
  B = bounds(tier)
  reqs = requests_for(tier)
  pool = list_pool(tier)
  E = Enum(report, rule=(
      'single names: %d requests = every string of length <= %d over %r + every string of length '
      '<= 2 over that alphabet and %d exotic characters (and each exotic one framed by a/1/_) + '
      'every keyword/soft keyword in 9 spellings + None, empty, 300-char and suffix-shaped names; '
      'each for pick_col_ident and pick_table_ident against (a) the adaptive avoid tree: avoid = the '
      'function\'s own earlier answers re-cased by each of %r, to depth %d, (b) fixed avoid sets '
      '%r.  lists: every list of <= %d names over a pool of %d names x avoid sets %r for '
      'pick_col_ident_list (plus the empty list).  non-trivial = the chosen id differs from the '
      'request (sanitised, prefixed or suffixed).  Cases are distinct by construction.'
      % (len(reqs), 3 if tier == 'quick' else 4, CHARS, len(EXOTIC), B['variants'], B['depth'],
         sorted(FIXED_AVOID), B['list_len'], len(pool), sorted(LIST_AVOID))))
  nchunks = 32
  jobs = [(tier, 'single', reqs[i::nchunks]) for i in range(nchunks)]
  jobs += [(tier, 'list', [p]) for p in pool]
  for part in pmap(worker, jobs):
    E.merge(part)
  for avoid in LIST_AVOID.values():
    call_list(E, [], avoid)
  E.finish(exhaustive=True, single_requests=len(reqs), list_pool=len(pool))
  report.assumptions.append("existing names (avoid sets) are ASCII, as every id this module produces "
                            "is; case-insensitive comparison is then exact")
  engine_part(tier, report)
  report.assumptions.append("'already valid' is read with the documented ASCII-only sanitizer: an "
                            "ASCII identifier, not a keyword, not starting with '_' or a digit "
                            "(uppercase first letter for tables); in a list, 'unused' means not in "
                            "the avoid set and not chosen earlier in the same list")


def _engine_prop():
  # "differs ... from every existing name and every other id chosen in the same batch" is the
  # business of the avoid sets built in useractions (doAddTable, _pick_col_name, the summary-table
  # renames of _updateTableRecords): W_names asks for adversarial table / column names, alone and
  # twice in one bundle, on a document whose summary tables' encoded names coincide.
  from mc.histprop import HistProp
  from mc import worlds as W
  from mc.monitors2 import Idents
  names = ['W_names']
  depth = W.depths_for(names, quick=2, thorough=2)
  return HistProp('C21', lambda t: W.make(names), lambda w, t: [Idents()], depth,
                  origins={'quick': ('L',), 'thorough': ('L', 'I')}, rule='')


def engine_part(tier, report):
  from mc import explore
  P = _engine_prop()
  total = explore.run(P.worlds(tier), lambda w: P.monitors(w, tier), P.depth[tier],
                      origins=P.origins[tier], split_levels=1, budget_s=900)
  report.coverage['engine_histories'] = total.histories
  report.coverage['engine_states'] = len(total.states)
  report.coverage['engine_bundles_rejected'] = total.failed
  report.coverage['engine_rule'] = (
      'history explorer over W_names to depth %d (origins %s): every table / column name of an '
      'adversarial menu requested through AddTable, RenameTable, AddColumn, RenameColumn, metadata '
      'bulk renames and two-requests-in-one-bundle, on a document with summary tables whose encoded '
      'names coincide; after every bundle all table ids and column ids are valid identifiers of '
      'their kind and unique ignoring case, and no naming request is rejected'
      % (P.depth[tier]['W_names'], '/'.join(P.origins[tier])))
  report.merge_violations([v for k, v in total.violations.items()
                           if k.startswith('C21/') or '/monitor-exception/' in k])
  if total.errors:
    report.add_violation('C21/harness-error', "explorer unit failed: %s" % total.errors[0][:1200])


def replay(viol):
  if 'history' in viol:
    return _engine_prop().replay(viol)
  c = viol['case']
  if c['kind'] == 'list':
    try:
      results = identifiers.pick_col_ident_list(list(c['request']), avoid=set(c['avoid']))
      bad = judge_list(c['request'], c['avoid'], results)
    except Exception as e:   # pylint: disable=broad-except
      results, bad = None, ('C21/raised', H.exc_text(e))
  else:
    try:
      results = FUNCS[c['kind']](c['request'], avoid=set(c['avoid']))
      bad = judge(c['kind'], c['request'], c['avoid'], results)
    except Exception as e:   # pylint: disable=broad-except
      results, bad = None, ('C21/raised', H.exc_text(e))
  print("result=%r -> %s" % (results, bad))
  if bad:
    print("VIOLATION property=C21 replay=(this file) reproduced")
    return 1
  return 0
