"""C03 Redo after undo reproduces the post-bundle state."""
from mc.histprop import HistProp
from mc import worlds as W
from mc.monitors import UndoRedo

LEVEL = 'model_checking'

P = HistProp('C03', W.history_worlds, lambda w, t: [UndoRedo(report=('C03',))],
             {t: W.depths(t) for t in ('quick', 'thorough')},
             rule='same histories as C01; oracle: after undoing the last bundle, '
                  'ApplyDocActions(stored) must reproduce the post-bundle dump exactly; '
                  'non-trivial = bundle succeeded and changed the document')
run, replay = P.run, P.replay
