"""
C23 Changing a column's type converts each stored value.

Every ordered pair of column types x a column holding a menu of stored values of the source type
(right-type values, alt-text, defaults), in a document with a dependent formula column, an
unrelated column and another table; through ModifyColumn and through UpdateRecord on
_grist_Tables_column.type.  Oracle: each cell's new value == the conversion of its previous
stored value by a separately constructed type object of the new type; no other user-table cell
changes except the dependent formula column.
"""
import json
import math

from mc import harness as H
from mc.enumprop import Enum, PartReport, part_of, pmap

import usertypes          # repo module
import objtypes

LEVEL = 'model_checking'

TYPES = ['Text', 'Bool', 'Int', 'Numeric', 'Date', 'DateTime:America/New_York', 'Choice',
         'ChoiceList', 'Ref:O', 'RefList:O', 'Attachments', 'Any']

# Raw inputs (wire-encoded) put into the column; the stored values are whatever the source type
# makes of them (right-type values or alt-text).
MENU = [None, '', 'abc', '12', '1.5', 'true', 'no', 0, 1, 2, -1, 2.5, 1.0e12, True, False,
        '2020-01-02', 1577923200, ['L', 'a', 'b'], ['L', 1, 2], ['L'], '[1,2]', '["a"]', 'x,y',
        3000000000, ' 7 ', 'None', '2', '0', 'True', '2.5',   # texts that spell another menu value
        ['L', 7, 2], ['L', 7]]                                # row ids with no row in O (kept as they are)
QUICK_MENU = [None, '', 'abc', '12', '1.5', 'true', 0, 2, 2.5, True, '2020-01-02', 1577923200,
              ['L', 'a', 'b'], ['L', 1, 2], '[1,2]', 'None', '2', 'True', ['L', 7, 2]]


def type_obj(t):
  name, _, arg = t.partition(':')
  if name == 'Ref':
    return usertypes.Reference(arg)
  if name == 'RefList':
    return usertypes.ReferenceList(arg)
  if name == 'DateTime':
    return usertypes.DateTime(arg)
  return getattr(usertypes, name)()


_REF = {}


def ref_convert(dst, value):
  """
  The new type's conversion, computed by a separately constructed column of that type in a
  scratch document (Ref/RefList columns accept ints/lists beyond what the bare type object does).
  """
  if 'doc' not in _REF:
    saved = H.docmodel_mod.global_docmodel
    d = H.Doc.new()
    d.apply([["AddTable", "O", [{"id": "label", "type": "Text"}]]])
    d.apply([["AddTable", "S", [{"id": "c%d" % i, "type": t, "isFormula": False}
                                for i, t in enumerate(TYPES)]]])
    H.docmodel_mod.global_docmodel = saved
    _REF['doc'] = d
  col = _REF['doc'].eng.tables['S'].get_column('c%d' % TYPES.index(dst))
  return col.convert(value)


def same(a, b):
  if type(a) is not type(b):       # pylint: disable=unidiomatic-typecheck
    # lists vs tuples of equal content are distinct python values but identical on the wire
    return H.norm(H.enc(a)) == H.norm(H.enc(b)) and not isinstance(a, bool) and not isinstance(b, bool)
  if isinstance(a, float) and math.isnan(a) and math.isnan(b):
    return True
  return H.norm(H.enc(a)) == H.norm(H.enc(b))


def strict_same(a, b):
  """Same Python value: sequences of either kind alike, but int / float / bool apart."""
  if isinstance(a, (list, tuple)) and isinstance(b, (list, tuple)):
    return len(a) == len(b) and all(strict_same(x, y) for x, y in zip(a, b))
  if type(a) is not type(b):       # pylint: disable=unidiomatic-typecheck
    return False
  if isinstance(a, float) and math.isnan(a) and math.isnan(b):
    return True
  return a == b


_BASE = {}


def base_snap(src, menu):
  key = (src, len(menu))
  if key not in _BASE:
    d = H.Doc.new()
    d.apply([["AddTable", "O", [{"id": "label", "type": "Text"}]]])
    d.apply([["AddTable", "T", [
        {"id": "v", "type": src, "isFormula": False},
        {"id": "u", "type": "Text", "isFormula": False},
        {"id": "dep", "type": "Any", "isFormula": True, "formula": "$v"},
        {"id": "cnt", "type": "Any", "isFormula": True, "formula": "len(T.lookupRecords(u=$u))"},
    ]]])
    d.apply([["BulkAddRecord", "O", [None, None, None], {"label": ["o1", "o2", "o3"]}]])
    n = len(menu)
    vals = list(menu)
    if src.startswith(('Ref', 'Attachments')):
      # a negative id in a reference cell is a temporary row id (rejected unless the bundle created
      # it): the reference source types get a dangling positive id instead
      vals = [9 if isinstance(v, int) and not isinstance(v, bool) and v < 0 else v for v in vals]
    d.apply([["BulkAddRecord", "T", [None] * n, {"v": vals, "u": ["u%d" % (i % 3) for i in range(n)]}]])
    _BASE[key] = d.snapshot()
  return _BASE[key]


def run_case(src, dst, path, menu):
  """Returns list of (key, message)."""
  doc = H.Doc.load(base_snap(src, menu))
  eng = doc.eng
  T = eng.tables['T']
  rows = sorted(T.row_ids)
  old = {r: T.get_column('v').raw_get(r) for r in rows}
  pre = doc.dump()
  if path == 'ModifyColumn':
    bundle = [["ModifyColumn", "T", "v", {"type": dst}]]
  else:
    cref = eng.docmodel.columns.lookupOne(tableId='T', colId='v').id
    bundle = [["UpdateRecord", "_grist_Tables_column", cref, {"type": dst}]]
  g, e = doc.try_apply(bundle)
  tag = '%s->%s' % (src.split(':')[0], dst.split(':')[0])
  if e is not None:
    return [('C23/type-change-raised/%s/%s' % (tag, type(e).__name__),
             "%s %s -> %s raised %s" % (path, src, dst, H.exc_text(e)))]
  out = []
  T = doc.eng.tables['T']
  col = T.get_column('v')
  for r in rows:
    want = ref_convert(dst, old[r])
    got = col.raw_get(r)
    if not same(got, want):
      out.append(('C23/wrong-converted-value/%s' % tag,
                  "%s %s -> %s: row %d held %r, now %r, but a %s column converts it to %r" % (
                      path, src, dst, r, old[r], got, dst, want)))
      break
  post = doc.dump()
  for tid in ('O', 'T'):
    for r, row in pre[tid]['rows'].items():
      for c, v in row.items():
        if tid == 'T' and c in ('v', 'dep'):
          continue
        if post[tid]['rows'].get(r, {}).get(c) != v:
          out.append(('C23/other-cell-changed/%s/%s.%s' % (tag, tid, c),
                      "%s %s -> %s changed %s[%s].%s from %r to %r" % (
                          path, src, dst, tid, r, c, v, post[tid]['rows'].get(r, {}).get(c))))
          break
  if set(post['T']['rows']) != set(pre['T']['rows']) or set(post['O']['rows']) != set(pre['O']['rows']):
    out.append(('C23/rows-changed/%s' % tag, "%s %s -> %s changed the set of rows" % (path, src, dst)))
  # the dependent formula must reflect the new values (checked against a fresh engine)
  fresh = doc.fresh_recompute().dump()
  if fresh['T'] != post['T']:
    out.append(('C23/dependent-formula-stale/%s' % tag,
                "%s %s -> %s: dependent formula differs from a from-scratch recomputation: %s" % (
                    path, src, dst, '; '.join(H.diff_dumps(post, fresh)))))
  # the metadata must say the new type
  meta = [c for c in post['_grist_Tables_column']['rows'].values() if c['colId'] == 'v']
  if not meta or meta[0]['type'] != dst:
    out.append(('C23/metadata-type-not-updated/%s' % tag, "metadata type is %r" % (meta and meta[0]['type'],)))
  # a second engine that sees only the recorded doc actions (another session, a redo) must end up
  # holding the same Python values: the conversions have to be IN the stored actions or be made
  # by the doc action itself, not only by the user action that ran here
  rep = H.Doc.load(base_snap(src, menu))
  _g2, e2 = rep.try_apply([["ApplyDocActions", H.stored_reprs(g)]])
  if e2 is not None:
    out.append(('C23/replay-raised/%s/%s' % (tag, type(e2).__name__),
                "%s %s -> %s: replaying the stored actions raised %s" % (path, src, dst, H.exc_text(e2))))
  else:
    # compared as every client sees the two engines (cells of v and of the formula reading it)
    rd = rep.dump()
    if rd['T'] != post['T']:
      out.append(('C23/replica-differs/%s' % tag,
                  "%s %s -> %s: an engine that replayed the stored actions reports other data: %s" % (
                      path, src, dst, '; '.join(H.diff_dumps(post, rd)[:4]))))
  return out


def worker(job):
  (src, dsts, menu) = job
  E = Enum(PartReport('C23'), rule='')
  for dst in dsts:
    for path in ('ModifyColumn', 'UpdateRecord'):
      res = run_case(src, dst, path, menu)
      E.count((src, dst, path), nontrivial=True,
              sample={'from': src, 'to': dst, 'path': path, 'values': len(menu)} if dst == dsts[0] and path == 'ModifyColumn' else None)
      for (key, msg) in res:
        E.fail(key, msg, case={'src': src, 'dst': dst, 'path': path})
  return part_of(E)


def run(tier, report):
  H.check_hashseed()
  menu = QUICK_MENU if tier == 'quick' else MENU
  jobs = []
  for src in TYPES:
    dsts = [d for d in TYPES if d != src]
    base_snap(src, menu)
    jobs.append((src, dsts[:6], menu))
    jobs.append((src, dsts[6:], menu))
  E = Enum(report, rule='every ordered pair of %d column types (%s) x a column of %d stored values of '
                        'the source type (menu of raw inputs incl. alt-text, defaults, lists, dates) x '
                        '{ModifyColumn, UpdateRecord on _grist_Tables_column.type}; oracle: new cell == '
                        'convert(old stored value) by a separately built type object, nothing else '
                        'changes but the dependent formula (which must equal a fresh recomputation)'
                        % (len(TYPES), ', '.join(TYPES), len(menu)))
  for part in pmap(worker, jobs):
    E.merge(part)
  E.finish(exhaustive=True)
  cov = report.coverage
  cov['states'] = cov['evaluations']
  cov['transitions'] = cov['evaluations']
  cov['traces_validated_against_impl'] = cov['evaluations']
  cov['cells_converted'] = cov['evaluations'] * len(menu)
  report.assumptions.append('the conversion function itself (usertypes.*.convert) is the reference for '
                            'a single value; its totality/idempotence is property C22')


def replay(viol):
  H.check_hashseed()
  c = viol['case']
  res = run_case(c['src'], c['dst'], c['path'], MENU)
  res2 = run_case(c['src'], c['dst'], c['path'], QUICK_MENU)
  keys = sorted(set(k for k, _m in res + res2))
  print(keys)
  for k, m in res + res2:
    print(" ", m[:500])
  if viol['key'] in keys:
    print("VIOLATION property=C23 replay=(this file) reproduced")
    return 1
  return 0
