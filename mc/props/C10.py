"""C10 Removing rows leaves no references to them."""
from mc.histprop import HistProp
from mc import worlds as W
from mc.monitors2 import RemovedRefs

LEVEL = 'model_checking'
NAMES = ['W_rec', 'W_2way', 'W_sum', 'W_schema']
D = W.depths_for(NAMES, quick=2, thorough=3, overrides={'quick': {'W_sum': 1, 'W_schema': 1},
                                                         'thorough': {'W_sum': 2, 'W_schema': 2}})
P = HistProp('C10', lambda t: W.make(NAMES), lambda w, t: [RemovedRefs()], D,
             rule='every history whose last bundle makes rows disappear from any table (record '
                  'removal, table/column removal cascades on metadata, auto-removal of summary '
                  'rows); R[T] = ids present before and absent after; no Ref:T cell may hold an id '
                  'of R[T], no RefList:T cell may contain one; for removal-only bundles a RefList '
                  'equals its previous list minus R in order, or None when empty')
run, replay = P.run, P.replay
