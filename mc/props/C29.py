"""
C29 Read-only calls leave the document untouched.

For every state reached by the worlds up to the tier depth (documents with lookups, summary
tables whose helper formulas have lookupOrAddDerived side effects, trigger formulas), every
read-only API call is made with its argument menu.  After each call the dump must be unchanged;
after the whole batch a Calculate must emit nothing and a from-scratch recomputation must still
agree.  A call that raises is fine (the property is about state) unless it changes the document.
"""
import json

from mc import harness as H
from mc.explore import Monitor
from mc.histprop import HistProp
from mc import worlds as W
from mc import refmodels as R
from mc.monitors import vkey

import formula_prompt          # repo module

LEVEL = 'model_checking'
NAMES = ['W_rec', 'W_sum', 'W_trig']
D = W.depths_for(NAMES, quick=1, thorough=2)

USER = {'Name': 'Foo', 'UserID': 1, 'UserRef': '1', 'LinkKey': {}, 'Origin': None,
        'Email': 'foo@example.com', 'Access': 'owners', 'SessionID': 'u1', 'IsLoggedIn': True,
        'ShareRef': None}


def call_menu(doc):
  """[(name, detail, thunk)] of read-only calls for the current document."""
  eng = doc.eng
  out = []
  meta = doc.dump()
  tables = meta['_grist_Tables']['rows']
  cols = meta['_grist_Tables_column']['rows']
  out.append(('fetch_meta_tables', '', lambda: eng.fetch_meta_tables()))
  for tid in doc.user_tables():
    t = eng.tables[tid]
    rows = sorted(t.row_ids)
    colids = [c for c in t.all_columns if not c.startswith('#') and c != 'id']
    out.append(('fetch_table', tid, lambda tid=tid: eng.fetch_table(tid)))
    out.append(('fetch_table', tid + ' formulas=False', lambda tid=tid: eng.fetch_table(tid, formulas=False)))
    if colids and rows:
      c0 = colids[0]
      v = t.get_column(c0).raw_get(rows[0])
      out.append(('fetch_table', tid + ' query', lambda tid=tid, c0=c0, v=v: eng.fetch_table(
          tid, query={c0: [v, [1]]})))
    formula_cols = []
    for cr, c in cols.items():
      if c['parentId'] in tables and tables[c['parentId']]['tableId'] == tid and c['formula']:
        formula_cols.append(c['colId'])
    # summary tables: the 'group' helper formula has side effects (setAutoRemove, lookups)
    for cid in sorted(set(formula_cols)):
      if not t.has_column(cid):
        continue
      for r in rows[:2]:
        out.append(('get_formula_error', '%s.%s[%s]' % (tid, cid, r),
                    lambda tid=tid, cid=cid, r=r: eng.get_formula_error(tid, cid, r)))
        if t.get_column(cid).is_formula():
          out.append(('evaluate_formula', '%s.%s[%s]' % (tid, cid, r),
                      lambda tid=tid, cid=cid, r=r: formula_prompt.evaluate_formula(eng, tid, cid, r)))
      out.append(('get_formula_prompt', '%s.%s' % (tid, cid),
                  lambda tid=tid, cid=cid: formula_prompt.get_formula_prompt(eng, tid, cid)))
    if colids:
      first = colids[0]
      target = formula_cols[0] if formula_cols else first
      for txt in ('$', '$' + first[:1], 'rec.', tid + '.lookupRecords(', tid + '.lookupOne(',
                  'user.', 'value', 'SU'):
        for row in ((rows[0] if rows else 'new'), 'new'):
          if row == 'new' and not rows:
            continue
          out.append(('autocomplete', '%r in %s.%s row %s' % (txt, tid, target, row),
                      lambda txt=txt, tid=tid, target=target, row=row: eng.autocomplete(
                          txt, tid, target, row, USER)))
    vals = []
    if colids and rows:
      vals = [t.get_column(colids[0]).raw_get(r) for r in rows]
    out.append(('find_col_from_values', tid, lambda vals=vals, tid=tid: eng.find_col_from_values(
        vals + ['a', 1, [1]], 0, tid)))
  out.append(('find_col_from_values', 'all', lambda: eng.find_col_from_values(['a', 'ann', 1, 20], 3, None)))
  return out


class ReadOnly(Monitor):
  name = 'read-only'
  destructive = True

  def check(self, ctx):
    if ctx.exc is not None:
      return
    doc = ctx.doc
    before = ctx.post_dump
    n = 0
    raised = 0
    for (name, detail, thunk) in call_menu(doc):
      n += 1
      try:
        thunk()
      except Exception:    # pylint: disable=broad-except
        raised += 1
      after = doc.dump()
      if after != before:
        diffs = H.diff_dumps(before, after)
        yield (vkey('C29', 'call-changed-document/' + name, ctx, diffs),
               "after %r: %s(%s) changed the document: %s" % (ctx.label, name, detail, '; '.join(diffs)))
        before = after
    g, e = doc.try_apply([["Calculate"]])
    if e is not None:
      yield (vkey('C29', 'calculate-raises-after-reads', ctx, extra=type(e).__name__),
             "after %r and the read-only calls, Calculate raised %s" % (ctx.label, H.exc_text(e)))
    elif g.stored or g.undo:
      yield (vkey('C29', 'calculate-emits-after-reads', ctx),
             "after %r and the read-only calls, Calculate emitted %s" % (
                 ctx.label, json.dumps(H.norm(H.stored_reprs(g)))[:300]))
    else:
      if doc.dump() != ctx.post_dump:
        yield (vkey('C29', 'document-differs-after-reads', ctx),
               "after %r, the read-only calls and Calculate the document differs" % ctx.label)
    ctx.extra['read_calls'] = n
    ctx.extra['read_calls_raised'] = raised


class ReadOnlyIsolated(Monitor):
  """
  Attribution pass used when the batch monitor fires on 'calculate-*': each call alone on a fresh
  doc followed by Calculate, so the finding key names the call.
  """
  name = 'read-only-isolated'
  destructive = True

  def check(self, ctx):
    if ctx.exc is not None:
      return
    menu = call_menu(ctx.doc)
    seen = set()
    for idx in range(len(menu)):
      name = menu[idx][0]
      d = ctx.rebuild()
      d.try_apply(ctx.bundle)
      m2 = call_menu(d)
      if idx >= len(m2):
        continue
      try:
        m2[idx][2]()
      except Exception:   # pylint: disable=broad-except
        pass
      g, e = d.try_apply([["Calculate"]])
      if e is not None or g.stored or g.undo:
        kind = 'calculate-raises' if e is not None else 'calculate-emits'
        what = m2[idx][1].split('[')[0]
        # root cause = (symptom, call, cell): the bundle label is not part of the key
        key = 'C29/%s-after/%s/%s/%s' % (kind, name, ctx.world.name, R.strip_numbers(what))
        if key in seen:
          continue
        seen.add(key)
        yield (key, "after %r: %s(%s) alone, then Calculate: %s" % (
            ctx.label, name, m2[idx][1], H.exc_text(e) if e is not None else
            json.dumps(H.norm(H.stored_reprs(g)))[:300]))


P = HistProp('C29', lambda t: W.make(NAMES), lambda w, t: [ReadOnly()], D,
             origins={'quick': ('L',), 'thorough': ('L',)},
             rule='every state up to the depth x every read-only call (fetch_table with/without '
                  'query and formulas, fetch_meta_tables, get_formula_error and evaluate_formula on '
                  'every formula/trigger/summary-helper cell of 2 rows, get_formula_prompt, '
                  'autocomplete with 8 prefixes x existing/new row, find_col_from_values): dump '
                  'unchanged after each call, Calculate afterwards emits nothing')


def run(tier, report):
  P.run(tier, report)
  # attribution pass for batch-level findings
  batch = [k for k in report.violations if '/calculate-' in k]
  if batch:
    P2 = HistProp('C29', lambda t: W.make(NAMES), lambda w, t: [ReadOnlyIsolated()],
                  W.depths_for(NAMES, quick=1, thorough=1), origins={'quick': ('L',), 'thorough': ('L',)})
    from mc.evidence import Report
    r2 = Report('C29', tier, LEVEL)
    P2.run('quick', r2)
    if r2.violations:
      for k in batch:
        report.violations.pop(k, None)
        report.viol_counts.pop(k, None)
      report.merge_violations([dict(v, count=r2.viol_counts[k]) for k, v in r2.violations.items()])


replay = P.replay
