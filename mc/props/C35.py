"""C35 SCHEDULE yields exactly the scheduled occurrences (exhaustive enumeration).

Space: schedules are built from *structured* descriptions (interval multiple x unit, slot lists of
<= 3 slots picked in increasing order from a per-unit menu covering dates, /mday, weekdays, clock
times, :mins and +N deltas in several spellings), so the reference never parses the string: it
knows the months/seconds each slot stands for from the menu.  Every schedule is run with a menu
of starts (mid-month afternoon with microseconds, Feb 28/29, Dec 31 23:59:59, a Sunday 00:00 that
is also the 1st of a month, Jan 1, a `date`, zone-aware starts next to DST changes, exactly on an
occurrence, 1 us after an occurrence) x count x end (none, before the first occurrence, exactly on
the 2nd, between 2nd and 3rd, far).  Reference: brute force {boundary + k*interval + slot}.
Second clause: a menu of malformed strings must raise ValueError (and must not hang).
"""
import signal
import itertools
import datetime as _dt

from mc import harness as H
from mc.enumprop import Enum, PartReport, part_of, pmap

import moment
from functions.schedule import SCHEDULE          # the real code under test

LEVEL = 'exploration'

D, HR, MN = 86400, 3600, 60

# unit -> (interval as (months, seconds) per 1 unit, spellings usable after "N-")
UNITS = {
    'years': ((12, 0), 'year'), 'months': ((1, 0), 'month'), 'weeks': ((0, 7 * D), 'week'),
    'days': ((0, D), 'day'), 'hours': ((0, HR), 'hour'), 'minutes': ((0, MN), 'minute'),
    'seconds': ((0, 1), 'second'),
}
ALIASES = {'years': 'annual', 'months': 'monthly', 'weeks': 'weekly', 'days': 'daily',
           'hours': 'hourly'}

# Per-unit slot menus, in increasing order: (text, months, seconds) -- what the text stands for
# according to the SCHEDULE documentation (12am = 00:00, 12pm = noon, weeks start on Sunday,
# Jan-15 = month 1 day 15, /15 = day 15, +1H/+1M/+1S = hours/minutes/seconds).
MENUS = {
    'years': [
        ('Jan-1', 0, 0), ('1/15', 0, 14 * D), ('Feb-29 6am', 1, 28 * D + 6 * HR), ('march-1', 2, 0),
        ('Jul-4 2:30pm', 6, 3 * D + 14 * HR + 30 * MN), ('+8m', 8, 0), ('OCT-15 12am', 9, 14 * D),
        ('+350d 12pm', 0, 350 * D + 12 * HR), ('12/31 11:59PM', 11, 30 * D + 23 * HR + 59 * MN),
        ('+14m', 14, 0),
    ],
    'months': [
        ('/1', 0, 0), ('+1w 9:30am', 0, 7 * D + 9 * HR + 30 * MN), ('/10 2pm', 0, 9 * D + 14 * HR),
        ('+14d', 0, 14 * D), ('/15 17:00', 0, 14 * D + 17 * HR),
        ('/28 11:59pm', 0, 27 * D + 23 * HR + 59 * MN), ('/31', 0, 30 * D), ('+1m /20', 1, 19 * D),
        ('+2m', 2, 0),
    ],
    'weeks': [
        ('Su', 0, 0), ('Mo 9am', 0, D + 9 * HR), ('tue 9:00', 0, 2 * D + 9 * HR), ('+3d', 0, 3 * D),
        ('Thursday 12pm', 0, 4 * D + 12 * HR), ('FR 2pm', 0, 5 * D + 14 * HR),
        ('sat 23:59', 0, 6 * D + 23 * HR + 59 * MN), ('+1w Tu', 0, 9 * D),
        ('+2w Mo 8am', 0, 15 * D + 8 * HR),
    ],
    'days': [
        ('0:00', 0, 0), ('12:30am', 0, 30 * MN), ('+6H', 0, 6 * HR), ('07:30', 0, 7 * HR + 30 * MN),
        ('12pm', 0, 12 * HR), ('1:30pm', 0, 13 * HR + 30 * MN), ('9PM', 0, 21 * HR),
        ('23:59', 0, 23 * HR + 59 * MN), ('+1d 8am', 0, D + 8 * HR), ('+2d', 0, 2 * D),
    ],
    'hours': [
        (':00', 0, 0), (':15', 0, 15 * MN), ('+20M', 0, 20 * MN), (':45', 0, 45 * MN),
        ('+59M +30S', 0, 59 * MN + 30), ('+1H :20', 0, HR + 20 * MN), ('+2H :40', 0, 2 * HR + 40 * MN),
        ('+3H', 0, 3 * HR),
    ],
    'minutes': [
        ('+0S', 0, 0), ('+15S', 0, 15), ('+30S', 0, 30), ('+59S', 0, 59), ('+1M', 0, 60),
        ('+1M +30S', 0, 90), ('+2M', 0, 120),
    ],
    'seconds': [('+0S', 0, 0), ('+1S', 0, 1), ('+2S', 0, 2)],
}

# Examples listed in the SCHEDULE docstring ("The schedule has the format ...") with what they say.
DOC_EXAMPLES = [
    ('annual: Jan-15, Apr-15, Jul-15', 'years', 1, [(0, 14 * D), (3, 14 * D), (6, 14 * D)]),
    ('annual: 1/15, 4/15, 7/15', 'years', 1, [(0, 14 * D), (3, 14 * D), (6, 14 * D)]),
    ('monthly: /1 2pm, /15 2pm', 'months', 1, [(0, 14 * HR), (0, 14 * D + 14 * HR)]),
    ('3-months: /10, +1m /20', 'months', 3, [(0, 9 * D), (1, 19 * D)]),
    ('weekly: Mo 9am, Tu 9am, Fr 2pm', 'weeks', 1,
     [(0, D + 9 * HR), (0, 2 * D + 9 * HR), (0, 5 * D + 14 * HR)]),
    ('2-weeks: Mo, +1w Tu', 'weeks', 2, [(0, D), (0, 9 * D)]),
    ('daily: 07:30, 21:00', 'days', 1, [(0, 7 * HR + 30 * MN), (0, 21 * HR)]),
    ('2-day: 12am, 4pm, +1d 8am', 'days', 2, [(0, 0), (0, 16 * HR), (0, D + 8 * HR)]),
    ('hourly: :15, :45', 'hours', 1, [(0, 15 * MN), (0, 45 * MN)]),
    ('4-hour: :00, +1H :20, +2H :40', 'hours', 4, [(0, 0), (0, HR + 20 * MN), (0, 2 * HR + 40 * MN)]),
    # The docstring spells this informal example '+0s'; the parser only knows 'S' for seconds and
    # rejects the lowercase form with ValueError, which the property allows (an unparsable string
    # is "invalid"), so the accepted spelling is what is claimed here.
    ('10-minute: +0S', 'minutes', 10, [(0, 0)]),
    ('24-hour: :00', 'hours', 24, [(0, 0)]),
]

INVALID = [
    ('no-colon', ['', 'daily', 'weekly Mo', '2-day 9am']),
    ('no-slots', ['daily:', 'daily: ,', 'daily: 9am,', 'weekly: Mo,,Tu', 'hourly:   ']),
    ('bad-interval', ['fortnightly: Mo', '2-fortnight: Mo', 'day: 9am', '-1-day: 9am', '1.5-day: 9am',
                      'two-day: 9am', '2_day: 9am', '2-: 9am', ': 9am', 'daily weekly: 9am',
                      '2-day-3: 9am']),
    ('bad-slot-syntax', ['daily: 9', 'daily: 9:5', 'daily: 9:305', 'daily: 9xm', 'daily: @9am',
                         'weekly: Mo-9am', 'daily: +d', 'daily: +1', 'monthly: /', 'annual: Jan-',
                         'annual: -15', 'hourly: :5', 'daily: 9am;10am', 'daily: 9 am']),
    ('unknown-name', ['weekly: Xyz', 'weekly: Mond', 'weekly: M', 'annual: Foo-15',
                      'annual: Janu-15', 'daily: +1x', 'daily: +1h', 'daily: +1D']),
    ('slot-not-allowed-for-unit', ['weekly: /15', 'monthly: Jan-15', 'daily: Mo', 'hourly: 2pm',
                                   'hourly: Mo', '10-minute: :15', 'monthly: Mo', 'annual: /15',
                                   'daily: 1/15', 'weekly: 1/15', 'annual: Mo', 'hourly: 10:30',
                                   'daily: :45', '30-second: :30', '5-minute: 9am',
                                   # listed as an example in the docstring, but its own rules make
                                   # clock times unavailable in hour-based intervals
                                   '4-hour: :00, 1:20, 2:40']),
    ('duplicate-unit', ['daily: +1d +2d', 'daily: 9:30am +2H', 'weekly: Mo Tu', 'weekly: Mo +1d',
                        'annual: Jan-15 +3d', 'hourly: :15 +5M', 'daily: 9am 10am',
                        'annual: Jan-15 +1m']),
    ('zero-interval', ['0-day: 0:00', '0-day: 23:59', '0-week: Mo', '0-month: /1', '0-hour: :00']),
]


class Timeout(Exception):
  pass


def _on_alarm(_sig, _frm):
  raise Timeout()


_handler_installed = False


def guarded(func, seconds=2.0):
  """
  Runs func() under a limit of `seconds` of this process's own CPU time (ITIMER_VIRTUAL, so that
  a loaded machine cannot cause a false alarm); raises Timeout if it does not return.
  """
  global _handler_installed    # pylint: disable=global-statement
  if not _handler_installed:
    signal.signal(signal.SIGVTALRM, _on_alarm)
    _handler_installed = True
  signal.setitimer(signal.ITIMER_VIRTUAL, seconds)
  try:
    return func()
  finally:
    signal.setitimer(signal.ITIMER_VIRTUAL, 0)


# ----------------------------------------------------------------------------------------------
# Reference
# ----------------------------------------------------------------------------------------------

def add_months(dt, months):
  if not months:
    return dt
  assert dt.day == 1, "reference adds months to first-of-month boundaries only"
  y, m = divmod(dt.year * 12 + dt.month - 1 + months, 12)
  return dt.replace(year=y, month=m + 1)


def boundary(unit, start):
  """Unit boundary at or before the naive start."""
  if unit == 'years':
    return _dt.datetime(start.year, 1, 1)
  if unit == 'months':
    return _dt.datetime(start.year, start.month, 1)
  midnight = _dt.datetime(start.year, start.month, start.day)
  if unit == 'weeks':
    return midnight - _dt.timedelta(days=(start.weekday() + 1) % 7)      # back to Sunday
  if unit == 'days':
    return midnight
  secs = {'hours': HR, 'minutes': MN, 'seconds': 1}[unit]
  since = (start - midnight)
  whole = (since.seconds // secs) * secs
  return midnight + _dt.timedelta(seconds=whole)


def ref_occurrences(unit, n, slots, start, intervals):
  """Flattened occurrences of `intervals` consecutive intervals from the boundary before start."""
  (um, us) = UNITS[unit][0]
  b = boundary(unit, start)
  out = []
  for k in range(intervals):
    base = add_months(b, k * n * um) + _dt.timedelta(seconds=k * n * us)
    for (sm, ss) in slots:
      out.append(add_months(base, sm) + _dt.timedelta(seconds=ss))
  return out


def increasing(seq):
  return all(a < b for a, b in zip(seq, seq[1:]))


def expected(flat, start, end, count):
  res = [o for o in flat if o >= start and (end is None or o <= end)]
  return res[:max(count, 0)]


# ----------------------------------------------------------------------------------------------
# Enumeration
# ----------------------------------------------------------------------------------------------

NY = 'America/New_York'

BASE_STARTS = [     # (label, naive datetime or date, zone or None)
    ('doc-tue-2pm', _dt.datetime(2018, 9, 4, 14, 0), None),
    ('mid-month-us', _dt.datetime(2023, 6, 15, 15, 30, 45, 500000), None),
    ('leap-day', _dt.datetime(2024, 2, 29, 10, 0), None),
    ('feb-28-late', _dt.datetime(2023, 2, 28, 23, 30), None),
    ('dec-31-last-second', _dt.datetime(2023, 12, 31, 23, 59, 59), None),
    ('sunday-1st-midnight', _dt.datetime(2023, 10, 1, 0, 0), None),
    ('jan-1-midnight', _dt.datetime(2024, 1, 1, 0, 0), None),
    ('date-object', _dt.date(2023, 6, 15), None),
    ('ny-before-spring-forward', _dt.datetime(2023, 3, 11, 14, 0), NY),
    ('ny-before-fall-back', _dt.datetime(2023, 11, 4, 22, 15), NY),
]
QUICK_STARTS = ('doc-tue-2pm', 'mid-month-us', 'dec-31-last-second', 'sunday-1st-midnight',
                'ny-before-spring-forward')


def as_naive(value):
  if isinstance(value, _dt.datetime):
    return value
  return _dt.datetime(value.year, value.month, value.day)


def interval_spellings(unit, n):
  word = UNITS[unit][1]
  out = ['%d-%s' % (n, word), '%d-%ss' % (n, word), '%d %s' % (n, word), '%d-%s' % (n, word.upper()),
         '%d - %s' % (n, word)]
  if n == 1 and unit in ALIASES:
    out += [ALIASES[unit], ALIASES[unit].capitalize()]
  return out


def schedules(tier):
  """Yields (tag, text, unit, n, slots[(months, seconds)])."""
  maxslots = 2 if tier == 'quick' else 3
  mults = (1, 2) if tier == 'quick' else (1, 2, 3)
  for unit in UNITS:
    menu = MENUS[unit]
    for n in mults:
      spell = interval_spellings(unit, n)
      canonical = spell[-1] if (n == 1 and unit in ALIASES) else spell[0]
      for size in range(1, maxslots + 1):
        for combo in itertools.combinations(menu, size):
          yield ('enum', canonical + ': ' + ', '.join(c[0] for c in combo), unit, n,
                 [(c[1], c[2]) for c in combo])
      # Other spellings of the interval and of the separators, with 1- and 2-slot lists.
      for i, sp in enumerate(spell):
        if sp == canonical:
          continue
        for j, combo in enumerate(itertools.combinations(menu[:5], 2)):
          sep = (',', ' ,', ' , ', ',  ')[(i + j) % 4]
          yield ('enum', sp + ':' + (' ' * (j % 3)) + sep.join(c[0] for c in combo), unit, n,
                 [(c[1], c[2]) for c in combo])
  for unit, n in (('hours', 4), ('hours', 24), ('minutes', 10), ('months', 6), ('days', 7)):
    word = UNITS[unit][1]
    for combo in itertools.combinations(MENUS[unit], 2):
      yield ('enum', '%d-%s: %s' % (n, word, ', '.join(c[0] for c in combo)), unit, n,
             [(c[1], c[2]) for c in combo])
  for text, unit, n, slots in DOC_EXAMPLES:
    yield ('doc', text, unit, n, slots)


def starts_for(tier, unit, n, slots):
  """Yields (label, start value passed to SCHEDULE, naive start, zone)."""
  for label, value, zone in BASE_STARTS:
    if tier == 'quick' and label not in QUICK_STARTS:
      continue
    nv = as_naive(value)
    passed = value.replace(tzinfo=moment.tzinfo(zone)) if zone else value
    yield label, passed, nv, zone
  # Exactly on an occurrence, and one microsecond after one (derived with the reference).
  anchor = _dt.datetime(2023, 6, 15, 15, 30, 45, 500000)
  flat = ref_occurrences(unit, n, slots, anchor, 3)
  later = [o for o in flat if o >= anchor]
  if later:
    yield 'on-occurrence', later[0], later[0], None
    yield 'just-after-occurrence', later[0] + _dt.timedelta(microseconds=1), \
        later[0] + _dt.timedelta(microseconds=1), None


def call(text, start, count, end):
  kwargs = {'start': start}
  if count is not None:
    kwargs['count'] = count
  if end is not None:
    kwargs['end'] = end
  return guarded(lambda: list(SCHEDULE(text, **kwargs)))


def check_case(tag, text, unit, n, slots, start, nstart, zone, count, end_naive):
  """One SCHEDULE call against the reference. Returns (status, failure or None, expected)."""
  eff_count = 10 if count is None else count
  intervals = eff_count // len(slots) + 3
  flat = ref_occurrences(unit, n, slots, nstart, intervals + 1)
  if not increasing(flat):
    return 'out-of-precondition', None, None
  want = expected(flat[:intervals * len(slots)], nstart, end_naive, eff_count)
  tz = moment.tzinfo(zone) if zone else None
  end = end_naive.replace(tzinfo=tz) if (end_naive is not None and tz) else end_naive
  try:
    got = call(text, start, count, end)
  except Timeout:
    return 'ran', ('C35/hang/' + tag, "SCHEDULE(%r, start=%r, count=%r, end=%r) did not return "
                   "within 2 s of CPU time" % (text, start, count, end)), want
  except Exception as e:      # pylint: disable=broad-except
    return 'ran', ('C35/raised/%s/%s' % (tag, type(e).__name__),
                   "SCHEDULE(%r, start=%r, count=%r, end=%r) raised %s; reference expects %s" % (
                       text, start, count, end, H.exc_text(e), [str(w) for w in want[:3]])), want
  got_naive = [g.replace(tzinfo=None) for g in got]
  if got_naive != want:
    return 'ran', ('C35/wrong-occurrences/' + tag,
                   "SCHEDULE(%r, start=%r, count=%r, end=%r) = %s, reference %s" % (
                       text, start, count, end, [str(g) for g in got_naive[:8]],
                       [str(w) for w in want[:8]])), want
  if tz is not None and any(g.tzinfo is not tz for g in got):
    return 'ran', ('C35/wrong-timezone', "SCHEDULE(%r, start=%r) results do not carry the time "
                   "zone of start: %r" % (text, start, [g.tzinfo for g in got][:3])), want
  if tz is None and any(g.tzinfo is None for g in got):
    return 'ran', ('C35/wrong-timezone', "SCHEDULE(%r, start=%r) returned naive datetimes" % (
        text, start)), want
  return 'ran', None, want


def case_dict(tag, text, unit, n, slots, label, nstart, zone, count, end_naive, is_date):
  return {'tag': tag, 'schedule': text, 'unit': unit, 'n': n, 'slots': [list(s) for s in slots],
          'start_label': label, 'start': nstart.isoformat(), 'start_is_date': is_date, 'zone': zone,
          'count': count, 'end': end_naive.isoformat() if end_naive is not None else None}


def run_schedule(E, tier, sched, keys):
  tag, text, unit, n, slots = sched
  counts = (3, 1, 0) if tier == 'quick' else (3, 1, 0, 7)
  for label, start, nstart, zone in starts_for(tier, unit, n, slots):
    is_date = not isinstance(start, _dt.datetime)
    # End candidates derived from the reference's own sequence for this start.
    flat = ref_occurrences(unit, n, slots, nstart, 5)
    seq = [o for o in flat if o >= nstart] if increasing(flat) else []
    ends = [('none', None)]
    if len(seq) >= 3:
      ends += [('before-first', seq[0] - _dt.timedelta(seconds=1)), ('on-second', seq[1]),
               ('between-2-3', seq[1] + (seq[2] - seq[1]) / 2), ('far', seq[0] + _dt.timedelta(days=5000))]
    variants = [(c, e) for c in counts for e in ends if not (c == 0 and e[0] != 'none')]
    variants.append((None, ends[0]))                       # default count (10)
    if len(ends) > 1:
      variants.append((None, ends[3]))
    for count, (elabel, end_naive) in variants:
      status, bad, want = check_case(tag, text, unit, n, slots, start, nstart, zone, count, end_naive)
      if status != 'ran':
        E.count(None, nontrivial=False)
        E.extra['out_of_precondition'] = E.extra.get('out_of_precondition', 0) + 1
        continue
      nontriv = bool(want)
      sample = None
      if nontriv and count == 3 and elabel in ('far', 'on-second') and len(slots) >= 2 and \
          label in ('mid-month-us', 'ny-before-spring-forward') and \
          unit == E.sample_unit and (unit, label) not in E.extra_sampled:
        E.extra_sampled.add((unit, label))    # one sample per unit and kind of start per worker
        sample = {'schedule': text, 'start': str(start), 'count': count, 'end': str(end_naive),
                  'result': [str(w) for w in want]}
      E.count(None, nontrivial=False, sample=sample)
      E.extra['valid_calls'] = E.extra.get('valid_calls', 0) + 1
      if nontriv:
        keys.add((text, label, count, elabel))
      if bad:
        E.fail(bad[0], bad[1], case=case_dict(tag, text, unit, n, slots, label, nstart, zone, count,
                                              end_naive, is_date))


def check_invalid(label, text):
  """An invalid schedule string must raise ValueError. Returns failure or None."""
  start = _dt.datetime(2018, 9, 4, 14, 0)
  try:
    got = guarded(lambda: list(SCHEDULE(text, start=start, count=3)), seconds=1.0)
  except ValueError:
    return None
  except Timeout:
    return ('C35/invalid-not-rejected/' + label, "SCHEDULE(%r, start=%s, count=3) does not raise "
            "ValueError and does not return within 1 s of CPU time" % (text, start))
  except Exception as e:      # pylint: disable=broad-except
    return ('C35/invalid-wrong-exception/%s/%s' % (label, type(e).__name__),
            "SCHEDULE(%r) raised %s instead of ValueError" % (text, H.exc_text(e)))
  return ('C35/invalid-not-rejected/' + label, "SCHEDULE(%r, start=%s, count=3) returned %s instead "
          "of raising ValueError" % (text, start, [str(g) for g in got]))


def worker(args):
  tier, scheds, index = args
  E = Enum(PartReport('C35'), rule='', max_samples=2)
  E.extra_sampled = set()
  E.sample_unit = list(UNITS)[index % len(UNITS)]     # written-out samples rotate over the units
  keys = set()
  for sched in scheds:
    run_schedule(E, tier, sched, keys)
  E.nontrivial_count += len(keys)     # a schedule text lives in exactly one chunk
  return part_of(E)


def run(tier, report):
  scheds = list(schedules(tier))
  texts = [s[1] for s in scheds]
  assert len(set(texts)) == len(texts), "schedule texts must be distinct"
  E = Enum(report, max_samples=14, rule=(
      'schedules = interval multiples %s x units %s (plus 4/24-hour, 10-minute, 6-month, 7-day) x '
      'every increasing slot list of <= %d slots from the per-unit menus (%s slots per menu) + '
      'alternative interval/separator spellings + the docstring examples: %d schedules; starts = '
      '%d fixed starts (naive, date, zone-aware) + on / 1 us after an occurrence; count in %s and '
      'default; end in {none, before first, on 2nd, between 2nd and 3rd, far}. Calls whose '
      'reference sequence is not strictly increasing (slot beyond the interval, e.g. /31 in a '
      'short month) are outside the property and counted as out_of_precondition. non-trivial = '
      'reference expects a non-empty result; distinct per (schedule text, start, count, end). '
      'Plus %d malformed strings that must raise ValueError (non-trivial, distinct by text)' % (
          '{1,2}' if tier == 'quick' else '{1,2,3}', sorted(UNITS), 2 if tier == 'quick' else 3,
          '/'.join(str(len(MENUS[u])) for u in UNITS), len(scheds),
          len(QUICK_STARTS) if tier == 'quick' else len(BASE_STARTS),
          '{0,1,3}' if tier == 'quick' else '{0,1,3,7}', sum(len(v) for _, v in INVALID))))
  nchunks = 64
  chunks = [(tier, scheds[i::nchunks], i) for i in range(nchunks)]
  for part in pmap(worker, [c for c in chunks if c[1]]):
    E.merge(part)
  for label, texts in INVALID:
    for text in texts:
      bad = check_invalid(label, text)
      E.count('invalid:' + text, sample={'invalid': text, 'class': label} if text == texts[0] and
              label in ('duplicate-unit', 'slot-not-allowed-for-unit') else None)
      E.extra['invalid_strings'] = E.extra.get('invalid_strings', 0) + 1
      if bad:
        E.fail(bad[0], bad[1], case={'invalid': text, 'class': label})
  E.finish(exhaustive=True, schedules=len(scheds))
  report.assumptions.append('month-valued slots (+Nm, Jan-15) are only used in year/month based '
                            'intervals, where the boundary is the 1st of a month; adding months to '
                            'other days is not defined by the documentation')
  report.assumptions.append('end is given in the same time zone as start; out-of-range numbers '
                            '(25:00, 13/1, /0) are not claimed to be invalid')


def replay(viol):
  c = viol['case']
  if 'invalid' in c:
    bad = check_invalid(c['class'], c['invalid'])
  else:
    nstart = _dt.datetime.fromisoformat(c['start'])
    start = nstart.date() if c.get('start_is_date') else nstart
    if c['zone']:
      start = nstart.replace(tzinfo=moment.tzinfo(c['zone']))
    end = _dt.datetime.fromisoformat(c['end']) if c['end'] else None
    _status, bad, _want = check_case(c['tag'], c['schedule'], c['unit'], c['n'],
                                     [tuple(s) for s in c['slots']], start, nstart, c['zone'],
                                     c['count'], end)
  print("%s -> %s" % (c, bad))
  if bad:
    print("VIOLATION property=C35 replay=(this file) reproduced")
    return 1
  return 0
