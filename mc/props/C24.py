"""
C24 Everything sent to Node is marshal-safe and round-trips.

Exhaustive over a catalogue of value-building formula programs (atoms x container wrappers) and of
encoded inputs, each driven through the REAL transport: main.run(sandbox.Sandbox(in, out)) with
in-memory streams carrying marshalled CALL frames (apply_user_actions / fetch_table /
fetch_meta_tables / get_formula_error) exactly as Node sends them.

Routes (one fresh engine per (value, route)):
  formula  the value is RETURNED BY A FORMULA of an Any formula column F (and read by G = rec.F)
  trigger  the value is computed by a trigger formula and so HELD IN AN Any DATA CELL D
  input    the value held in D becomes the `user_input` of a later trigger-formula error
  cell     an encoded value as Node may send it is written to an Any data cell by a user action

Oracle: every reply frame is DATA and unmarshals; the encoded cell matches the form the
documentation promises (a hand-written pattern per catalogue entry, not computed by objtypes);
every encoded cell value x in every reply satisfies the property's law encode(decode(x)) == x
(compared as Node sees values: int/float of equal value alike, bools apart, NaN == NaN); and
writing x back through the transport into another Any data cell makes fetch_table return x again.
After an apply_user_actions reply that is EXC, the columns holding the value are removed and the
table fetched, to tell whether the reply was lost AFTER the engine had applied the change.
"""
import re
import math
import marshal
import itertools

from mc import harness as H
from mc.enumprop import Enum, PartReport, part_of, pmap

import sandbox as sandbox_mod      # code under test (transport)
import main as main_mod            # code under test (registered functions)
import objtypes                    # code under test (encode/decode for the round-trip law)
import docmodel as docmodel_mod

LEVEL = 'exploration'


# ----------------------------------------------------------------------------------------------
# The wire: in-memory byte streams, requests produced lazily so a request may use earlier replies
# ----------------------------------------------------------------------------------------------

class Wire(object):
  """
  File-like object handed to sandbox.Sandbox as BOTH external_input and external_output.  Reads
  pull marshalled CALL frames; each frame is produced when the previous one has been consumed, by
  sending the previous reply (code, body) into the `script` generator.  Writes collect reply frames.
  """
  def __init__(self, script):
    self.script = script
    self.started = False
    self.buf = b''
    self.pos = 0
    self.frames = []          # raw reply frames (bytes written by marshal.dump)
    self.transcript = []      # [call, code, body] ; code 'UNLOADABLE' if marshal.loads failed
    self.pending = None

  # -- reply side ------------------------------------------------------------------------------
  def write(self, data):
    self.frames.append(bytes(data))
    return len(data)

  def flush(self):
    pass

  def _take_reply(self):
    if self.pending is None:
      return None
    call, self.pending = self.pending, None
    if not self.frames:
      rec = [call, 'NOREPLY', None]
    else:
      frame = self.frames.pop(0)
      try:
        buf = marshal.loads(frame)
        code, body = marshal.loads(buf)
        rec = [call, code, body]
      except Exception as e:    # pylint: disable=broad-except
        rec = [call, 'UNLOADABLE', H.exc_text(e)]
    self.transcript.append(rec)
    return rec

  # -- request side ----------------------------------------------------------------------------
  def _feed(self):
    reply = self._take_reply()
    try:
      call = self.script.send(reply) if self.started else next(self.script)
    except StopIteration:
      return False
    self.started = True
    self.pending = call
    self.buf = marshal.dumps(None, 2) + marshal.dumps(call, 2)
    self.pos = 0
    return True

  def read(self, n=-1):
    if n == 0:
      return b''
    if self.pos >= len(self.buf) and not self._feed():
      return b''
    end = len(self.buf) if n is None or n < 0 else min(len(self.buf), self.pos + n)
    out = self.buf[self.pos:end]
    self.pos = end
    return out

  def readinto(self, b):
    data = self.read(len(b))
    b[:len(data)] = data
    return len(data)


def drive(script):
  """Runs the real main.run over a Wire; returns the transcript [[call, code, body], ...]."""
  wire = Wire(script)
  saved = docmodel_mod.global_docmodel
  try:
    main_mod.run(sandbox_mod.Sandbox(wire, wire))
  finally:
    docmodel_mod.global_docmodel = saved
  wire._take_reply()      # pylint: disable=protected-access
  return wire.transcript


# ----------------------------------------------------------------------------------------------
# Patterns for expected encoded forms
# ----------------------------------------------------------------------------------------------

class _AnyStr(object):
  def __repr__(self):
    return '<any str>'
ANYSTR = _AnyStr()

class _AnyNum(object):
  def __repr__(self):
    return '<any number>'
ANYNUM = _AnyNum()

class _Anything(object):
  def __repr__(self):
    return '<anything>'
ANY = _Anything()

class Prefix(object):
  """A list starting with the given items."""
  def __init__(self, *items):
    self.items = list(items)
  def __repr__(self):
    return 'Prefix%r' % (self.items,)

class Either(object):
  def __init__(self, *alts):
    self.alts = alts
  def __repr__(self):
    return 'Either%r' % (self.alts,)

class ErrWithInput(object):
  """['E', name, ..., {'u': pattern}]"""
  def __init__(self, name, inner):
    self.name, self.inner = name, inner
  def __repr__(self):
    return "['E', %r, ..., {'u': %r}]" % (self.name, self.inner)

U = ['U', ANYSTR]


def match(p, a):
  # pylint: disable=too-many-return-statements,unidiomatic-typecheck,too-many-branches
  if p is ANY:
    return True
  if p is ANYSTR:
    return type(a) is str
  if p is ANYNUM:
    return type(a) in (int, float)
  if isinstance(p, Either):
    return any(match(x, a) for x in p.alts)
  if isinstance(p, Prefix):
    return (type(a) is list and len(a) >= len(p.items) and
            all(match(x, y) for x, y in zip(p.items, a)))
  if isinstance(p, ErrWithInput):
    return (type(a) is list and len(a) >= 3 and a[0] == 'E' and a[1] == p.name and
            type(a[-1]) is dict and list(a[-1]) == ['u'] and match(p.inner, a[-1]['u']))
  if p is None:
    return a is None
  if isinstance(p, bool):
    return type(a) is bool and a == p
  if isinstance(p, float) and math.isnan(p):
    return type(a) is float and math.isnan(a)
  if isinstance(p, (int, float)):
    if type(a) not in (int, float) or a != p:
      return False
    return math.copysign(1, a) == math.copysign(1, p) if p == 0 and type(p) is float else True
  if isinstance(p, str):
    return type(a) is str and a == p
  if isinstance(p, list):
    return type(a) is list and len(a) == len(p) and all(match(x, y) for x, y in zip(p, a))
  if isinstance(p, dict):
    return (type(a) is dict and set(a) == set(p) and all(type(k) is str for k in a) and
            all(match(v, a[k]) for k, v in p.items()))
  raise TypeError("bad pattern %r" % (p,))


def is_error_pat(p):
  return isinstance(p, Prefix) and p.items[:1] == ['E']


# ----------------------------------------------------------------------------------------------
# Catalogue, part 1: programs.  Every formula is the needed definitions + atom setup + "return " +
# the wrapped expression.
# ----------------------------------------------------------------------------------------------

IMPORTS = 'import enum, collections, datetime, decimal, fractions, types\nimport objtypes, moment\n'

# (name, definition, names it needs); only the definitions a program mentions are put in its text.
SNIPPETS = [
  ('S', 'class S(str): pass', ()),
  ('I', 'class I(int): pass', ()),
  ('Fl', 'class Fl(float): pass', ()),
  ('By', 'class By(bytes): pass', ()),
  ('Li', 'class Li(list): pass', ()),
  ('Tu', 'class Tu(tuple): pass', ()),
  ('Di', 'class Di(dict): pass', ()),
  ('Dt', 'class Dt(datetime.date): pass', ()),
  ('Dtt', 'class Dtt(datetime.datetime): pass', ()),
  ('SelfStr', 'class SelfStr(str):\n  def __str__(self): return self', ()),
  ('DecodeBy', 'class DecodeBy(bytes):\n  def decode(self, *a, **k): return S("decoded")', ('S',)),
  ('IntI', 'class IntI(int):\n  def __int__(self): return I(3)', ('I',)),
  ('FloatFl', 'class FloatFl(float):\n  def __float__(self): return Fl(2.5)', ('Fl',)),
  ('ReprSub', 'class ReprSub(object):\n  def __repr__(self): return S("reprsub")', ('S',)),
  ('ReprRaise', 'class ReprRaise(object):\n  def __repr__(self): raise ValueError("no repr")', ()),
  ('ReprNonStr', 'class ReprNonStr(object):\n  def __repr__(self): return 5', ()),
  ('EqTrue', 'class EqTrue(object):\n  def __eq__(self, other): return True\n'
             '  def __hash__(self): return 1', ()),
  ('EqRaise', 'class EqRaise(object):\n  def __eq__(self, other): raise ValueError("no eq")\n'
              '  def __hash__(self): return 1', ()),
  ('liar', 'def liar(cls):\n  class Liar(object):\n    __class__ = cls\n  return Liar()', ()),
  ('Color', 'class Color(enum.IntEnum):\n  RED = 1', ()),
  ('Plain', 'class Plain(enum.Enum):\n  X = 1', ()),
  ('Flag', 'class Flag(enum.IntFlag):\n  A = 1\n  B = 2', ()),
  ('NT', 'NT = collections.namedtuple("NT", "a b")', ()),
  ('ErrStrSub', 'class ErrStrSub(Exception):\n  def __str__(self): return S("strsub message")',
   ('S',)),
  ('ErrStrRaise', 'class ErrStrRaise(Exception):\n  def __str__(self): raise ValueError("no str")',
   ()),
  ('ErrReprRaise', 'class ErrReprRaise(Exception):\n'
                   '  def __repr__(self): raise ValueError("no repr")', ()),
  ('deepnest', 'def deepnest(n):\n  x = []\n  for _i in range(n):\n    x = [x]\n  return x', ()),
]


def prelude_for(text):
  need = set()
  def want(name):
    if name not in need:
      need.add(name)
      for (n, _code, deps) in SNIPPETS:
        if n == name:
          for d in deps:
            want(d)
  for (n, _code, _deps) in SNIPPETS:
    if re.search(r'\b%s\b' % n, text):
      want(n)
  return IMPORTS + ''.join(code + '\n' for (n, code, _d) in SNIPPETS if n in need)

def nested_L(n):
  x = ['L']
  for _ in range(n):
    x = ['L', x]
  return x

# (name, family, setup statements, expression, expected encoded pattern or None if unspecified)
# family names the adversarial feature; it becomes part of the finding key.
ATOMS = [
  # primitives
  ('none', 'plain', '', 'None', None),
  ('true', 'plain', '', 'True', True),
  ('false', 'plain', '', 'False', False),
  ('int0', 'plain', '', '0', 0),
  ('int', 'plain', '', '7', 7),
  ('intneg', 'plain', '', '-5', -5),
  ('int31max', 'plain', '', '2**31 - 1', 2147483647),
  ('int31min', 'plain', '', '-2**31', -2147483648),
  ('int31over', 'bigint', '', '2**31', ['U', '2147483648']),
  ('int31under', 'bigint', '', '-2**31 - 1', ['U', '-2147483649']),
  ('int53', 'bigint', '', '2**53 + 1', ['U', '9007199254740993']),
  ('int70', 'bigint', '', '2**70', ['U', '1180591620717411303424']),
  ('int400', 'bigint', '', '10**400', ['U', '1' + '0' * 400]),
  ('int5000', 'bigint', '', '10**5000', U),
  ('float', 'plain', '', '1.5', 1.5),
  ('floatint', 'plain', '', '2.0', 2.0),
  ('negzero', 'plain', '', '-0.0', -0.0),
  ('nan', 'float-special', '', 'float("nan")', float('nan')),
  ('inf', 'float-special', '', 'float("inf")', float('inf')),
  ('neginf', 'float-special', '', '-float("inf")', -float('inf')),
  ('fmax', 'plain', '', '1.7976931348623157e308', 1.7976931348623157e308),
  ('fmin', 'plain', '', '5e-324', 5e-324),
  ('str', 'plain', '', '"x"', 'x'),
  ('strempty', 'plain', '', '""', ''),
  ('strunicode', 'plain', '', r'"é☃\U0001F600"', u'é☃\U0001F600'),
  ('strnul', 'plain', '', r'"a\x00b"', 'a\x00b'),
  ('strsurrogate', 'lone-surrogate', '', r'"\ud800"', u'\ud800'),
  ('strlong', 'plain', '', '"ab" * 50000', 'ab' * 50000),
  ('strlooksencoded', 'plain', '', '"[\'L\', 1]"', "['L', 1]"),
  ('bytes', 'bytes', '', 'b"abc"', 'abc'),
  ('bytesempty', 'bytes', '', 'b""', ''),
  ('bytesutf8', 'bytes', '', r'b"\xc3\xa9"', u'é'),
  ('bytesbad', 'bytes', '', r'b"\xff\xfe"', ['U', r"b'\xff\xfe'"]),
  ('bytearray', 'bytes', '', 'bytearray(b"ab")', ['U', "bytearray(b'ab')"]),
  ('memoryview', 'bytes', '', 'memoryview(b"ab")', U),
  # subclasses of builtins
  ('S', 'str-subclass', '', 'S("x")', 'x'),
  ('Sempty', 'str-subclass', '', 'S("")', ''),
  ('SelfStr', 'str-subclass-overriding-__str__', '', 'SelfStr("x")', 'x'),
  ('I', 'int-subclass', '', 'I(5)', 5),
  ('Ibig', 'int-subclass', '', 'I(2**40)', ['U', '1099511627776']),
  ('IntI', 'int-subclass-overriding-__int__', '', 'IntI(5)', Either(5, 3)),
  ('Fl', 'float-subclass', '', 'Fl(1.5)', 1.5),
  ('Flnan', 'float-subclass', '', 'Fl("nan")', float('nan')),
  ('FloatFl', 'float-subclass-overriding-__float__', '', 'FloatFl(1.5)', Either(1.5, 2.5)),
  ('By', 'bytes-subclass', '', 'By(b"ab")', 'ab'),
  ('DecodeBy', 'bytes-subclass-overriding-decode', '', 'DecodeBy(b"ab")', Either('ab', 'decoded')),
  ('Li', 'list-subclass', '', 'Li([1, "a"])', ['L', 1, 'a']),
  ('Tu', 'tuple-subclass', '', 'Tu((1, "a"))', ['L', 1, 'a']),
  ('Di', 'dict-subclass', '', 'Di({"a": 1})', ['O', {'a': 1}]),
  ('ordereddict', 'dict-subclass', '', 'collections.OrderedDict([("b", 1), ("a", 2)])',
   ['O', {'b': 1, 'a': 2}]),
  ('defaultdict', 'dict-subclass', '', 'collections.defaultdict(list, {"a": [1]})',
   ['O', {'a': ['L', 1]}]),
  ('counter', 'dict-subclass', '', 'collections.Counter("aab")', ['O', {'a': 2, 'b': 1}]),
  ('namedtuple', 'tuple-subclass', '', 'NT(1, "b")', ['L', 1, 'b']),
  ('intenum', 'int-enum', '', 'Color.RED', 1),
  ('intflag', 'int-enum', '', 'Flag.A | Flag.B', 3),
  ('enum', 'enum', '', 'Plain.X', ['U', '<Plain.X: 1>']),
  # containers
  ('list0', 'plain', '', '[]', ['L']),
  ('listmixed', 'plain', '', '[1, "a", None, True, 2.5]', ['L', 1, 'a', None, True, 2.5]),
  ('tuple0', 'plain', '', '()', ['L']),
  ('listlooksencoded', 'plain', '', '["d", 86400]', ['L', 'd', 86400]),
  ('dict0', 'plain', '', '{}', ['O', {}]),
  ('dict', 'plain', '', '{"a": 1, "b": [2]}', ['O', {'a': 1, 'b': ['L', 2]}]),
  ('dictintkey', 'dict-odd-keys', '', '{1: 2}', ['U', '{1: 2}']),
  ('dictmixedkey', 'dict-odd-keys', '', '{"a": 1, 2: 3}', ['U', "{'a': 1, 2: 3}"]),
  ('dictnonekey', 'dict-odd-keys', '', '{None: 1}', ['U', '{None: 1}']),
  ('dicttuplekey', 'dict-odd-keys', '', '{(1, 2): 3}', ['U', '{(1, 2): 3}']),
  ('dictbyteskey', 'dict-odd-keys', '', '{b"k": 1}', ['U', "{b'k': 1}"]),
  ('dictSkey', 'dict-key-str-subclass', '', '{S("k"): 1}', Either(['O', {'k': 1}], U)),
  ('dictSkeymixed', 'dict-key-str-subclass', '', '{"a": 0, S("k"): 1}',
   Either(['O', {'a': 0, 'k': 1}], U)),
  ('set', 'set', '', '{1, 2}', ['U', '{1, 2}']),
  ('frozenset', 'set', '', 'frozenset([1])', ['U', 'frozenset({1})']),
  ('range', 'other-object', '', 'range(3)', ['U', 'range(0, 3)']),
  ('generator', 'other-object', '', '(i for i in [1])', U),
  ('lambda', 'other-object', '', '(lambda: 1)', U),
  ('klass', 'other-object', '', 'S', U),
  ('module', 'other-object', '', 'enum', U),
  ('notimplemented', 'other-object', '', 'NotImplemented', ['U', 'NotImplemented']),
  ('ellipsis', 'other-object', '', 'Ellipsis', ['U', 'Ellipsis']),
  ('complex', 'other-object', '', '1j', ['U', '1j']),
  ('decimal', 'other-object', '', 'decimal.Decimal("1.5")', ['U', "Decimal('1.5')"]),
  ('fraction', 'other-object', '', 'fractions.Fraction(1, 2)', ['U', 'Fraction(1, 2)']),
  ('object', 'other-object', '', 'object()', U),
  ('simplens', 'other-object', '', 'types.SimpleNamespace(a=1)', ['U', 'namespace(a=1)']),
  # nesting
  ('deep10', 'deep-nesting', '', 'deepnest(10)', nested_L(10)),
  ('deep100', 'deep-nesting', '', 'deepnest(100)', nested_L(100)),
  ('deep900', 'deep-nesting', '', 'deepnest(900)', None),
  ('deep1100', 'deep-nesting', '', 'deepnest(1100)', None),
  ('deep2100', 'deep-nesting', '', 'deepnest(2100)', None),
  ('deep5000', 'deep-nesting', '', 'deepnest(5000)', None),
  ('reclist', 'recursive-container', 'rl = []\nrl.append(rl)', 'rl', None),
  ('recdict', 'recursive-container', 'rd = {}\nrd["self"] = rd', 'rd', None),
  ('recmutual', 'recursive-container', 'ra = []\nrb = {"a": ra}\nra.append(rb)', 'ra', None),
  # dates
  ('date', 'date', '', 'datetime.date(2020, 1, 2)', ['d', 1577923200]),
  ('datemin', 'date', '', 'datetime.date.min', ['d', -62135596800]),
  ('datemax', 'date', '', 'datetime.date.max', ['d', 253402214400]),
  ('datesub', 'date', '', 'Dt(2020, 1, 2)', ['d', 1577923200]),
  ('dtnaive', 'datetime', '', 'datetime.datetime(2020, 1, 2, 3, 4, 5)', ['D', 1577934245, 'UTC']),
  ('dtmicro', 'datetime', '', 'datetime.datetime(2020, 1, 2, 3, 4, 5, 250000)',
   ['D', 1577934245.25, 'UTC']),
  ('dtsub', 'datetime', '', 'Dtt(2020, 1, 2, 3, 4, 5)', ['D', 1577934245, 'UTC']),
  ('dtmomentny', 'datetime-with-tz', '',
   'datetime.datetime(2020, 1, 2, 3, 4, 5, tzinfo=moment.tzinfo("America/New_York"))',
   ['D', 1577952245, 'America/New_York']),
  ('dtmomentutc', 'datetime-with-tz', '',
   'datetime.datetime(2020, 1, 2, 3, 4, 5, tzinfo=moment.tzinfo("UTC"))', ['D', 1577934245, 'UTC']),
  ('dtstdutc', 'datetime-with-foreign-tz', '',
   'datetime.datetime(2020, 1, 2, 3, 4, 5, tzinfo=datetime.timezone.utc)',
   Either(['D', 1577934245, ANYSTR], U)),
  ('dtstdoffset', 'datetime-with-foreign-tz', '',
   'datetime.datetime(2020, 1, 2, 3, 4, 5, tzinfo=datetime.timezone(datetime.timedelta(hours=5, '
   'minutes=30), S("IST")))', Either(['D', 1577914445, ANYSTR], U)),
  ('dtmin', 'datetime', '', 'datetime.datetime.min', ['D', -62135596800, 'UTC']),
  ('time', 'other-object', '', 'datetime.time(1, 2)', ['U', 'datetime.time(1, 2)']),
  ('timedelta', 'other-object', '', 'datetime.timedelta(1)', ['U', 'datetime.timedelta(days=1)']),
  # objects with hostile special methods
  ('ReprSub', 'repr-returns-str-subclass', '', 'ReprSub()', ['U', 'reprsub']),
  ('ReprRaise', 'repr-raises', '', 'ReprRaise()', ['U', '<ReprRaise>']),
  ('ReprNonStr', 'repr-raises', '', 'ReprNonStr()', ['U', '<ReprNonStr>']),
  ('EqTrue', 'eq-hostile', '', 'EqTrue()', None),
  ('EqRaise', 'eq-hostile', '', 'EqRaise()', U),
  ('liarstr', 'class-liar', '', 'liar(str)', None),
  ('liarint', 'class-liar', '', 'liar(int)', None),
  ('liarfloat', 'class-liar', '', 'liar(float)', None),
  ('liarbytes', 'class-liar', '', 'liar(bytes)', None),
  ('liarlist', 'class-liar', '', 'liar(list)', None),
  ('liardict', 'class-liar', '', 'liar(dict)', None),
  ('liardate', 'class-liar', '', 'liar(datetime.date)', None),
  # records
  ('record', 'record', '', 'rec', ['R', 'T', 1]),
  ('recordset', 'record', '', 'T.lookupRecords()', ['r', 'T', [1]]),
  ('recordset0', 'record', '', 'T.lookupRecords(A="nope")', ['r', 'T', []]),
  ('norecord', 'record', '', 'T.lookupOne(A="nope")', ['R', 'T', 0]),
  ('usertable', 'other-object', '', 'T', U),
  # engine wrapper objects built by the formula itself
  ('alttext', 'engine-object', '', 'objtypes.AltText("alt")', 'alt'),
  ('alttextS', 'engine-object-with-subclass-fields', '', 'objtypes.AltText(S("alt"))', 'alt'),
  ('unmarshS', 'engine-object-with-subclass-fields', '', 'objtypes.UnmarshallableValue(S("u"))',
   ['U', 'u']),
  ('recstubS', 'engine-object-with-subclass-fields', '', 'objtypes.RecordStub(S("T"), I(1))',
   ['R', 'T', 1]),
  ('recsetstubI', 'engine-object-with-subclass-fields', '', 'objtypes.RecordSetStub("T", [I(1)])',
   ['r', 'T', [1]]),
  ('raisedexc', 'engine-object', '', 'objtypes.RaisedException(ValueError("v"))',
   Prefix('E', 'ValueError')),
  ('pending', 'engine-object', '', 'objtypes._pending_sentinel', ['P']),
  ('censored', 'engine-object', '', 'objtypes._censored_sentinel', ['C']),
  ('reflookup', 'engine-object', '', 'objtypes.ReferenceLookup(1)', U),
]

# Atoms that raise: (name, family, statements ending in a raise, expected error class name)
RAISERS = [
  ('zerodiv', 'error', 'return 1 / 0', 'ZeroDivisionError'),
  ('valueerror', 'error', 'raise ValueError("msg")', 'ValueError'),
  ('errnoargs', 'error', 'raise KeyError()', 'KeyError'),
  ('errunicode', 'error', r'raise ValueError("☃\ud800")', 'ValueError'),
  ('errargobj', 'error', 'raise ValueError(object(), {1: 2})', 'ValueError'),
  ('errargS', 'error', 'raise ValueError(S("sub"))', 'ValueError'),
  ('errstrsub', 'error-__str__-returns-str-subclass', 'raise ErrStrSub()', 'ErrStrSub'),
  ('errstrraise', 'error-__str__-raises', 'raise ErrStrRaise()', 'ErrStrRaise'),
  ('errreprraise', 'error', 'raise ErrReprRaise("x")', 'ErrReprRaise'),
  ('errnameS', 'error-class-name-str-subclass', 'raise type(S("NameSub"), (Exception,), {})("m")',
   'NameSub'),
  ('systemexit', 'error-base-exception', 'raise SystemExit(3)', 'SystemExit'),
  ('keyboardint', 'error-base-exception', 'raise KeyboardInterrupt()', 'KeyboardInterrupt'),
  ('generatorexit', 'error-base-exception', 'raise GeneratorExit()', 'GeneratorExit'),
  ('stopiteration', 'error', 'raise StopIteration(5)', 'StopIteration'),
  ('recursion', 'error', 'def f():\n  return f()\nreturn f()', 'RecursionError'),
  ('syntaxish', 'error', 'return eval("1 +")', 'SyntaxError'),
  ('unicodedecode', 'error', r'return b"\xff".decode("utf8")', 'UnicodeDecodeError'),
  ('invalidtyped', 'error', 'return objtypes.AltText("alt", "Ref").foo', 'InvalidTypedValue'),
  ('invalidtypedS', 'engine-object-with-subclass-fields',
   'return objtypes.AltText(S("alt"), S("Ref")).foo', 'InvalidTypedValue'),
  ('circular', 'error', 'return rec.%(self)s', 'CircularRefError'),
  ('exceptiongroup', 'error', 'raise ExceptionGroup("g", [ValueError(1)])', 'ExceptionGroup'),
]

# Wrappers: (name, expression template, function mapping the atom's pattern to the wrapped one)
WRAPPERS = [
  ('id', '%s', lambda p: p),
  ('list', '[%s]', lambda p: ['L', p]),
  ('tuple', '(%s, 1)', lambda p: ['L', p, 1]),
  ('dictval', '{"k": %s}', lambda p: ['O', {'k': p}]),
  ('Li', 'Li([0, %s])', lambda p: ['L', 0, p]),
  ('Tu', 'Tu((%s,))', lambda p: ['L', p]),
  ('Di', 'Di({"k": %s})', lambda p: ['O', {'k': p}]),
  ('NT', 'NT(%s, 2)', lambda p: ['L', p, 2]),
  ('mixed', '[[%s], {"a": (None, %s)}]', lambda p: ['L', ['L', p], ['O', {'a': ['L', None, p]}]]),
]


# Values computed by a formula column of a SPECIFIC type and read through an Any column (G = rec.F):
# the typed column keeps its own object (a RecordList in a RefList column, a tuple in a ChoiceList
# column ...), and the rich value handed to G is built from it.  (name, family, type of F, expr, G)
TYPED = [
    ('reflist-of-lookup', 'typed-column', 'RefList:T', 'T.lookupRecords()', ['r', 'T', [1]]),
    ('reflist-of-lookup-sorted', 'typed-column', 'RefList:T', 'T.lookupRecords(order_by="-A")', ['r', 'T', [1]]),
    ('reflist-of-ids', 'typed-column', 'RefList:T', '[1]', ['r', 'T', [1]]),
    ('reflist-empty-lookup', 'typed-column', 'RefList:T', 'T.lookupRecords(A="nope")', ['r', 'T', []]),
    ('ref-of-lookupOne', 'typed-column', 'Ref:T', 'T.lookupOne(A=1)', ['R', 'T', 1]),
    ('ref-of-rec', 'typed-column', 'Ref:T', 'rec', ['R', 'T', 1]),
    ('choicelist-of-tuple', 'typed-column', 'ChoiceList', '("a", "b")', ['L', 'a', 'b']),
    ('choicelist-of-list', 'typed-column', 'ChoiceList', '["a", "b"]', ['L', 'a', 'b']),
    ('date-of-date', 'typed-column', 'Date', 'datetime.date(2020, 1, 2)', ['d', 1577923200.0]),
    ('datetime-of-datetime', 'typed-column', 'DateTime:UTC', 'datetime.datetime(2020, 1, 2, 3, 4, 5)',
     ['D', 1577934245.0, 'UTC']),
    ('attachments-of-ids', 'typed-column', 'Attachments', '[1]', None),
]


def formula_text(setup, expr, self_col='F'):
  body = (setup + '\n' if setup else '')
  if expr is not None:
    body += 'return ' + expr
  body = prelude_for(body) + body
  return body.replace('%(self)s', self_col)


def program_cases(tier):
  """Yields (case dict, expected pattern or None).  Wrapper compositions: quick <= 1, thorough
  <= 2 (see routes_for for the routes each case is driven through)."""
  depth = 1 if tier == 'quick' else 2
  for (name, fam, setup, expr, pat) in ATOMS:
    for d in range(0, depth + 1):
      for combo in itertools.product(WRAPPERS[1:], repeat=d):
        e, p = expr, pat
        for (_wn, tmpl, pf) in combo:
          e = tmpl % ((e,) * tmpl.count('%s'))
          p = None if p is None else pf(p)
        yield ({'atom': name, 'family': fam, 'wrap': [w[0] for w in combo], 'setup': setup,
                'expr': e}, p)
  for (name, fam, ftype, expr, pat) in TYPED:
    yield ({'atom': name, 'family': fam, 'wrap': [], 'setup': '', 'expr': expr, 'ftype': ftype}, pat)
  for (name, fam, stmts, errname) in RAISERS:
    if stmts.split('\n')[-1].startswith('raise '):
      stmts += '\nreturn None'      # the formula compiler insists on a return statement
    yield ({'atom': name, 'family': fam, 'wrap': [], 'setup': stmts, 'expr': None},
           Prefix('E', errname))


# ----------------------------------------------------------------------------------------------
# Catalogue, part 2: encoded values as Node may send them (anything marshal can carry)
# ----------------------------------------------------------------------------------------------

# (name, family, value, canonical) ; canonical = the value is a documented encoding of something,
# so the engine must hand back exactly the same encoding.
def cell_atoms():
  return [
    ('none', 'plain', None, True), ('true', 'plain', True, True), ('int', 'plain', 7, True),
    ('float', 'plain', 1.5, True), ('nan', 'float-special', float('nan'), True),
    ('inf', 'float-special', float('inf'), True), ('str', 'plain', 'x', True),
    ('strsurrogate', 'lone-surrogate', u'\ud800', True),
    ('int31over', 'bigint', 2 ** 31, False), ('int70', 'bigint', 2 ** 70, False),
    ('int31under', 'bigint', -2 ** 31 - 1, False),
    ('bytes', 'bytes', b'abc', False), ('bytesbad', 'bytes', b'\xff', False),
    ('L', 'plain', ['L', 1, 'a', None], True), ('L0', 'plain', ['L'], True),
    ('Lnested', 'plain', ['L', ['L', ['L']]], True),
    ('Ltuple', 'plain', ('L', 1), False),
    ('O', 'plain', ['O', {'a': 1, 'b': ['L', 2]}], True), ('O0', 'plain', ['O', {}], True),
    ('Ointkey', 'dict-odd-keys', ['O', {1: 2}], False),
    ('Obyteskey', 'dict-odd-keys', ['O', {b'k': 2}], False),
    ('Olistkey', 'dict-odd-keys', ['O', {('L', 1): 2}], False),
    ('Onodict', 'malformed', ['O', 5], False), ('Onoarg', 'malformed', ['O'], False),
    ('d', 'date', ['d', 1577923200], True), ('dfrac', 'date', ['d', 1577923200.5], False),
    ('dstr', 'malformed', ['d', 'x'], False), ('dhuge', 'malformed', ['d', 1e300], False),
    ('dnan', 'malformed', ['d', float('nan')], False),
    ('D', 'datetime', ['D', 1577934245, 'UTC'], True),
    ('Dny', 'datetime-with-tz', ['D', 1577934245, 'America/New_York'], True),
    ('Dfrac', 'datetime', ['D', 1577934245.25, 'Europe/London'], True),
    ('Dbadzone', 'malformed', ['D', 0, 'No/Where'], False),
    ('Dnozone', 'malformed', ['D', 0], False), ('Dhuge', 'malformed', ['D', 1e300, 'UTC'], False),
    ('R', 'record', ['R', 'T', 1], True), ('Rother', 'record', ['R', 'Nope', 99], True),
    ('Rshort', 'malformed', ['R'], False),
    ('r', 'record', ['r', 'T', [1, 2]], True), ('rstr', 'malformed', ['r', 'T', 'x'], False),
    ('E', 'error', ['E', 'ValueError'], True),
    ('Emsg', 'error', ['E', 'ValueError', 'msg'], True),
    ('Edetails', 'error', ['E', 'ValueError', 'msg', 'tb'], True),
    ('Einput', 'error', ['E', 'ValueError', 'msg', 'tb', {'u': ['L', 1]}], True),
    ('Einputnone', 'error', ['E', 'ValueError', 'msg', None, {'u': None}], True),
    ('Ebare', 'malformed', ['E'], False), ('Enone', 'malformed', ['E', None], False),
    ('Ebadinput', 'malformed', ['E', 'X', 'm', 'd', 5], False),
    ('Eextra', 'malformed', ['E', 'X', 'm', 'd', {'u': 1}, 'extra'], False),
    ('Eobjmsg', 'malformed', ['E', ['L', 1], {'a': 1}], False),
    ('P', 'engine-object', ['P'], True), ('C', 'engine-object', ['C'], True),
    ('U', 'other-object', ['U', 'repr text'], True), ('Ubare', 'malformed', ['U'], False),
    ('Uint', 'malformed', ['U', 5], False), ('Ulist', 'malformed', ['U', ['L', 1]], False),
    ('l', 'engine-object', ['l', 1], False), ('lraw', 'engine-object', ['l', 1, {'raw': 'x'}], False),
    ('X', 'malformed', ['X', 1], False), ('empty', 'malformed', [], False),
    ('intcode', 'malformed', [1, 2], False), ('nonecode', 'malformed', [None], False),
    ('listcode', 'malformed', [['L'], 1], False),
    ('baredict', 'malformed', {'a': 1}, False), ('baredictint', 'malformed', {1: ['L']}, False),
    ('deep100', 'deep-nesting', nested_L(100), True),
    ('deep500', 'deep-nesting', nested_L(500), None),
    ('deep900', 'deep-nesting', nested_L(900), None),
    ('deep1500', 'deep-nesting', nested_L(1500), None),
    ('strlong', 'plain', 'ab' * 50000, True),
  ]

CELL_WRAPPERS = [
  ('id', lambda x: x),
  ('L', lambda x: ['L', x, 0]),
  ('O', lambda x: ['O', {'k': x}]),
  ('Einput', lambda x: ['E', 'ValueError', 'msg', None, {'u': x}]),
]


def cell_cases(tier):
  depth = 1 if tier == 'quick' else 2
  for (name, fam, value, canonical) in cell_atoms():
    for d in range(0, depth + 1):
      for combo in itertools.product(CELL_WRAPPERS[1:], repeat=d):
        if fam == 'deep-nesting' and d > 0:
          continue
        v = value
        for (_wn, wf) in combo:
          v = wf(v)
        yield {'atom': name, 'family': fam, 'wrap': [w[0] for w in combo], 'canonical': canonical}, v


# ----------------------------------------------------------------------------------------------
# Reply walking
# ----------------------------------------------------------------------------------------------

RECORD_ACTIONS = ('AddRecord', 'UpdateRecord')
BULK_ACTIONS = ('BulkAddRecord', 'BulkUpdateRecord', 'ReplaceTableData', 'TableData')


def action_cells(rep):
  """Yields (table_id, row_id, col_id, encoded value) for a doc action repr."""
  if not isinstance(rep, (list, tuple)) or not rep:
    return
  if rep[0] in RECORD_ACTIONS:
    for c, v in rep[3].items():
      yield (rep[1], rep[2], c, v)
  elif rep[0] in BULK_ACTIONS:
    for c, vals in rep[3].items():
      for r, v in zip(rep[2], vals):
        yield (rep[1], r, c, v)


def reply_cells(call, body):
  """All encoded cell values in a DATA reply, as (where, table, row, col, value)."""
  fname = call[0]
  if fname == 'apply_user_actions' and isinstance(body, dict):
    for part in ('stored', 'undo', 'calc'):
      for (_env, rep) in body.get(part, []):
        for (t, r, c, v) in action_cells(rep):
          yield (part, t, r, c, v)
  elif fname == 'fetch_table':
    for (t, r, c, v) in action_cells(body):
      yield ('fetch_table', t, r, c, v)
  elif fname == 'fetch_meta_tables' and isinstance(body, dict):
    for rep in body.values():
      for (t, r, c, v) in action_cells(rep):
        yield ('fetch_meta_tables', t, r, c, v)
  elif fname == 'get_formula_error':
    yield ('get_formula_error', call[1], call[3], call[2], body)


def fetched(body, col, row=1):
  """Encoded value of (row, col) in a fetch_table body; KeyError/ValueError if absent."""
  return body[3][col][body[2].index(row)]


class Missing(Exception):
  pass


def short(x, n=160):
  try:
    s = repr(x)
  except Exception:   # pylint: disable=broad-except
    s = '<too deep to print>'
  return s if len(s) <= n else s[:n] + '...(%d chars)' % len(s)


# ----------------------------------------------------------------------------------------------
# Scenarios (generators yielding calls, receiving [call, code, body])
# ----------------------------------------------------------------------------------------------

def col(cid, formula=None, is_formula=False, recalc_when=0, ctype='Any'):
  c = {'id': cid, 'type': ctype, 'isFormula': is_formula}
  if formula is not None:
    c['formula'] = formula
    if not is_formula:
      c['recalcWhen'] = recalc_when
  return c


def scenario(route, case, cellvalue, notes):
  """
  notes: dict filled with observations the oracle needs:
    'value_cells': [(label, encoded)] cells that must hold the catalogue value
    'roundtrip': [(label, sent x, fetched-back value)]
    'failed_apply': (call, applied?) for the first apply_user_actions answered with EXC
  """
  # pylint: disable=too-many-branches,too-many-statements
  def ok(rep):
    return rep[1] is True

  def diagnose(call, applied):
    """An apply_user_actions reply was EXC.  Did the engine apply the change all the same?  Drop
    the columns holding the value (those replies may fail too, the engine state still changes),
    fetch, and let `applied` judge the fetch reply (None if even that fails)."""
    for c in culprits:
      yield ['apply_user_actions', [['RemoveColumn', 'T', c]]]
    last = yield ['fetch_table', 'T']
    try:
      notes['failed_apply'] = (call, applied(last) if ok(last) else None)
    except (KeyError, ValueError, IndexError, TypeError):
      notes['failed_apply'] = (call, None)

  yield ['load_empty']
  yield ['apply_user_actions', [['InitNewDoc']]]
  if route == 'formula':
    text = formula_text(case['setup'], case['expr'], 'F')
    ftype = case.get('ftype', 'Any')
    columns = [col('A'), col('B'), col('F', text, True, ctype=ftype), col('G', 'rec.F', True)]
    culprits = ['G', 'F']
    # a typed F holds the value in its column's own form; the Any column G = rec.F is what must
    # show the documented encoding (F's cell is still subject to the marshal and round-trip laws)
    vcols = ['F', 'G'] if ftype == 'Any' else ['G']
    dcol = None
  elif route == 'trigger':
    text = formula_text(case['setup'], case['expr'], 'D')
    columns = [col('A'), col('B')]
    dcol = col('D', text, False, 0)      # recalcWhen = DEFAULT: computed when the record is added
    culprits = ['D']
    vcols = ['D']
  elif route == 'input':
    text = formula_text("if rec.A == 2:\n  raise ValueError('boom')\n" + case['setup'],
                        case['expr'], 'D')
    columns = [col('A'), col('B')]
    dcol = col('D', text, False, 2)      # recalcWhen = MANUAL_UPDATES
    culprits = ['D']
    vcols = ['D']
  else:
    columns = [col('A'), col('B')]
    dcol = col('D')
    culprits = ['D']
    vcols = ['D']
  yield ['apply_user_actions', [['AddTable', 'T', columns]]]
  if dcol:
    dcol.pop('id')
    yield ['apply_user_actions', [['AddColumn', 'T', 'D', dcol]]]

  add = yield ['apply_user_actions', [['AddRecord', 'T', None,
                                       {'A': 1, 'D': cellvalue} if route == 'cell' else {'A': 1}]]]
  if not ok(add):
    yield from diagnose(add[0], lambda f: len(f[2][2]) >= 1)
    return
  if route == 'input':
    upd = yield ['apply_user_actions', [['UpdateRecord', 'T', 1, {'A': 2}]]]
    if not ok(upd):
      yield from diagnose(upd[0], lambda f: fetched(f[2], 'A') == 2)
      return
    add = upd
  for (part, t, _r, c, v) in reply_cells(add[0], add[2]):
    if part == 'stored' and t == 'T' and c in vcols:
      notes['value_cells'].append(('stored action T.%s' % c, v))

  fetch = yield ['fetch_table', 'T']
  yield ['fetch_table', 'T', False]
  yield ['fetch_meta_tables']
  xs = []
  if ok(fetch):
    try:
      for c in vcols:
        x = fetched(fetch[2], c)
        xs.append((c, x))
        notes['value_cells'].append(('fetch_table T.%s' % c, x))
    except (KeyError, ValueError, IndexError, TypeError):
      notes['malformed_fetch'] = short(fetch[2])

  for (c, x) in xs:
    if isinstance(x, list) and x[:1] == ['E'] and route != 'cell':
      yield ['get_formula_error', 'T', c, 1]

  # Transport round trip: what Node received, sent back into another Any data cell.
  for (c, x) in xs[:1]:
    back = yield ['apply_user_actions', [['UpdateRecord', 'T', 1, {'B': x}]]]
    if not ok(back):
      yield from diagnose(back[0], lambda f: fetched(f[2], 'B') is not None)
      return
    f2 = yield ['fetch_table', 'T']
    if ok(f2):
      try:
        notes['roundtrip'].append(('T.%s -> T.B' % c, x, fetched(f2[2], 'B')))
      except (KeyError, ValueError, IndexError, TypeError):
        notes['malformed_fetch'] = short(f2[2])

  # Undo material: removing the record puts every stored cell into the undo actions.
  rem = yield ['apply_user_actions', [['RemoveRecord', 'T', 1]]]
  if not ok(rem):
    yield from diagnose(rem[0], lambda f: len(f[2][2]) == 0)


# ----------------------------------------------------------------------------------------------
# Oracle for one (route, case)
# ----------------------------------------------------------------------------------------------

def roundtrip_law(x):
  """encode(decode(x)) under the engine's normal recursion limit, from a shallow stack."""
  return objtypes.encode_object(objtypes.decode_object(x))


def same(a, b):
  """
  Structural equality of two unmarshalled values as Node would see them (ints and floats of equal
  value are one number, bools are not numbers, NaN equals NaN); iterative, so nesting depth is no
  obstacle.
  """
  # pylint: disable=unidiomatic-typecheck
  stack = [(a, b)]
  while stack:
    x, y = stack.pop()
    if isinstance(x, (list, tuple)):
      if not isinstance(y, (list, tuple)) or len(x) != len(y):
        return False
      stack.extend(zip(x, y))
    elif isinstance(x, dict):
      if not isinstance(y, dict) or len(x) != len(y):
        return False
      for k, v in x.items():
        if k not in y or type(k) is not type([j for j in y if j == k][0]):
          return False
        stack.append((v, y[k]))
    elif isinstance(x, bool) or isinstance(y, bool):
      if type(x) is not type(y) or x != y:
        return False
    elif isinstance(x, float) and isinstance(y, float) and math.isnan(x) and math.isnan(y):
      continue
    elif isinstance(x, (int, float)):
      if not isinstance(y, (int, float)) or x != y:
        return False
    elif type(x) is not type(y) or x != y:
      return False
  return True


_LAW_MEMO = {}


def law_holds(v):
  """None if encode(decode(v)) == v, else a description.  Exact primitives are checked once per
  process and (type, value)."""
  # pylint: disable=unidiomatic-typecheck
  prim = type(v) in (str, int, float, bool, type(None))
  if prim:
    k = (type(v), v if v == v else 'nan')
    if k in _LAW_MEMO:
      return _LAW_MEMO[k]
  try:
    again = roundtrip_law(v)
    res = None if same(again, v) else 'x=%s but encode(decode(x))=%s' % (short(v), short(again))
  except BaseException as e:    # pylint: disable=broad-except
    res = 'encode(decode(x)) raised %s for x=%s' % (H.exc_text(e), short(v))
  if prim:
    _LAW_MEMO[k] = res
  return res


def evaluate(route, case, pattern, cellvalue=None):
  """Returns (transcript, list of (key, message), number of encoded cells checked)."""
  # pylint: disable=too-many-branches,too-many-locals
  notes = {'value_cells': [], 'roundtrip': [], 'failed_apply': None}
  transcript = drive(scenario(route, case, cellvalue, notes))
  fam = case['family']
  bad = []
  seen = set()

  def add(kind, msg):
    key = 'C24/%s/%s' % (kind, fam)
    if key not in seen:
      seen.add(key)
      bad.append((key, msg))

  n_cells = 0
  all_data = True
  failed_call, applied = notes['failed_apply'] or (None, None)
  for (call, code, body) in transcript:
    what = '%s(%s)' % (call[0], short(call[1:], 80))
    if code is True:
      # DATA reply: the round-trip law for every encoded cell value in it
      for (where, t, r, c, v) in reply_cells(call, body):
        n_cells += 1
        res = law_holds(v)
        if res:
          add('roundtrip-law', '%s %s[%s].%s: %s' % (where, t, r, c, res))
      continue
    if failed_call is not None and call is not failed_call and all_data is False:
      continue     # diagnostic calls after the first failure
    all_data = False
    if code == 'UNLOADABLE':
      add('reply-frame-not-loadable', '%s: reply frame cannot be unmarshalled: %s' % (what, body))
    elif code == 'NOREPLY':
      add('no-reply', '%s: no reply frame was written' % what)
    else:
      text = str(body)
      tail = ''
      if call is failed_call:
        tail = {True: '; the engine HAD applied the change (seen in a later fetch_table), so the '
                      'reply was lost after the fact',
                False: '; the change was not applied',
                None: '; could not tell whether the change was applied'}[applied]
      if 'unmarshallable' in text:
        add('reply-not-marshallable', '%s: reply is EXC %r: the encoded reply is rejected by '
            'marshal%s' % (what, text[:120], tail))
      else:
        add('call-raised', '%s: reply is EXC %r%s' % (what, text[:200], tail))

  # Expected encoded form (skipped after a failed call: the cell need not have been written)
  if not all_data:
    pass
  elif route == 'cell':
    if case['canonical']:
      for (label, v) in notes['value_cells']:
        if not same(v, cellvalue):
          add('canonical-encoding-changed', '%s holds %s after Node sent the canonical encoding %s' % (
              label, short(v), short(cellvalue)))
  elif pattern is not None:
    if route == 'input':
      # an error atom leaves the initial None as the cell's restorable input
      want = ErrWithInput('ValueError', None if is_error_pat(pattern) else pattern)
    else:
      want = pattern
    for (label, v) in notes['value_cells']:
      if want is not None and not match(want, v):
        add('encoded-form', '%s is %s, expected %r' % (label, short(v), want))
  if all_data and not notes['value_cells']:
    add('value-not-observed', 'no reply showed the cell holding the value')

  for (label, x, y) in notes['roundtrip']:
    if not same(x, y):
      add('cell-roundtrip-differs', '%s: Node received %s, wrote it back, and then fetched %s' % (
          label, short(x), short(y)))
  if 'malformed_fetch' in notes:
    add('malformed-fetch', 'fetch_table reply lacks the cell: %s' % notes['malformed_fetch'])
  return transcript, bad, n_cells


# ----------------------------------------------------------------------------------------------
# Enumeration
# ----------------------------------------------------------------------------------------------

PROGRAM_ROUTES = ('formula', 'trigger', 'input')
_TIER = ['quick']


QUICK_ALL_ROUTES = ('list', 'dictval')


def routes_for(tier, case):
  """quick: bare atoms and the list/dict-value wrappers on every route, the other wrappers through
  the formula route only.  thorough: compositions of <= 1 wrapper on every route, of 2 wrappers
  through the formula route only."""
  if case.get('ftype'):
    return ('formula',)
  if tier == 'quick':
    return PROGRAM_ROUTES if all(w in QUICK_ALL_ROUTES for w in case['wrap']) else ('formula',)
  return PROGRAM_ROUTES if len(case['wrap']) <= 1 else ('formula',)


def all_jobs(tier):
  jobs = []
  for idx, (case, _p) in enumerate(program_cases(tier)):
    for route in routes_for(tier, case):
      jobs.append((route, idx))
  for idx, _c in enumerate(cell_cases(tier)):
    jobs.append(('cell', idx))
  return jobs


def worker(chunk):
  tier, jobs = chunk
  E = Enum(PartReport('C24'), rule='')
  progs = list(program_cases(tier))
  cells = list(cell_cases(tier))
  ncells = 0
  nframes = 0
  for (route, idx) in jobs:
    if route == 'cell':
      case, value = cells[idx]
      pattern = None
    else:
      (case, pattern), value = progs[idx], None
    ckey = '%s:%s:%s' % (route, case['atom'], '/'.join(case['wrap']))
    try:
      transcript, bad, n = evaluate(route, case, pattern, value)
    except BaseException as e:    # pylint: disable=broad-except
      E.count(ckey)
      E.fail('C24/transport-loop-raised/%s' % case['family'],
             'main.run raised %s for %s' % (H.exc_text(e), ckey),
             case=replay_case(route, case, value))
      continue
    ncells += n
    nframes += len(transcript)
    E.count(ckey, nontrivial=case['family'] != 'plain',
            sample={'route': route, 'atom': case['atom'], 'wrap': case['wrap'],
                    'frames': len(transcript), 'cells_checked': n}
            if case['family'] != 'plain' and case['wrap'] else None)
    for (key, msg) in bad:
      E.fail(key, '[route=%s value=%s%s] %s' % (
          route, case['atom'], (' in ' + '/'.join(case['wrap'])) if case['wrap'] else '', msg),
             case=replay_case(route, case, value))
  E.extra['encoded_cells_checked'] = ncells
  E.extra['reply_frames'] = nframes
  return part_of(E)


def replay_case(route, case, value):
  c = {'route': route, 'atom': case['atom'], 'wrap': case['wrap']}
  if route != 'cell':
    c['formula'] = formula_text(case['setup'], case['expr'], 'F' if route == 'formula' else 'D')
  else:
    c['value'] = short(value, 300)
  return c


def run(tier, report):
  jobs = all_jobs(tier)
  nprog = sum(1 for _ in program_cases(tier))
  ncell = sum(1 for _ in cell_cases(tier))
  E = Enum(report, rule=(
      'real transport main.run(Sandbox(in-memory streams)); catalogue of %d value-building formula '
      'programs (%d atoms incl. str/int/float/bytes/list/tuple/dict subclasses, dicts with '
      'non-str/str-subclass keys, sets, big ints, nan/inf, recursive and depth 10..5000 containers, '
      'dates with/without tz, enums, namedtuples, hostile __repr__/__str__/__eq__/__class__, records, '
      'engine wrapper objects, %d raising programs; x all compositions of <= %d of %d container '
      'wrappers) x routes {formula column, trigger formula into Any data cell, user_input of a '
      'trigger error; quick: wrappers other than list/dict-value through the formula route only; '
      'thorough: compositions of 2 wrappers through the formula route only} + %d encoded inputs from Node (%d atoms x <= %d of %d wrappers) into an Any '
      'data cell; one fresh engine per (value, route); non-trivial = value outside the plain '
      'primitives; oracle: all replies DATA and unmarshallable-free, documented encoded form, '
      'encode(decode(x)) == x for every cell value of every reply, write-back through the '
      'transport returns x' % (
          nprog, len(ATOMS), len(RAISERS), 1 if tier == 'quick' else 2, len(WRAPPERS) - 1,
          ncell, len(cell_atoms()), 1 if tier == 'quick' else 2, len(CELL_WRAPPERS) - 1)))
  nchunks = 64 if tier == 'quick' else 256
  chunks = [(tier, jobs[i::nchunks]) for i in range(nchunks)]
  for part in pmap(worker, [c for c in chunks if c[1]]):
    E.merge(part)
  E.finish(exhaustive=True)
  report.assumptions.append('values reach the engine as formula results, trigger-formula results '
                            'stored in Any data cells, trigger user_input, or marshal-able encoded '
                            'values in user actions; typed (non-Any) columns are not enumerated')
  report.assumptions.append('the engine runs under the interpreter default recursion limit; the '
                            'harness adds about 15 stack frames below main.run')


def replay(viol):
  c = viol['case']
  tier = 'thorough' if len(c['wrap']) > 1 else 'quick'
  found = None
  if c['route'] == 'cell':
    for case, value in cell_cases(tier):
      if case['atom'] == c['atom'] and case['wrap'] == c['wrap']:
        found = (case, None, value)
  else:
    for case, pattern in program_cases(tier):
      if case['atom'] == c['atom'] and case['wrap'] == c['wrap']:
        found = (case, pattern, None)
  if not found:
    print("case not in catalogue: %r" % (c,))
    return 0
  case, pattern, value = found
  transcript, bad, _n = evaluate(c['route'], case, pattern, value)
  for (call, code, body) in transcript:
    print("%-5s %s -> %s" % ({True: 'DATA', False: 'EXC'}.get(code, code), short(call, 100),
                             short(body, 200)))
  for (key, msg) in bad:
    print("%s: %s" % (key, msg))
  hit = [k for k, _m in bad if k == viol['key']]
  if hit:
    print("VIOLATION property=C24 replay=(this file) reproduced")
    return 1
  return 0
