"""C05 Incremental recalculation equals recalculation from scratch."""
from mc.histprop import HistProp
from mc import worlds as W
from mc.monitors import FreshRecompute

LEVEL = 'model_checking'

P = HistProp('C05', W.formula_worlds, lambda w, t: [FreshRecompute()],
             {t: W.depths(t) for t in ('quick', 'thorough')},
             rule='after every bundle of every history a fresh engine is loaded with the metadata '
                  'and data columns only and Calculate is applied; every cell of every table must '
                  'agree with the live engine; no state merging (hidden dependency state matters); '
                  'non-trivial = bundle succeeded and changed the document')
run, replay = P.run, P.replay
