"""Property-specific oracles over dumps: C09, C10, C11, C12, C13, C15, C20(engine part), C31."""
import json

from mc import harness as H
from mc.explore import Monitor
from mc import refmodels as R
from mc.monitors import vkey


def unb(v):
  return v['b'] if isinstance(v, dict) and 'b' in v else v


def as_list(v):
  """Encoded list cell -> python list or None if not a list."""
  if isinstance(v, list) and v and v[0] == 'L':
    return v[1:]
  return None


def meta_types():
  import schema as schema_mod
  out = {}
  for a in schema_mod.schema_create_actions():
    out[a.table_id] = {c['id']: c['type'] for c in a.columns}
  return out


_META_TYPES = None


def all_col_types(dump):
  """{table: {col: type}} for user tables (from metadata) and metadata tables (from schema.py)."""
  global _META_TYPES
  if _META_TYPES is None:
    _META_TYPES = meta_types()
  types = R.col_types_from_dump(dump)
  types.update(_META_TYPES)
  return types


# ------------------------------------------------------------------------------------------------
class MetaRefs(Monitor):
  """C09: every reference in the metadata resolves."""
  name = 'meta-refs'

  def check(self, ctx):
    if ctx.exc is not None:
      return
    d = ctx.post_dump
    rows = lambda t: d[t]['rows'] if t in d else {}
    tables, cols = rows('_grist_Tables'), rows('_grist_Tables_column')
    secs, fields, views = rows('_grist_Views_section'), rows('_grist_Views_section_field'), rows('_grist_Views')
    bad = []
    for r, c in cols.items():
      if c['parentId'] not in tables:
        bad.append(('column-table', "column #%s %s -> table %s" % (r, c['colId'], c['parentId'])))
    for r, f in fields.items():
      if f['parentId'] not in secs:
        bad.append(('field-section', "field #%s -> section %s" % (r, f['parentId'])))
        continue
      if f['colRef'] not in cols:
        bad.append(('field-column', "field #%s -> column %s" % (r, f['colRef'])))
        continue
      if cols[f['colRef']]['parentId'] != secs[f['parentId']]['tableRef']:
        bad.append(('field-column-other-table',
                    "field #%s shows column #%s of table %s in a section of table %s" % (
                        r, f['colRef'], cols[f['colRef']]['parentId'], secs[f['parentId']]['tableRef'])))
    for r, s in secs.items():
      if s['tableRef'] not in tables:
        bad.append(('section-table', "section #%s -> table %s" % (r, s['tableRef'])))
      if s['parentId'] and s['parentId'] not in views:
        bad.append(('section-view', "section #%s -> view %s" % (r, s['parentId'])))
    for r, t in tables.items():
      if not t['rawViewSectionRef'] or t['rawViewSectionRef'] not in secs:
        bad.append(('table-raw-section', "table #%s %s raw section %s" % (r, t['tableId'], t['rawViewSectionRef'])))
      elif secs[t['rawViewSectionRef']]['tableRef'] != r:
        bad.append(('table-raw-section-other', "table #%s raw section belongs to table %s" % (
            r, secs[t['rawViewSectionRef']]['tableRef'])))
      if t['recordCardViewSectionRef'] and t['recordCardViewSectionRef'] not in secs:
        bad.append(('table-card-section', "table #%s %s record card section %s" % (
            r, t['tableId'], t['recordCardViewSectionRef'])))
      if t['primaryViewId'] and t['primaryViewId'] not in views:
        bad.append(('table-primary-view', "table #%s primaryViewId %s" % (r, t['primaryViewId'])))
    # a display helper belongs to the table of the column (or of the field's column) it serves
    for kind, coll in (('column', cols), ('field', fields)):
      for r, x in coll.items():
        dc = x.get('displayCol') or 0
        if not dc or dc not in cols:
          continue
        own = x['parentId'] if kind == 'column' else cols.get(x.get('colRef'), {}).get('parentId')
        if cols[dc]['parentId'] != own or not str(cols[dc]['colId']).startswith('gristHelper_Display'):
          bad.append(('display-col-not-a-helper-of-its-table',
                      "%s #%s has displayCol #%s = %s of table %s" % (
                          kind, r, dc, cols[dc]['colId'], cols[dc]['parentId'])))
    # helper columns must be used
    used_display = set(c['displayCol'] for c in cols.values()) | set(f['displayCol'] for f in fields.values())
    used_rules = set()
    for coll in (cols, fields, secs):
      for x in coll.values():
        used_rules.update(as_list(x.get('rules')) or [])
    for r, c in cols.items():
      cid = c['colId']
      if cid.startswith('gristHelper_Display') and r not in used_display:
        bad.append(('unused-display-helper', "helper column #%s %s is used by no column or field" % (r, cid)))
      if cid.startswith(('gristHelper_ConditionalRule', 'gristHelper_RowConditionalRule')) and r not in used_rules:
        bad.append(('unused-rule-helper', "rule helper column #%s %s is in no rules list" % (r, cid)))
    # one metadata record per user table
    by_id = {}
    for r, t in tables.items():
      by_id.setdefault(t['tableId'], []).append(r)
    for tid in ctx.doc.user_tables():
      if len(by_id.get(tid, [])) != 1:
        bad.append(('table-record-count', "user table %s has %d metadata records" % (tid, len(by_id.get(tid, [])))))
    for tid, rs in by_id.items():
      if tid not in ctx.doc.eng.tables:
        bad.append(('table-record-without-table', "metadata record %s for table %s not in engine" % (rs, tid)))
    # every other declared reference in the metadata tables
    types = all_col_types(d)
    for tid, t in d.items():
      if not tid.startswith('_grist_'):
        continue
      for cid, ty in types.get(tid, {}).items():
        if not ty.startswith(('Ref:', 'RefList:')) or cid not in t['cols']:
          continue
        target = ty.split(':', 1)[1]
        trows = rows(target)
        for r, row in t['rows'].items():
          v = row.get(cid)
          ids = as_list(v) if ty.startswith('RefList:') else ([v] if isinstance(v, int) and v else [])
          for i in ids or []:
            if isinstance(i, int) and i and i not in trows:
              bad.append(('dangling/%s.%s' % (tid, cid), "%s[%s].%s -> missing %s #%s" % (
                  tid, r, cid, target, i)))
    seen = set()
    for kind, msg in bad:
      if kind in seen:
        continue
      seen.add(kind)
      yield (vkey('C09', kind, ctx), "after %r: %s" % (ctx.label, msg))


# ------------------------------------------------------------------------------------------------
class RemovedRefs(Monitor):
  """C10: removing rows leaves no references to them."""
  name = 'removed-refs'

  def check(self, ctx):
    if ctx.exc is not None:
      return
    pre, post = ctx.pre_dump, ctx.post_dump
    removed = {}
    for tid, t in pre.items():
      if tid in post:
        gone = set(t['rows']) - set(post[tid]['rows'])
        if gone:
          removed[tid] = gone
    # rows that were created AND removed inside the bundle (e.g. through a temporary id) count too
    for a in H.stored_reprs(ctx.group):
      if a[0] in ('RemoveRecord', 'BulkRemoveRecord') and a[1] in post:
        ids = a[2] if isinstance(a[2], list) else [a[2]]
        gone = set(i for i in ids if i not in post[a[1]]['rows'])
        if gone:
          removed.setdefault(a[1], set()).update(gone)
    if not removed:
      return
    ctx.extra['removal'] = True
    types = all_col_types(post)
    bundle = json.loads(ctx.bundle)
    removal_only = all(a[0] in ('RemoveRecord', 'BulkRemoveRecord') for a in bundle)
    # the statement is about DATA cells (a formula cell naming a removed row is C05's business)
    tabs = {r: x['tableId'] for r, x in post['_grist_Tables']['rows'].items()}
    formula_cols = set((tabs.get(c['parentId']), c['colId'])
                       for c in post['_grist_Tables_column']['rows'].values() if unb(c['isFormula']))
    for tid, t in post.items():
      for cid, ty in types.get(tid, {}).items():
        if cid not in t['cols'] or not ty.startswith(('Ref:', 'RefList:')) or (tid, cid) in formula_cols:
          continue
        target = ty.split(':', 1)[1]
        gone = removed.get(target)
        if not gone:
          continue
        for r, row in t['rows'].items():
          v = row[cid]
          if ty.startswith('Ref:'):
            if isinstance(v, int) and not isinstance(v, bool) and v in gone:
              yield (vkey('C10', 'ref-to-removed', ctx, extra='%s.%s' % (tid, cid)),
                     "after %r: %s[%s].%s still points at removed %s row %s" % (
                         ctx.label, tid, r, cid, target, v))
              break
          else:
            lst = as_list(v)
            if lst and any(i in gone for i in lst if isinstance(i, int)):
              yield (vkey('C10', 'reflist-contains-removed', ctx, extra='%s.%s' % (tid, cid)),
                     "after %r: %s[%s].%s = %s still contains a removed %s row (%s)" % (
                         ctx.label, tid, r, cid, lst, target, sorted(gone)))
              break
            if removal_only and tid in pre and r in pre[tid]['rows'] and cid in pre[tid]['rows'][r]:
              old = as_list(pre[tid]['rows'][r][cid])
              if old is not None and any(i in gone for i in old):
                want = [i for i in old if i not in gone]
                want_enc = (['L'] + want) if want else None
                if v != want_enc:
                  yield (vkey('C10', 'reflist-not-pruned-in-order', ctx, extra='%s.%s' % (tid, cid)),
                         "after %r: %s[%s].%s was %s, removed %s, expected %s, got %s" % (
                             ctx.label, tid, r, cid, old, sorted(gone), want_enc, v))
                  break


# ------------------------------------------------------------------------------------------------
def _refs(v):
  if isinstance(v, bool):
    return set()
  if isinstance(v, int):
    return {v} if v else set()
  lst = as_list(v)
  if lst is not None:
    return set(i for i in lst if isinstance(i, int) and not isinstance(i, bool))
  return set()


class TwoWay(Monitor):
  """C11: reverse-linked column pairs stay symmetric; rejected changes leave no trace."""
  name = 'two-way'

  def check(self, ctx):
    d = ctx.post_dump
    if ctx.exc is not None:
      if ctx.pre_dump != d:
        diffs = H.diff_dumps(ctx.pre_dump, d)
        yield (vkey('C11', 'rejected-change-left-trace', ctx, diffs),
               "bundle %r was rejected (%s) but the document changed: %s" % (
                   ctx.label, H.exc_text(ctx.exc), '; '.join(diffs)))
      return
    tables = {r: t['tableId'] for r, t in d['_grist_Tables']['rows'].items()}
    cols = d['_grist_Tables_column']['rows']
    pairs = 0
    for r, c in cols.items():
      rev = c.get('reverseCol') or 0
      if not rev:
        continue
      if rev not in cols:
        yield (vkey('C11', 'reverse-col-missing', ctx), "column #%s reverseCol -> missing #%s" % (r, rev))
        continue
      rc = cols[rev]
      if (rc.get('reverseCol') or 0) != r:
        yield (vkey('C11', 'reverse-link-one-sided', ctx),
               "after %r: column #%s has reverseCol #%s which points back to #%s" % (
                   ctx.label, r, rev, rc.get('reverseCol')))
        continue
      if r > rev:
        continue
      pairs += 1
      ta, tb = tables.get(c['parentId']), tables.get(rc['parentId'])
      if ta not in d or tb not in d:
        continue
      ca, cb = c['colId'], rc['colId']
      ra, rb = d[ta]['rows'], d[tb]['rows']
      # (a cell naming a row that no longer exists has no counterpart at all: asymmetric)
      fwd = set((a, b) for a, row in ra.items() for b in _refs(row.get(ca)))
      back = set((a, b) for b, row in rb.items() for a in _refs(row.get(cb)))
      if fwd != back:
        yield (vkey('C11', 'asymmetric', ctx, extra='%s.%s~%s.%s' % (ta, ca, tb, cb)),
               "after %r: %s.%s and %s.%s disagree: only forward %s, only backward %s" % (
                   ctx.label, ta, ca, tb, cb, sorted(fwd - back), sorted(back - fwd)))
    ctx.extra['pairs'] = pairs


# ------------------------------------------------------------------------------------------------
class SummaryGroupBy(Monitor):
  """C12: every summary table is the exact group-by of its source."""
  name = 'summary-groupby'

  def check(self, ctx):
    if ctx.exc is not None:
      return
    d = ctx.post_dump
    tables = d['_grist_Tables']['rows']
    cols = d['_grist_Tables_column']['rows']
    for tr, t in tables.items():
      src_ref = t.get('summarySourceTable') or 0
      if not src_ref:
        continue
      st_id = t['tableId']
      if src_ref not in tables:
        yield (vkey('C12', 'source-missing', ctx), "summary %s has no source table record" % st_id)
        continue
      src_id = tables[src_ref]['tableId']
      if st_id not in d or src_id not in d:
        yield (vkey('C12', 'table-missing', ctx), "summary %s / source %s not in engine" % (st_id, src_id))
        continue
      gb = []   # (summary col id, source col id, source type)
      for cr, c in sorted(cols.items()):
        if c['parentId'] == tr and (c.get('summarySourceCol') or 0):
          sc = cols.get(c['summarySourceCol'])
          if sc is None:
            yield (vkey('C12', 'groupby-source-col-missing', ctx),
                   "summary %s column %s has no source column" % (st_id, c['colId']))
            gb = None
            break
          gb.append((c['colId'], sc['colId'], sc['type']))
      if gb is None:
        continue
      # reference group-by
      expect = {}
      for r in sorted(d[src_id]['rows']):
        row = d[src_id]['rows'][r]
        per_col = []
        for (_sc, srccol, ty) in gb:
          v = row.get(srccol)
          pt = R.pure_type(ty)
          if pt in ('ChoiceList', 'RefList'):
            lst = as_list(v)
            if lst is None:
              if v is None:
                lst = []
              else:
                per_col.append([])     # non-list value contributes no key
                continue
            distinct = []
            for x in lst:
              if x not in distinct:
                distinct.append(x)
            if not distinct:
              distinct = ['' if pt == 'ChoiceList' else 0]
            per_col.append(distinct)
          else:
            per_col.append([v])
        keys = [()]
        for opts in per_col:
          keys = [k + (json.dumps(o, sort_keys=True),) for k in keys for o in opts]
        for k in keys:
          expect.setdefault(k, []).append(r)
      actual = {}
      dup = None
      for r, row in d[st_id]['rows'].items():
        k = tuple(json.dumps(row.get(sc), sort_keys=True) for (sc, _s, _t) in gb)
        if k in actual:
          dup = k
        actual.setdefault(k, []).append((r, as_list(row.get('group')) or []))
      loc = R.strip_numbers(st_id)
      if dup is not None:
        yield (vkey('C12', 'duplicate-key', ctx, extra=loc),
               "after %r: summary %s has two rows for key %s" % (ctx.label, st_id, dup))
        continue
      missing = sorted(set(expect) - set(actual))
      extra = sorted(set(actual) - set(expect))
      if missing:
        yield (vkey('C12', 'missing-group', ctx, extra=loc),
               "after %r: summary %s (by %s) lacks rows for keys %s" % (
                   ctx.label, st_id, [g[1] for g in gb], missing[:4]))
      if extra:
        yield (vkey('C12', 'extra-group', ctx, extra=loc),
               "after %r: summary %s (by %s) has rows for keys absent from the source (or with an "
               "empty group): %s" % (ctx.label, st_id, [g[1] for g in gb],
                                     [(k, actual[k]) for k in extra[:4]]))
      for k in sorted(set(expect) & set(actual)):
        got = actual[k][0][1]
        if got != expect[k]:
          yield (vkey('C12', 'wrong-group', ctx, extra=loc),
                 "after %r: summary %s key %s group %s, expected %s" % (
                     ctx.label, st_id, k, got, expect[k]))
          break


# ------------------------------------------------------------------------------------------------
class _Desc(object):
  __slots__ = ('v',)

  def __init__(self, v):
    self.v = v

  def __lt__(self, other):
    return other.v < self.v

  def __eq__(self, other):
    return self.v == other.v


class Lookups(Monitor):
  """C13: lookupRecords/lookupOne results == naive filter + documented order (W_look)."""
  name = 'lookups'

  def check(self, ctx):
    if ctx.exc is not None:
      return
    from mc.worlds import LOOK_SPECS
    d = ctx.post_dump
    if 'L' not in d or 'Q' not in d:
      return
    L = d['L']['rows']
    has_ms = 'manualSort' in d['L']['cols']
    n = 0
    for qr, q in sorted(d['Q']['rows'].items()):
      for sp in LOOK_SPECS:
        want = self.reference(sp, L, q, has_ms)
        got = q.get('r_' + sp['name'])
        got_one = q.get('o_' + sp['name'])
        n += 1
        got_l = as_list(got)
        if got_l is None:
          got_l = [] if got is None else got
        if got_l != want:
          yield (vkey('C13', 'lookupRecords', ctx, extra=sp['name']),
                 "after %r: Q[%s] L.lookupRecords(%s) with q=%r qi=%r gave %s, reference %s" % (
                     ctx.label, qr, sp['args'], q.get('q'), q.get('qi'), got, want))
        want_one = want[0] if want else 0
        if got_one != want_one:
          yield (vkey('C13', 'lookupOne', ctx, extra=sp['name']),
                 "after %r: Q[%s] L.lookupOne(%s) with q=%r qi=%r gave %s, reference %s" % (
                     ctx.label, qr, sp['args'], q.get('q'), q.get('qi'), got_one, want_one))
    ctx.extra['lookups_compared'] = n

  @staticmethod
  def reference(sp, L, q, has_ms):
    ids = []
    for r in sorted(L):
      row = L[r]
      ok = True
      for (lc, qc, mode) in sp['keys']:
        key = q.get(qc) if qc else None
        cell = row.get(lc)
        if mode == 'const_none':
          # key None on a Bool column is converted to the column's type: False
          if cell != {'b': False}:
            ok = False
          continue
        if mode == 'list_of':
          # the whole list as key: matches rows whose list cell has the same elements in order
          want_l = as_list(key) or []
          if (as_list(cell) or []) != want_l or (not want_l and cell is not None and as_list(cell) is None):
            ok = False
          if not want_l:
            ok = (cell is None)
          continue
        if mode == 'eq':
          if cell != key or (isinstance(cell, bool) != isinstance(key, bool)):
            ok = False
        else:
          lst = as_list(cell)
          if lst is None and cell is None:
            lst = []
          if lst is None:
            ok = False          # non-list cell (alt text) matches nothing
          elif lst:
            ok = ok and (key in lst)
          else:
            ok = ok and (mode == 'contains_empty' and key == '')
        if not ok:
          break
      if ok:
        ids.append(r)
    if sp['sort_by'] is not None:
      spec = (sp['sort_by'],)
    else:
      ob = sp['order_by']
      if ob == '__absent__':
        ob = 'id'
      ob = () if ob is None else ((ob,) if isinstance(ob, str) else tuple(ob))
      if 'id' in ob:
        spec = ob[:ob.index('id')]
      elif has_ms and 'manualSort' not in ob:
        spec = ob + ('manualSort',)
      else:
        spec = ob

    def sort_key(r):
      k = []
      for c in spec:
        desc = c.startswith('-')
        v = L[r].get(c.lstrip('-'))
        if isinstance(v, dict) and 'f' in v:
          v = float(v['f'])          # non-integral floats / inf are spelled {'f': repr} by norm()
        k.append(_Desc(v) if desc else v)
      k.append(r)
      return k
    return sorted(ids, key=_KeyWrap.make(sort_key))


class _KeyWrap(object):
  """List comparison that tolerates _Desc items."""
  @staticmethod
  def make(fn):
    class K(object):
      __slots__ = ('k',)

      def __init__(self, r):
        self.k = fn(r)

      def __lt__(self, other):
        for a, b in zip(self.k, other.k):
          if a == b:
            continue
          return a < b
        return False
    return K


# ------------------------------------------------------------------------------------------------
class Positions(Monitor):
  """C20 (engine part): every position column holds distinct values after any history."""
  name = 'positions'

  def check(self, ctx):
    if ctx.exc is not None:
      return
    d = ctx.post_dump
    types = all_col_types(d)
    for tid, t in d.items():
      for cid, ty in types.get(tid, {}).items():
        if R.pure_type(ty) not in ('PositionNumber', 'ManualSortPos') or cid not in t['cols']:
          continue
        seen = {}
        for r, row in sorted(t['rows'].items()):
          v = json.dumps(row.get(cid), sort_keys=True)
          if v in seen:
            yield (vkey('C20', 'duplicate-position', ctx, extra='%s.%s' % (R.strip_numbers(tid), cid)),
                   "after %r: %s rows %s and %s share %s=%s" % (ctx.label, tid, seen[v], r, cid, v))
            break
          seen[v] = r


# ------------------------------------------------------------------------------------------------
class DirectFlags(Monitor):
  """C31: direct flags parallel to stored; formula/summary/empty-column conversions non-direct."""
  name = 'direct-flags'

  def check(self, ctx):
    if ctx.exc is not None:
      return
    g = ctx.group
    stored = H.stored_reprs(g)
    direct = list(g.direct)
    if len(stored) != len(direct):
      yield (vkey('C31', 'length-mismatch', ctx), "len(stored)=%d len(direct)=%d after %r" % (
          len(stored), len(direct), ctx.label))
      return
    d = ctx.post_dump
    pre = ctx.pre_dump
    # formula columns / summary tables according to metadata before and after the bundle
    def meta(dump):
      tables = {r: t for r, t in dump['_grist_Tables']['rows'].items()}
      summ = set(t['tableId'] for t in tables.values() if t.get('summarySourceTable'))
      formula = set()
      for c in dump['_grist_Tables_column']['rows'].values():
        t = tables.get(c['parentId'])
        if t and unb(c['isFormula']):
          formula.add((t['tableId'], c['colId']))
      return summ, formula
    summ_a, form_a = meta(d)
    summ_b, form_b = meta(pre)

    def has_formula_text(dump):
      tables = dump['_grist_Tables']['rows']
      return set((tables[c['parentId']]['tableId'], c['colId'])
                 for c in dump['_grist_Tables_column']['rows'].values()
                 if c['parentId'] in tables and c['formula'])
    trig = has_formula_text(d) | has_formula_text(pre)    # incl. trigger-formula data columns
    summ = summ_a | summ_b
    requested = json.loads(ctx.bundle)
    req_tables = set(a[1] for a in requested if a[0] in (
        'AddRecord', 'BulkAddRecord', 'UpdateRecord', 'BulkUpdateRecord', 'RemoveRecord',
        'BulkRemoveRecord', 'ReplaceTableData'))
    record_only = all(a[0] in ('AddRecord', 'BulkAddRecord', 'UpdateRecord', 'BulkUpdateRecord',
                               'RemoveRecord', 'BulkRemoveRecord', 'ReplaceTableData')
                      and not a[1].startswith('_grist_') for a in requested)
    n_direct = 0
    for a, flag in zip(stored, direct):
      name, tid = a[0], a[1]
      n_direct += bool(flag)
      if name in ('UpdateRecord', 'BulkUpdateRecord'):
        colids = set(a[3])
        if colids and all((tid, c) in form_a and (tid, c) in form_b for c in colids) and flag:
          yield (vkey('C31', 'formula-result-marked-direct', ctx, extra=tid),
                 "after %r: stored action %s writes only formula columns but is marked direct" % (
                     ctx.label, json.dumps(a)[:200]))
      # (updates of a summary table's group-by Ref cells when the referenced row is removed are
      # reference clean-up of the user's own removal; the statement does not classify them)
      if tid in summ and name in ('AddRecord', 'BulkAddRecord', 'RemoveRecord',
                                  'BulkRemoveRecord') and flag and record_only:
        yield (vkey('C31', 'summary-maintenance-marked-direct', ctx),
               "after %r: stored action %s on a summary table is marked direct" % (
                   ctx.label, json.dumps(a)[:200]))
      if record_only and name in ('ModifyColumn', 'AddColumn', 'RemoveColumn', 'RenameColumn',
                                  'AddTable', 'RemoveTable', 'RenameTable') and flag:
        yield (vkey('C31', 'schema-change-marked-direct-for-record-edit', ctx, extra=name),
               "after %r (record edits only): schema action %s is marked direct" % (
                   ctx.label, json.dumps(a)[:200]))
      if record_only and tid.startswith('_grist_') and flag:
        yield (vkey('C31', 'metadata-change-marked-direct-for-record-edit', ctx, extra=tid),
               "after %r (record edits only): metadata action %s is marked direct" % (
                   ctx.label, json.dumps(a)[:200]))
      if (record_only and tid in req_tables and tid not in summ and not flag and
          name in ('AddRecord', 'BulkAddRecord', 'RemoveRecord', 'BulkRemoveRecord')):
        yield (vkey('C31', 'requested-edit-marked-indirect', ctx, extra=name),
               "after %r: stored %s on the requested table is marked non-direct" % (
                   ctx.label, json.dumps(a)[:200]))
      if (record_only and tid in req_tables and tid not in summ and not flag and
          name in ('UpdateRecord', 'BulkUpdateRecord')):
        colids = set(a[3])
        req_cols = set()
        for ra in requested:
          if ra[1] == tid and ra[0] in ('UpdateRecord', 'BulkUpdateRecord', 'AddRecord', 'BulkAddRecord'):
            req_cols |= set(ra[3])
        rows_of = lambda x: set(x[2]) if isinstance(x[2], list) else {x[2]}
        cells = set((r, c) for r in rows_of(a) for c in colids & req_cols)
        # (the conversion of an empty column writes the type's default to every row, non-direct;
        # the user's value then arrives in a direct update of the same cell)
        covered = set((r, c) for b, f in zip(stored, direct)
                      if f and b[1] == tid and b[0] in ('UpdateRecord', 'BulkUpdateRecord')
                      for r in rows_of(b) for c in b[3])
        req_cells = set((r, c) for ra in requested
                        if ra[1] == tid and ra[0] in ('UpdateRecord', 'BulkUpdateRecord')
                        for r in rows_of(ra) for c in ra[3])
        if (cells & req_cells) - covered and not any((tid, c) in trig for c in colids):
          # data cells the user asked to write, in an update marked indirect
          yield (vkey('C31', 'requested-update-marked-indirect', ctx),
                 "after %r: stored %s carries requested columns but is marked non-direct" % (
                     ctx.label, json.dumps(a)[:200]))
    ctx.extra['direct_actions'] = n_direct


# ------------------------------------------------------------------------------------------------
TRIG_COUNT_FORMULA = "(value or 0) + 1"


class Triggers(Monitor):
  """
  C15: three-valued reference model of *when* a trigger formula recalculates.  Every trigger
  formula in W_trig is `(value or 0) + 1`, so a cell counts its own recalculations:
  MUST => post == pre + 1, MUST-NOT => post == pre, explicit value => that value.
  """
  name = 'triggers'
  RECORD = ('AddRecord', 'BulkAddRecord', 'UpdateRecord', 'BulkUpdateRecord', 'RemoveRecord',
            'BulkRemoveRecord')

  def check(self, ctx):
    if ctx.exc is not None:
      return
    pre, post = ctx.pre_dump, ctx.post_dump
    if 'T' not in pre or 'T' not in post:
      return
    bundle = json.loads(ctx.bundle)
    kinds = set(a[0] for a in bundle)
    record_only = all(a[0] in self.RECORD and a[1] == 'T' for a in bundle)
    schema_only = not any(a[0] in self.RECORD and not a[1].startswith('_grist_') for a in bundle)
    if not (record_only or schema_only) or 'ReplaceTableData' in kinds:
      return
    cfg = self.config(pre)
    cfg_post = self.config(post)
    prer, postr = pre['T']['rows'], post['T']['rows']
    new_rows = sorted(set(postr) - set(prer))
    # what the user wrote, per row
    wrote = {}       # row -> {col: value}
    adds = []        # list of {col: value} in order of addition
    if record_only:
      for a in bundle:
        if a[0] == 'AddRecord':
          adds.append(a[3])
        elif a[0] == 'BulkAddRecord':
          for i in range(len(a[2])):
            adds.append({c: v[i] for c, v in a[3].items()})
        elif a[0] == 'UpdateRecord':
          wrote.setdefault(a[2], {}).update(a[3])
        elif a[0] == 'BulkUpdateRecord':
          for i, r in enumerate(a[2]):
            wrote.setdefault(r, {}).update({c: v[i] for c, v in a[3].items()})
    n_checked = 0
    for tcol, (when, deps, selfdep) in sorted(cfg.items()):
      if tcol not in cfg_post or cfg_post[tcol] != cfg[tcol] or tcol not in post['T']['cols']:
        continue      # configuration of this column changed in this bundle: not modelled
      # new rows
      if record_only and len(adds) == len(new_rows):
        for vals, r in zip(adds, new_rows):
          got = postr[r].get(tcol)
          if tcol in vals and not selfdep:
            want, why = vals[tcol], 'explicit value supplied on add must be kept'
          elif tcol in vals:
            continue
          elif when == 1:
            want, why = 0, 'recalcWhen=NEVER: new record keeps the default'
          else:
            want, why = 1, 'new record must get the formula value'
          n_checked += 1
          if got != want:
            yield (vkey('C15', 'new-record', ctx, extra='%s/%s' % (tcol, why.split(':')[0].split(' must')[0])),
                   "after %r: new row T[%s].%s = %r, expected %r (%s)" % (ctx.label, r, tcol, got, want, why))
      # existing rows
      for r in sorted(set(prer) & set(postr)):
        before, got = prer[r].get(tcol), postr[r].get(tcol)
        w = wrote.get(r, {})
        dep_changed = any(prer[r].get(d) != postr[r].get(d) for d in deps if d != tcol)
        verdict = None
        if schema_only:
          verdict, why = 'not', 'schema/metadata change must not trigger recalculation'
        elif tcol in w:
          if not selfdep:
            want = w[tcol]
            n_checked += 1
            if got != want:
              yield (vkey('C15', 'explicit-value-not-kept', ctx, extra=tcol),
                     "after %r: T[%s].%s = %r but the action set it explicitly to %r" % (
                         ctx.label, r, tcol, got, want))
            continue
          if w[tcol] != before and isinstance(w[tcol], int):
            n_checked += 1
            if got != w[tcol] + 1:
              yield (vkey('C15', 'self-dependent-not-recalculated', ctx, extra=tcol),
                     "after %r: T[%s].%s = %r, expected %r (explicit %r on a self-dependent column "
                     "must be recalculated once)" % (ctx.label, r, tcol, got, w[tcol] + 1, w[tcol]))
          continue
        elif when == 1:
          verdict, why = 'not', 'recalcWhen=NEVER'
        elif when == 2:
          # the user's update changes the row when a written value differs from the cell's prior
          # value, even if a self-dependent trigger then puts the old value back
          changed_visibly = any(prer[r].get(c) != postr[r].get(c) for c in w)
          wrote_other = any(prer[r].get(c) != w[c] for c in w)
          if changed_visibly:
            verdict, why = 'must', 'MANUAL_UPDATES and a user update changed the row'
          elif not wrote_other:
            verdict, why = 'not', 'MANUAL_UPDATES and no user update changed the row'
        else:
          # DEFAULT
          data_inputs = set()
          for d in deps:
            data_inputs.add(d)
            if d == 'c':
              data_inputs.add('a')      # c = $a + 1 (or + 2)
          if dep_changed:
            verdict, why = 'must', 'a recalcDeps cell of the row changed value'
          elif not (set(w) & data_inputs):
            verdict, why = 'not', 'no recalcDeps cell of the row was written or recomputed'
        if verdict is None or not isinstance(before, int):
          continue
        n_checked += 1
        if verdict == 'must' and got != before + 1:
          yield (vkey('C15', 'missed-recalc', ctx, extra=tcol),
                 "after %r: T[%s].%s went %r -> %r, expected one recalculation (%s)" % (
                     ctx.label, r, tcol, before, got, why))
        if verdict == 'not' and got != before:
          yield (vkey('C15', 'spurious-recalc', ctx, extra=tcol),
                 "after %r: T[%s].%s went %r -> %r, expected no recalculation (%s)" % (
                     ctx.label, r, tcol, before, got, why))
    ctx.extra['trigger_cells_checked'] = n_checked

  @staticmethod
  def config(dump, any_formula=False):
    """{trigger col id: (recalcWhen, [dep col ids], self-dependent)} for table T."""
    tables = dump['_grist_Tables']['rows']
    tref = next((r for r, t in tables.items() if t['tableId'] == 'T'), None)
    cols = dump['_grist_Tables_column']['rows']
    byref = {r: c['colId'] for r, c in cols.items()}
    out = {}
    for r, c in cols.items():
      # only the columns whose formula counts its own recalculations are modelled
      if (c['parentId'] == tref and not unb(c['isFormula']) and c['formula'] and
          (any_formula or c['formula'] == TRIG_COUNT_FORMULA)):
        deps = as_list(c.get('recalcDeps')) or []
        out[c['colId']] = (c.get('recalcWhen') or 0, [byref.get(d, '?') for d in deps], r in deps)
    return out


class TriggerReplay(Monitor):
  """
  C15, replay direction: undo and redo set every cell explicitly (ApplyUndoActions /
  ApplyDocActions of recorded doc actions), so no trigger formula may run: after the undo every
  trigger cell holds its pre-bundle value, after the redo its post-bundle value.
  """
  name = 'trigger-replay'
  destructive = True

  def check(self, ctx):
    if ctx.exc is not None or 'T' not in ctx.pre_dump or 'T' not in ctx.post_dump:
      return
    pre, post = ctx.pre_dump, ctx.post_dump
    cfg = Triggers.config(pre, any_formula=True)
    g, e = ctx.doc.try_apply([["ApplyUndoActions", H.undo_reprs(ctx.group)]])
    if e is not None:
      return          # C01's business
    mid = ctx.doc.dump()
    for tcol in sorted(cfg):
      for r, row in sorted(pre['T']['rows'].items()):
        got = mid.get('T', {}).get('rows', {}).get(r, {}).get(tcol)
        if tcol in row and got != row[tcol]:
          yield (vkey('C15', 'undo-recalculated-trigger', ctx, extra=tcol),
                 "after undoing %r: T[%s].%s = %r, before the bundle it held %r (undo supplies "
                 "every value; no trigger formula may run)" % (ctx.label, r, tcol, got, row[tcol]))
          break
    g, e = ctx.doc.try_apply([["ApplyDocActions", H.stored_reprs(ctx.group)]])
    if e is not None:
      return
    cfg2 = Triggers.config(post, any_formula=True)
    end = ctx.doc.dump()
    for tcol in sorted(cfg2):
      for r, row in sorted(post['T']['rows'].items()):
        got = end.get('T', {}).get('rows', {}).get(r, {}).get(tcol)
        if tcol in row and got != row[tcol]:
          yield (vkey('C15', 'redo-recalculated-trigger', ctx, extra=tcol),
                 "after redoing %r: T[%s].%s = %r, the bundle itself left %r" % (
                     ctx.label, r, tcol, got, row[tcol]))
          break


# ------------------------------------------------------------------------------------------------
def _num(v):
  """Position cell of a dump as a float (norm() spells non-integral floats {'f': repr})."""
  if isinstance(v, dict) and 'f' in v:
    return float(v['f'])
  if isinstance(v, bool) or not isinstance(v, (int, float)):
    return None
  return float(v)


class PositionOrder(Monitor):
  """
  C20 (engine part, order): through PositionColumn.prepare_new_values and the doc actions it
  emits.  After every successful bundle, in every position column: rows the bundle did not place
  keep their relative order; every row the bundle placed (added with / moved to a requested
  position) sits after exactly the untouched rows whose prior position is smaller than the
  request; placed rows follow the order of their requests (ties: batch order); all finite and
  distinct.  Requests are read from the bundle itself, prior positions from the pre-state.
  """
  name = 'position-order'
  RECORD = ('AddRecord', 'BulkAddRecord', 'UpdateRecord', 'BulkUpdateRecord', 'RemoveRecord',
            'BulkRemoveRecord')

  def check(self, ctx):
    if ctx.exc is not None:
      return
    pre, post = ctx.pre_dump, ctx.post_dump
    bundle = json.loads(ctx.bundle)
    types = all_col_types(post)
    pre_by_ref = {r: t['tableId'] for r, t in pre['_grist_Tables']['rows'].items()}
    n = 0
    for ref, t in sorted(post['_grist_Tables']['rows'].items()):
      tid = t['tableId']
      ptid = pre_by_ref.get(ref)
      if tid not in post or ptid not in pre:
        continue
      acts = [a for a in bundle if a[0] in self.RECORD and a[1] == ptid]
      simple = len(bundle) == 1 and len(acts) == 1
      for cid, ty in sorted(types.get(tid, {}).items()):
        if R.pure_type(ty) not in ('PositionNumber', 'ManualSortPos'):
          continue
        if cid not in post[tid]['cols'] or cid not in pre[ptid]['cols']:
          continue
        prer = {r: _num(row.get(cid)) for r, row in pre[ptid]['rows'].items()}
        postr = {r: _num(row.get(cid)) for r, row in post[tid]['rows'].items()}
        if any(v is None for v in list(prer.values()) + list(postr.values())):
          continue          # alt-text in a position cell: not a position history
        placed = []         # [(row id, requested float)] in batch order
        if simple:
          a = acts[0]
          new_rows = sorted(set(postr) - set(prer))
          if a[0] in ('AddRecord', 'BulkAddRecord'):
            ids = [a[2]] if a[0] == 'AddRecord' else a[2]
            vals = a[3].get(cid)
            reqs = [vals] if a[0] == 'AddRecord' else vals
            if len(new_rows) != len(ids):
              continue
            if reqs is None:
              if cid != 'manualSort':
                continue
              reqs = [None] * len(ids)
            for r, q in zip(new_rows, reqs):
              placed.append((r, float('inf') if q is None else _num(q)))
          elif a[0] in ('UpdateRecord', 'BulkUpdateRecord') and cid in a[3]:
            ids = [a[2]] if a[0] == 'UpdateRecord' else a[2]
            reqs = [a[3][cid]] if a[0] == 'UpdateRecord' else a[3][cid]
            for r, q in zip(ids, reqs):
              placed.append((r, float('inf') if q is None else _num(q)))
          if any(q is None for (_r, q) in placed) or len(set(r for r, _q in placed)) != len(placed):
            continue
        placed_ids = set(r for r, _q in placed)
        untouched = [r for r in prer if r in postr and r not in placed_ids]
        n += 1
        loc = '%s.%s' % (R.strip_numbers(tid), cid)
        vals = list(postr.values())
        if any(v != v or v in (float('inf'), float('-inf')) for v in vals) and simple:
          bad = [r for r, v in sorted(postr.items()) if v != v or abs(v) == float('inf')]
          # (a row appended without a position gets one; inf is the column default only)
          yield (vkey('C20', 'non-finite-position', ctx, extra=loc),
                 "after %r: %s rows %s hold a non-finite %s" % (ctx.label, tid, bad, cid))
          continue
        if len(set(vals)) != len(vals):
          continue          # Positions monitor reports duplicates
        before = sorted(untouched, key=lambda r: prer[r])
        after = sorted(untouched, key=lambda r: postr[r])
        if before != after:
          yield (vkey('C20', 'existing-order-changed', ctx, extra=loc),
                 "after %r: rows of %s the bundle did not place were ordered %s by %s, now %s" % (
                     ctx.label, tid, before, cid, after))
          continue
        for (r, q) in placed:
          if r not in postr:
            continue
          want_before = set(u for u in untouched if prer[u] < q)
          got_before = set(u for u in untouched if postr[u] < postr[r])
          if want_before != got_before:
            yield (vkey('C20', 'misplaced', ctx, extra=loc),
                   "after %r: %s row %s was placed at %s=%r requested %r: rows before it %s, "
                   "expected %s" % (ctx.label, tid, r, cid, postr[r], q, sorted(got_before),
                                    sorted(want_before)))
            break
        for i in range(len(placed)):
          for j in range(i + 1, len(placed)):
            (ra, qa), (rb, qb) = placed[i], placed[j]
            if ra in postr and rb in postr and ((qa <= qb) != (postr[ra] < postr[rb])):
              yield (vkey('C20', 'batch-order', ctx, extra=loc),
                     "after %r: %s rows %s,%s requested %r,%r got %r,%r" % (
                         ctx.label, tid, ra, rb, qa, qb, postr[ra], postr[rb]))
    ctx.extra['position_columns_checked'] = n


# ------------------------------------------------------------------------------------------------
class Idents(Monitor):
  """
  C21 (engine part): whatever names a bundle asked for, every table id and column id the document
  ends up with is a valid identifier of its kind, and ids are unique ignoring case (table ids in
  the document, column ids within their table).  `may_fail`: labels (numbers stripped) of
  requests the engine is entitled to refuse; any other rejected naming request is reported.
  """
  name = 'idents'

  def __init__(self, may_fail=()):
    self.may_fail = set(may_fail)

  def check(self, ctx):
    import keyword
    if ctx.exc is not None:
      if ctx.pre_dump != ctx.post_dump:
        return      # C04's business
      lab = R.strip_numbers(ctx.label)
      if lab not in self.may_fail:
        yield (vkey('C21', 'naming-request-rejected', ctx, extra=type(ctx.exc).__name__),
               "bundle %r was rejected: %s" % (ctx.label, H.exc_text(ctx.exc)))
      return
    d = ctx.post_dump
    tables = d['_grist_Tables']['rows']
    cols = d['_grist_Tables_column']['rows']

    def bad_ident(x, table):
      if not isinstance(x, str) or not x.isidentifier() or not x.isascii():
        return 'not an ASCII identifier'
      if keyword.iskeyword(x):
        return 'a Python keyword'
      if x[0] == '_' or x[0].isdigit():
        return 'starts with an underscore or digit'
      if table and not x[0].isupper():
        return 'a table id not starting with an uppercase letter'
      return None
    seen = {}
    for r, t in sorted(tables.items()):
      tid = t['tableId']
      why = bad_ident(tid, True)
      if why:
        yield (vkey('C21', 'invalid-table-id', ctx), "after %r: table id %r is %s" % (ctx.label, tid, why))
      low = tid.lower() if isinstance(tid, str) else tid
      if low in seen:
        yield (vkey('C21', 'duplicate-table-id', ctx),
               "after %r: table ids %r and %r differ at most in case" % (ctx.label, seen[low], tid))
      seen[low] = tid
      if tid not in d:
        yield (vkey('C21', 'table-id-not-in-engine', ctx), "after %r: no table %r in the engine" % (ctx.label, tid))
    per = {}
    for r, c in sorted(cols.items()):
      t = tables.get(c['parentId'])
      if t is None:
        continue
      cid = c['colId']
      if cid in ('manualSort',) or (isinstance(cid, str) and cid.startswith('gristHelper_')):
        pass
      why = bad_ident(cid, False)
      if why:
        yield (vkey('C21', 'invalid-col-id', ctx), "after %r: column id %r of %s is %s" % (
            ctx.label, cid, t['tableId'], why))
      low = cid.lower() if isinstance(cid, str) else cid
      s = per.setdefault(c['parentId'], {})
      if low in s:
        yield (vkey('C21', 'duplicate-col-id', ctx),
               "after %r: columns %r and %r of %s differ at most in case" % (ctx.label, s[low], cid, t['tableId']))
      s[low] = cid


# ------------------------------------------------------------------------------------------------
class Lookups2(Monitor):
  """
  C13 over W_look2: the single referring row D[1] against a reference computed from the dump
  (naive filter, order by the column named in the formula, then manualSort, then id).
  """
  name = 'lookups2'

  def check(self, ctx):
    if ctx.exc is not None:
      return
    d = ctx.post_dump
    if 'L' not in d or 'D' not in d or 1 not in d['D']['rows']:
      return
    L, D = d['L']['rows'], d['D']['rows'][1]
    lcols = d['L']['cols']
    cols = d['_grist_Tables_column']['rows']
    tabs = {r: t['tableId'] for r, t in d['_grist_Tables']['rows'].items()}
    formula = {c['colId']: c['formula'] for c in cols.values() if tabs.get(c['parentId']) == 'D'}
    ob = 's2' if 'order_by="s2"' in formula.get('ids', '') else 's1'
    x, lim = D.get('x'), D.get('lim')
    matches = sorted(r for r, row in L.items() if row.get('key') == x)
    is_err = lambda v: isinstance(v, list) and v[:1] == ['E']
    want = {'cnt': len(matches)}
    if ob in lcols:
      ordered = sorted(matches, key=lambda r: (L[r][ob], _num(L[r].get('manualSort')) or 0, r))
      want['ids'] = ordered
      want['first'] = ordered[0] if ordered else 0
      want['hist'] = ordered
      below = [r for r in ordered if isinstance(lim, int) and L[r][ob] <= lim]
      want['cur'] = L[below[-1]].get('amt') if below else 0
    else:                     # a missing sort column is an error whether or not anything matches
      for c in ('ids', 'first', 'hist', 'cur'):
        want[c] = 'error'
    want['zz'] = [L[r]['zz'] for r in matches] if 'zz' in lcols else 'error'
    want['has'] = sum(1 for row in L.values() if x in (as_list(row.get('tags')) or []))
    # a key cell holding an error matches nothing; a table that does not exist is an error
    want['byk'] = sorted(r for r, row in L.items() if not is_err(row.get('kk')) and
                         row.get('kk') == lim and not isinstance(row.get('kk'), bool))
    want['lat'] = (sum(1 for row in d['Later']['rows'].values() if row.get('y') == lim)
                   if 'Later' in d and 'y' in d['Later']['cols'] else 'error')
    n = 0
    for c, w in sorted(want.items()):
      if c not in D:
        continue
      got = D[c]
      n += 1
      if w == 'error':
        ok = is_err(got)
      elif isinstance(w, list):
        ok = (as_list(got) or []) == w and not is_err(got)
      else:
        ok = got == w and not isinstance(got, bool)
      if not ok:
        yield (vkey('C13', 'lookup-result', ctx, extra=c),
               "after %r: D[1].%s (%s) = %r, reference %r (x=%r lim=%r order by %s; L=%s)" % (
                   ctx.label, c, formula.get(c), got, w, x, lim, ob,
                   {r: {k: v for k, v in row.items() if k in ('key', ob, 'amt', 'tags')}
                    for r, row in sorted(L.items())}))
    ctx.extra['lookups_compared'] = n
